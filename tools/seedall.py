#!/usr/bin/env python3
"""runs tools/seedtest.sh for every seeded change and (re)writes seeded/<id>/meta.json"""
import json, re, subprocess, sys
from pathlib import Path
V = Path(__file__).resolve().parent.parent
props = {json.loads(l)["id"]: json.loads(l) for l in (V / "properties.jsonl").read_text().splitlines() if l.strip()}
only = sys.argv[1:]
for d in sorted((V / "seeded").iterdir()):
    if not d.is_dir() or (only and d.name not in only):
        continue
    pid = d.name[:3]
    # a seed written for one property may in fact break the statement of another one (recorded in
    # seeded/<id>/checked_by together with the reason): then that property's check is the detector
    by = (d / "checked_by").read_text().split()[0] if (d / "checked_by").exists() else pid
    import os
    out = subprocess.run([str(V / "tools" / "seedtest.sh"), "seeded/" + d.name, "quick"], capture_output=True, text=True,
                         env=dict(os.environ, PID=by)).stdout
    tests = re.search(r"== pinned tests with the change:\n(.*)", out)
    demo = re.search(r"demo exit=(\d+)", out)
    chk = re.search(r"check exit=(\d+)", out)
    keys = sorted(set(re.findall(r"^  \[([^\]]+)\]", out, flags=re.M)))
    notes = (d / "notes.md").read_text() if (d / "notes.md").exists() else ""
    meta = {
        "property": pid,
        "checked_by": by,
        "title": props[pid]["title"],
        "source": "written by an independent sub-agent from the property text only (own scratch worktree, nothing from /verif)",
        "needs_to_manifest": " ".join(notes.split())[:900],
        "ran": {
            "command": "tools/seedtest.sh seeded/%s quick  (scratch copy of /repo's current tree + patch; never applied to /repo)" % d.name,
            "pinned_tests_with_change": tests.group(1).strip() if tests else None,
            "demo_exit_with_change": int(demo.group(1)) if demo else None,
            "check_exit_with_change": int(chk.group(1)) if chk else None,
            "violated_mechanism_keys": keys,
        },
        "detected_by_quick_check": bool(chk and chk.group(1) == "1"),
    }
    (d / "meta.json").write_text(json.dumps(meta, indent=1) + "\n")
    print(d.name, "tests:", meta["ran"]["pinned_tests_with_change"], "demo:", meta["ran"]["demo_exit_with_change"],
          "check:", meta["ran"]["check_exit_with_change"], keys[:3])
