#!/bin/bash
# tools/seedtest.sh <seeded-dir> [tier]   e.g. tools/seedtest.sh seeded/C05-a quick
# Applies the seeded patch to a scratch copy of /repo's current tree (never to /repo), runs the
# pinned suite, the demonstration, and the /verif check of the property against the copy.
set -u
V=$(cd "$(dirname "$0")/.." && pwd)
D=$V/$1; TIER=${2:-quick}
PID=${PID:-$(basename "$1" | cut -c1-3)}
S=$(mktemp -d /tmp/seedtest-XXXXXX)
trap 'rm -rf "$S"' EXIT
rsync -a --exclude .git /repo/ "$S/repo/"
cd "$S/repo"
if [ -f "$D/base.diff" ] && [ "${NOBASE:-0}" != 1 ]; then patch -p1 -s --no-backup-if-mismatch < "$D/base.diff" || echo "BASE PATCH FAILED"; fi
if ! patch -p1 -s --no-backup-if-mismatch < "$D/patch.diff"; then echo "PATCH DOES NOT APPLY"; exit 3; fi
mkdir -p "$S/home"
echo "== pinned tests with the change:"
(cd "$S/repo" && PYTHONPATH="$S/repo" /venv/bin/python -m pytest -q -p no:cacheprovider --timeout=900 --continue-on-collection-errors 2>&1 | tail -1)
if [ "${NODEMO:-0}" != 1 ]; then
echo "== demo with the change (expect non-zero):"
(cd "$S" && cp "$D/demo.py" . && MPLBACKEND=Agg PYTHONPATH="$S/repo" HOME="$S/home" timeout 900 /venv/bin/python demo.py >"$S/demo.out" 2>&1; echo "demo exit=$?"; tail -3 "$S/demo.out" | cut -c1-300)
fi
echo "== check $PID $TIER against the changed copy (expect exit 1):"
(cd "$V" && VERIF_REPO="$S/repo" VERIF_NOEVIDENCE=1 ./check "$PID" "$TIER" 2>&1 | cut -c1-400 | head -12; echo "check exit=${PIPESTATUS[0]}")
