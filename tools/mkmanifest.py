#!/usr/bin/env python3
"""regenerates /verif/MANIFEST.json from the table below (kept in one place so it stays valid)."""
import json
from pathlib import Path

VERIF = Path(__file__).resolve().parent.parent
BASELINE_OFF = ("cd /repo && env -u EVO_VERIF /venv/bin/python -m pytest -ra -q -p no:cacheprovider "
                "--timeout=900 --continue-on-collection-errors")

# id -> (category, technique, level text, level note, design ref)
CHECKS = {
    "C09": ("exploration", "runtime law monitors on the real Lie helpers (seeded hostile generators)",
            "Every group law of the statement is evaluated by a monitor on the real helpers for "
            "thousands of generated rotations/poses/similarities per run incl. angles within 1e-16 "
            "of 0 and 1e-12 of pi, translations 1e-6..1e9, scales 1e-4..1e4 and near-miss matrices "
            "at controlled distance; held means: no law broken on the executions observed.",
            "numpy matmul/det; oracle algebra in vmon/refmodel.py (Rodrigues, atan2 angle); "
            "tolerance 1e-9 vs observed noise <= 5e-15", "DESIGN.md §3 C09"),
}
PENDING = {}


def main():
    props = [json.loads(l) for l in (VERIF / "properties.jsonl").read_text().splitlines() if l.strip()]
    checks = []
    na = []
    for p in props:
        pid = p["id"]
        if pid in CHECKS and (VERIF / "vmon" / "props" / (pid + ".py")).exists():
            cat, tech, text, note, ref = CHECKS[pid]
            checks.append({
                "property_id": pid,
                "quick_cmd": "./check %s quick" % pid,
                "thorough_cmd": "./check %s thorough" % pid,
                "evidence_file": "/verif/evidence/%s.json" % pid,
                "replay_cmd_template": "./check %s --replay {path}" % pid,
                "engine": "vmon",
                "level_claimed": {"category": cat, "text": text, "design_ref": ref},
                "level_note": note,
                "technique": tech,
            })
        else:
            na.append({"property_id": pid,
                       "reason": PENDING.get(pid, "runtime monitor designed (DESIGN.md §3) but its "
                                             "check is not built yet; not claimed until it is")})
    man = {
        "version": 1,
        "setup_cmd": "cd /verif && /venv/bin/python -m vmon.selftest",
        "hooks": {
            "guard": "EVO_VERIF",
            "enable": "no source hooks are needed: all monitors wrap evo's functions/classes from "
                      "outside (module attributes, sys.addaudithook, sys.monitoring); evo is "
                      "imported from /repo's working tree (editable install), nothing is built",
            "baseline_off_cmd": BASELINE_OFF,
            "source_commits": [],
            "add_only": True,
        },
        "engines": [{
            "name": "vmon", "path": "/verif/vmon",
            "serves_properties": [c["property_id"] for c in checks],
            "kind_free_text": "runtime monitoring: contracts / invariants / shadow models / trace "
                              "checkers on the real evo code under seeded hostile workloads, "
                              "sharded over processes; ./check <ID> <tier>",
        }],
        "checks": checks,
        "not_applicable": na,
        "notes": "Exit 0 = held on the executions observed, 1 = VIOLATION line printed, 2 = "
                 "INCONCLUSIVE (a deciding monitor was never reached / watchdog); see DESIGN.md.",
    }
    (VERIF / "MANIFEST.json").write_text(json.dumps(man, indent=1) + "\n")
    print("MANIFEST.json: %d checks, %d not_applicable" % (len(checks), len(na)))


if __name__ == "__main__":
    main()
