#!/usr/bin/env python3
"""regenerates /verif/MANIFEST.json from the table below (kept in one place so it stays valid)."""
import json
from pathlib import Path

VERIF = Path(__file__).resolve().parent.parent
BASELINE_OFF = ("cd /repo && env -u EVO_VERIF /venv/bin/python -m pytest -ra -q -p no:cacheprovider "
                "--timeout=900 --continue-on-collection-errors")

# id -> (category, technique, level text, level note, design ref)
CHECKS = {
    "C03": ("exploration", "runtime contract on umeyama_alignment vs Horn closed form + perturbation cloud",
            "Every observed call of the real umeyama_alignment (direct and at its call site inside "
            "PosePath3D.align) is judged: proper rotation, positive/unit scale, SSE not above Horn's "
            "independent closed-form optimum nor any perturbed candidate, noise-free reproduction, "
            "equivariance under rigid motion/permutation/scaling, refusal of exactly degenerate and "
            "unequal input with GeometryException; thousands of generated point sets per run across "
            "generic/planar/near-collinear/noisy/mirrored/offset/scale classes.",
            "numpy eigh (Horn); SVD only classifies inputs; tolerances scale-aware (1e-9 relative + "
            "rounding model of the common offset)", "DESIGN.md §3 C03"),
    "C04": ("exploration", "runtime contract on PosePath3D.align/align_origin and on ape()/rpe() results",
            "The generating arrays are the exact pre-state; after each real align/align_origin call "
            "all views of the estimate are compared with an own application of the returned "
            "similarity, the reference is snapshot-compared, optimality is judged as in C03, poses "
            "beyond n are perturbed (bit-identical result required), re-alignment must be the "
            "identity, and the matrix recorded by main_ape.ape()/main_rpe.rpe() must map the "
            "unaligned estimate onto the stored one for all five admitted mode combinations.",
            "same as C03; PosePath3D built from copies so the generator arrays are the pre-state",
            "DESIGN.md §3 C04"),
    "C05": ("exploration", "runtime contract on associate_trajectories/matching_time_indices vs exact-rational nearest-neighbour model",
            "Each real association is mapped back to input indices through the timestamps, every "
            "output pose is compared bit for bit (all views) with the input pose, and the pair list "
            "is judged in exact rational arithmetic: within max_diff, nearest counterpart, "
            "uncontested in-range poses paired, strictly increasing (no pose twice), refusal iff "
            "nothing matches, inputs untouched; dyadic workloads make the <= boundary exact.",
            "fractions.Fraction; 4-ulp band at inexact boundaries only", "DESIGN.md §3 C05"),
    "C10": ("exploration", "clause checkers over evo's returned pair lists; bounded-exhaustive exact grids + random",
            "All step sequences {0..3}^(n-1) for n up to 6 (quick) / 8 (thorough) poses with pi/8 "
            "rotation grids are enumerated for every delta/tolerance on the grid and every unit and "
            "mode (tol = 0 for path lengths), plus random sequences up to 3000 poses; each returned "
            "list is checked clause by clause (range, chain, first pose reaching delta, start, "
            "continuation, closest end, band membership both ways, FilterException iff empty).",
            "integer path lengths exact in float64; angles three-valued within 1e-9 rad", "DESIGN.md §3 C10"),
    "C11": ("exploration", "runtime contracts with index recovery + clause checkers on the real selection operations",
            "downsample, motion_filter/filter_by_motion, reduce_to_time_range, split_* and merge are "
            "called on generated trajectories (exact grids and random, both storage modes); kept "
            "poses are mapped back to input indices and compared bit for bit in all views; counts, "
            "end points, spacing, threshold clauses (both directions, exact hits on grids), "
            "partition and union-multiset clauses are evaluated on evo's own output.",
            "unique stamps / unique poses identify kept poses; 1e-9*scale band at inexact thresholds",
            "DESIGN.md §3 C11"),
    "C01": ("exploration", "runtime contract on APE.process_data + evo_ape runs vs independent reference pipeline",
            "L1: every real APE.process_data call on generated pairs (hostile relative angles, UTM "
            "offsets, both storage modes, 7 relations) is compared value by value with an own "
            "implementation of the definition, plus swap / common-motion / coincidence laws and "
            "refusal of unequal lengths. L3: evo_ape is run in-process on generated TUM/KITTI/EuRoC "
            "files under random option combinations; the archive is read back with an own reader and "
            "compared with the definition on the stored processed pair and with an independent "
            "pipeline (own parsers, selection rules, Horn alignment) applied to the input files; "
            "refusals must agree in exception class.",
            "zipfile/json/np.load read archives; threshold-ambiguous cases are counted and skipped",
            "DESIGN.md §3 C01"),
    "C02": ("exploration", "runtime contract on RPE.process_data (pairs recorded at id_pairs_from_delta) + evo_rpe runs vs reference pipeline",
            "The pairs evo selected are recorded by a wrapper on id_pairs_from_delta; values and "
            "pair-end indices are compared with the definition over exactly those pairs (incl. "
            "zero-distance skipping), independent rigid motions of reference and estimate must not "
            "change values, a moved copy must give zero, unequal lengths must be refused; evo_rpe "
            "runs are captured at the RPE.process_data boundary and compared with the independent "
            "pipeline and the definition.", "pair selection correctness is C10's", "DESIGN.md §3 C02"),
    "C12": ("exploration", "statistics/unit contracts on PE + companion-array oracle over real evo_ape/evo_rpe archives",
            "Statistics of the real PE methods are compared with math.fsum-based definitions and "
            "the order relations on arrays of 1..1e6 values; all 100 ordered unit pairs are "
            "converted (exact factors within 4 ulp, refusals leave bytes and unit untouched); every "
            "archive of the C01/C02 CLI workloads is checked for companion-array length and "
            "reference to the right pose, stored RPE trajectories, stored statistics and title/label.",
            "companion arrays tied to the trajectories stored in the same result", "DESIGN.md §3 C12"),
    "C14": ("exploration", "runtime contract on PosePath3D.project with planar-input detector and 1-degree heading grids",
            "project() is called on generated planar and general trajectories for the three planes "
            "(every heading degree in (-180,180], gimbal-lock attitudes, in-plane positions with 3-D "
            "attitudes, tiny offsets); out-of-plane zero, in-plane bits, rotation about the normal, "
            "count/stamps, planar-pose idempotence and refusal of a second projection are evaluated; "
            "the xz heading fold is a listed known finding keyed by mechanism.",
            "heading = signed angle about the plane normal", "DESIGN.md §3 C14"),
    "C08": ("exploration", "class invariant + shadow trajectory in lock-step over operation histories with partial reads",
            "Bounded-exhaustive histories (depth 2 quick / 3 thorough over a 13-operation alphabet x "
            "read-after choice x construction mode) and random histories to length 15 on 1..200 poses "
            "are executed on the real objects while an independent model applies each operation's "
            "documented effect; partially read views after each step, all views, derived quantities "
            "and evo's check() at the end must agree.",
            "repeated propagating transforms are bounded to a cumulated rounding amplification of 1e5",
            "DESIGN.md §3 C08"),
    "C06": ("exploration", "bit-pattern comparison of writer input vs reader output on real round trips",
            "TUM, KITTI, result archives (with/without trajectories), DataFrame conversion and ROS1 "
            "bag export are exercised with values needing 17 digits, 1e-300..1e300, epoch "
            "nanosecond stamps, -0.0, subnormals, unicode info, via str/Path/handle; every value "
            "is compared as a uint64 bit pattern; bag header stamps are read with rosbags' own "
            "reader and compared exactly (rational arithmetic) with the 1 ns bound.",
            "rosbags decodes its own headers correctly", "DESIGN.md §3 C06"),
    "C07": ("exploration", "evo reader vs independent convention parser; evo writer bytes vs independent parser; malformed-file classifier",
            "Well-formed files are generated by an own writer (comments anywhere, BOM, CRLF, "
            "literal spellings) and evo's objects are compared slot by slot with an independent "
            "parse; evo's written bytes are parsed independently; every malformed class is placed "
            "at every row/column of small files for the three text formats and must raise "
            "FileInterfaceException; valid/invalid transforms in npy/txt/json.",
            "float() correctly rounded; out-of-class spellings not generated", "DESIGN.md §3 C07"),
    "C13": ("exploration", "runtime contract on merge_results vs own merge model; CSV of real evo_res runs vs stored statistics",
            "merge_results is called on 1..8 generated results (equal/unequal/mixed/empty lengths, "
            "differing keys, per-result key insertion order) with deep pre-snapshots; evo_res is "
            "run in-process on generated and real evo_ape archives and the CSV is parsed with an "
            "own reader and compared cell by cell with the archives read by an own zip reader.",
            "mixed-length case accepts per-array mean or global concatenation", "DESIGN.md §3 C13"),
    "C15": ("exploration", "exported files of real evo_traj runs vs documented-order shadow pipeline",
            "evo_traj runs in-process on generated file sets under random option combinations "
            "(thorough: plus every option subset up to size 3); every exported .tum/.kitti file, "
            "including the reference's, is parsed independently and compared with the shadow "
            "pipeline in the documented order; the inverse transformation is numpy's matrix inverse.",
            "threshold-ambiguous cases counted and skipped; projected headings adopted after C14 clauses",
            "DESIGN.md §3 C15"),
    "C16": ("exploration", "deep-snapshot argument-immutability monitor + derive/mutate/re-inspect independence histories",
            "34 public computing/writing/plotting functions are called on fresh arguments with "
            "bit-level snapshots before/after; the full matrix {10 derivations} x {13 mutators} x "
            "{2 directions} x {2 storage modes} x {caches materialised or not} is executed and the "
            "untouched side is compared with a twin built from the same arrays.",
            "lazily created caches may appear; existing fields must stay bit-identical", "DESIGN.md §3 C16"),
    "C17": ("exploration", "audit-event / prompt trace specification + before/after file digests over the output matrix",
            "Every output scenario (writer functions with str/Path targets; evo_ape/evo_rpe/evo_traj/"
            "evo_res output options incl. multi-file plot exports; evo_config generate -o) is first "
            "run in an empty directory to learn its outputs, then with chosen subsets of them "
            "pre-existing, each answer in {'y','n','','Y','yes',' y'} and warnings on/off; "
            "sys.addaudithook records open-for-write/rename/remove/truncate, the scripted input "
            "records prompts in the same event log; SHA-256 of every pre-existing file and the "
            "directory listing give ground truth. thorough enumerates the whole matrix.",
            "audit events are delivered for all Python-level file operations", "DESIGN.md §3 C17"),
    "C18": ("exploration", "settings-file histories vs shadow expectations; Namespace equivalence of generated configs from the real parsers' typed actions",
            "Random histories of set / toggle / reset / hard+soft merge / version upgrade (fresh "
            "process) run on the real settings file of a private HOME and are judged after every "
            "step on the stated invariants; SettingsContainer lock and -c priority are exercised; "
            "option lists drawn from the typed actions of the evo_ape/evo_rpe/evo_traj parsers are "
            "passed directly and through evo_config generate + -c and the Namespaces compared "
            "(value and int-ness).", "string options get non-numeric strings; nan/inf tokens not generated",
            "DESIGN.md §3 C18"),
    "C19": ("fault_enumeration", "kill at every Python call boundary of the settings code + torn writes + fresh start; racing starts with yield injection and polling watcher",
            "A real child process is killed with os._exit at every sys.monitoring CALL/C_RETURN "
            "event of evo/tools/settings.py and evo/main_config.py in seven scenarios (quick: all "
            "points of three scenarios, every third of the rest; thorough: all), plus 1-byte/half/"
            "all-but-one torn variants of every write(); the disk state is classified and a real "
            "fresh start must succeed with every default key. Racing rounds release 2..16 real "
            "processes (optionally one of them upgrading/editing/resetting) with seeded yields at "
            "the settings code's call boundaries while a watcher process polls the file.",
            "state-changing syscalls are bracketed by Python-level call boundaries; interleavings are "
            "sampled (distinct signatures counted), not enumerated", "DESIGN.md §3 C19"),
    "C20": ("exploration", "recorded matplotlib call data vs trajectory coordinates through an own mode table",
            "The Axes handed to evo's plot functions record every plot/scatter/add_collection/label "
            "call and the line-collection constructors; sequences of 3..7 plot calls on the same "
            "trajectory (7 modes x 4 units x stamped/unstamped x start times x markers) are "
            "compared bitwise with the generating arrays through a mode table derived from the "
            "mode's name; rpy is checked by reconstructing the rotation from the plotted angles.",
            "Agg backend; call arguments are what matplotlib receives", "DESIGN.md §3 C20"),
    "C09": ("exploration", "runtime law monitors on the real Lie helpers (seeded hostile generators)",
            "Every group law of the statement is evaluated by a monitor on the real helpers for "
            "thousands of generated rotations/poses/similarities per run incl. angles within 1e-16 "
            "of 0 and 1e-12 of pi, translations 1e-6..1e9, scales 1e-4..1e4 and near-miss matrices "
            "at controlled distance; held means: no law broken on the executions observed.",
            "numpy matmul/det; oracle algebra in vmon/refmodel.py (Rodrigues, atan2 angle); "
            "tolerance 1e-9 vs observed noise <= 5e-15", "DESIGN.md §3 C09"),
}
PENDING = {}
# workload dimensions added while closing the seeded-change rounds (DESIGN.md 9.3), appended to the level text
ADDED = {
    "C18": " Repeated options; 0 / 1 spellings of float-pair options. Rounds 12-16: -c settings used by a plotting run through the real entry point in a fresh interpreter (kind fresh_run); literal-looking and numeric-looking string values (known finding F14); stamp-less homes; parameters together with a merge file; obsolete keys; null values (kind null_values). Rounds 17-19: negative exponents, non-ASCII strings and non-finite float tokens (inf, infinity, 1e400) in generated configurations. Round 20: the -c configuration as a regular file, a symbolic link, the standard input or a named pipe.",
    "C09": " Argument arrays in C / Fortran order, transposed views, strided windows and read-only buffers; arrays returned earlier are poisoned before the next call. Rounds 12-16: concurrent use of the helpers from 4 threads; constructor arguments as longdouble / lists / tuples; vectors with components 25 orders of magnitude apart. Rounds 17-19: logarithms near pi about generic axes; cross-product identity judged relative to |v||w|. Round 21: blocks of determinant exactly 0 in the membership tests.",
    "C05": " Numpy-scalar spellings of max_diff / offset; display names with '%' and braces; self-association of one object; CLI runs with cropping plus offset. Rounds 12-16: objects built by evo's own readers (paths, handles, StringIO) and by the pandas bridge; metadata with reference cycles; concurrent associations in 4 threads. Rounds 17-19: merge together with synchronisation through evo_traj; bounds exactly on a pair's time difference. Round 21: boundary bounds on small stamps in every second command-line case.",
    "C01": " API sessions: one reference object associated and evaluated several times with different options (each evaluation judged against the generating arrays); CLI runs include plots with colour-map limits, zero-valued numeric options and near-identical estimates. Direct API evaluations on every container flavour (lists, integer containers, stacked / shared arrays, subclass instances); input files without a final line break and with '%' / brackets in their names; options moved into a -c configuration file. Rounds 12-16: crop bounds on reference stamps; sparse-reference / dense-estimate pairs; chained unit conversions; a reference object re-used for a second evaluation in another plane; TUM files stamped in integer nanoseconds; bounds a hair above / below a pair's time difference; concurrent APE evaluations in 4 threads compared with their serial outcomes. Rounds 17-19: motion-filter angle thresholds beyond a half turn; header comments in the inputs; sub-degree tilts before projection. Round 20: one-letter flags grouped into one token (-ap, -as, -va, ...); in-process runs go through evo's own launch(). Round 21: input file suffixes independent of the format; files of 2..5 decimals without a final line break; bursts of estimate stamps competing for one reference stamp; still / straight starts.",
    "C02": " Sizes beyond 1024 poses in the quick tier; the arguments reaching the pair selection are compared with the command line (incl. --delta_tol 0); only forward pairs are accepted. Exact-grid metre deltas; explicit all-pairs and unit selections forced through the command line. Rounds 12-16: refusals judged (a delta is refused only when the rule selects no pair); deltas between the raw and the scale-corrected path length; pair-end stamps reported by rpe() (kind pair_ends); concurrent RPE evaluations in 4 threads. Rounds 17-19: frame deltas above the number of poses; motion-filter angle thresholds beyond 180 degrees. Round 20: one-letter flags grouped into one token (-ap must stay -a -p); in-process runs go through evo's own launch(). Round 21: conversions to the angle unit the values already have; burst stamps; small-scale estimates.",
    "C03": " A third call site: main_ape.ape / main_rpe.rpe with alignment requested on generic, near-identical, identical and coincident pairs (the wrapped umeyama_alignment must be reached exactly once with the two position sets). evo_traj / evo_ape / evo_rpe runs with --n_to_align and scale-only correction; unequal-size inputs with an explicit n. Rounds 12-16: Umeyama under np.errstate(raise) / RuntimeWarnings as errors; exactly symmetric point sets; projected trajectories aligned afterwards (flip-optimal pairs), the value returned by align() judged on the 3-D positions; concurrent alignments in 4 threads. Rounds 17-19: umeyama_alignment called with its arguments by position or by keyword. Round 21: still / straight starts with --n_to_align 3..5 through evo_ape / evo_rpe.",
    "C04": " Whole-number data in integer containers and quaternions of file precision. Numpy-scalar spellings of n; evo_ape / evo_rpe / evo_traj runs for every alignment option combination. Rounds 12-16: alignment after a refused degenerate transformation; pairs with a common start point / common first attitude. Rounds 17-19: histories containing a refused transformation.",
    "C06": " Whole-number / zero-based stamps; paths that held other content earlier in the process. Several topics per bag; redundant constructor arguments (poses together with positions and orientations). Rounds 12-16: handles positioned after leading content; bag -> evo_traj --save_as_bag -> bag (kind bag_cli); file -> evo_traj -> file with informational options and negative zeros (kind text_cli); BOM-prefixed files; results loaded through load_results_as_dataframe incl. NaN statistics. Rounds 17-19: --sync in the bag command-line kind (frame id kept); KITTI translation columns against the given positions; decomposed (NFD) unicode in result annotations.",
    "C07": " Transformation files with scales 1e-6..1e6 and hand-written whole-number matrices. UTF-8 BOM and pathlib spellings; shears 1e-3..1 from either side; bottom rows that cancel; six whitespace layouts; write targets that are streams, new files, longer existing files or confirmed overwrites; archives. Rounds 12-16: evo_traj / evo_ape per file format through the command line (kind cli), KITTI files of different lengths, rows sharing a stamp, comment lines resembling encoding cookies, rotation-only transformation files, nanosecond stamps. Rounds 17-19: zero-translation and rounded-quaternion JSON transformations; malformed rows whose column counts cancel. Round 20: files whose every quaternion row carries only 4..8 decimals. Round 21: input files named @odom.txt / +run.txt / %job.txt / run=a,v2.txt, '@' files given by their bare name.",
    "C08": " The align operation is also judged by the Umeyama oracle at that call site; whole-number coordinates in integer containers; subclass instances. Identical consecutive poses (also sharing one array object); identically built twin objects compared bitwise after align / origin references; non-monotonic and repeated index lists. Rounds 12-16: negative scale factors; refused degenerate transformations; from-the-end indices; right-multiplied and propagated similarities (F15); the propagation flag on left transformations. Rounds 17-19: the propagation flag on translation-only transformations. Round 20: arrays in read-only memory.",
    "C10": " Re-used pose lists and re-used RPE objects after in-place edits; evo_rpe runs whose recorded pairs are judged against the command line's delta / tolerance (incl. 0); sizes beyond 1024 poses in the quick tier. Nano-radian rotations; boolean flags spelled as bool, numpy.bool_ or int; relative tolerances up to 2.5; increments queried in the other unit beforehand; unit switches between evaluations. Rounds 12-16: concurrent pair selection in 4 threads; 10^4-pose logs in map coordinates; sequences of near-half-turn steps. Rounds 17-19: abbreviated option spellings (kind abbrev); frame deltas above n; a stdout stand-in that reports a terminal (every fourth run). Round 21: frame deltas spelled int / float / numpy scalar; metre deltas between the raw and the scale-corrected path of a small-scale estimate.",
    "C11": " evo_ape runs with forced time cropping (together with time offsets) judged by the reference pipeline; integer timestamp arrays in merges. Column-vector stamps in splits; numpy-scalar N; evo_traj runs with filters and merge layouts; options placed before the sub-command. Rounds 12-16: high-rate sample grids (sub-nanosecond steps); partial pre-reads; negative stamps; crops of trajectories with shared stamps (kind crop_dup); Python int thresholds; in-place edits of the timestamp array between operations. Rounds 17-19: an only outlier at step 0 in splits.",
    "C12": " Sessions: main_rpe.rpe(support_loop=True) and main_ape.ape evaluated repeatedly on the same (already used) objects, every earlier result re-inspected at the end, distance arrays judged against the stored trajectories. Delta units and all-pairs modes in sessions; out-of-order first stamp; result objects judged for array shapes, statistics, timestamps, seconds-from-start and distances. Rounds 12-16: failed processing comparisons of the borrowed executors are reported; sessions on 1100-1600 poses in map coordinates. Rounds 17-19: mixed metric classes in one session with an archive round trip; zero-length relative motions. Round 20: stored values that are the definition's values in another order (value k must belong to pose k).",
    "C13": " Identical paths listed twice; statistics that are exactly 0.0 in every result. Names with brackets; transposed tables; results lacking one statistic; keys colliding with array names. Rounds 12-16: in-memory results with tuples / number keys / numpy scalars in their info; the real evo_res executable with options before / after / between the files and the table piped to /dev/stdout (kind exe_layout); real evo_rpe archives (all-pairs) as inputs. Rounds 17-19: several evo_res runs in one process (kind same_process); result files named like ROS remappings (run:=2.zip, __name:=res.zip). Round 20: mixed array lengths are read per merge (every array concatenated). Round 21: results holding one array object under two keys.",
    "C14": " Objects derived from one source (deep copies, synchronised copies, split parts) projected onto different planes; evo_traj runs with --project_to_plane combined with the other processing options. Principal-axis attitudes and null quaternions; projection reached through main_ape.ape / main_rpe.rpe. Rounds 12-16: objects sharing one metadata dictionary. Rounds 17-19: attitudes whose out-of-plane axis is already aligned (R[n,n] == 1) with non-zero out-of-plane coordinates.",
    "C15": " Output-only options (plots, relative time, tables, log files), zero-valued options, whole-number transformation files. Text layouts of transformation files; EuRoC layouts; dotted file names; inputs relocated per run (relative --ref); windowed dense trajectories with sparse references; out-of-order lines; stale exports of an earlier run; options moved into a -c configuration file. Rounds 12-16: the reference also listed among the inputs (five spellings); KITTI inputs of different lengths; rotation-only transformation files; Sim(3) files for right / propagated multiplication; mirrored consecutive quaternions; an input differing from the reference only in letter case. Rounds 17-19: transformation files with an exactly-identity rotation block for left and right multiplication; the real executable with stdout closed; motion-filter angles beyond 180 degrees. Round 21: the real executable with a standard output nobody reads; odd leading characters in file names.",
    "C16": " Colour-map limits inside the value range; results with nested user annotations (NaN/Inf/None); merge partners in the same storage state. Stacked arrays handed to the filters; result_to_df labels; non-monotonic data-frame indices. Rounds 12-16: every transformation variant with a Sim(3) matrix; Result.add_info / add_stats; objects from the pandas bridge (column-major arrays) and big-endian arrays; save_df_as_table in both orientations. Rounds 17-19: one-pose split sources; identity poses with change_unit; all-pairs point-distance relations on slice views. Round 20: NaN / inf position rows in the trajectories handed to the metrics. Round 21: the container handed to plot.trajectories (dict / list / tuple, also with an empty trajectory) is an argument too.",
    "C17": " Existing targets as files with content, empty files or symbolic links; targets re-spelled (./x, absolute, sub/../x, ~/x) with the home directory watched like the working directory; every cell followed by a second save in the same process. Targets given through environment variables or without extension; one path named for two outputs; end-of-file as the answer to a prompt. Rounds 12-16: Ctrl+C and unreadable answers at the prompt; --plot together with saving, upper-case extensions; names ending in a blank; read-only targets when run as root. Rounds 17-19: refused inputs (kind refused_input: nothing may be written); the real executables with answers typed at a pseudo-terminal (yes / 'y ' / Y / empty). Round 20: in-process runs go through evo's own launch(); several existing targets in one command, each question answered by the file it is about (kind mixed).",
    "C19": " Crash points at every file-system primitive called from library helpers; settings.json / ~/.evo as symbolic links; the settings file named by relative spellings from other directories. Outdated settings files upgraded while being written; writers held between temporary file and rename; time-zone and locale variants. Rounds 12-16: homes stamped by twelve other releases, obsolete keys; every upgrade scenario also run to completion (kind nocrash). Rounds 17-19: races with millisecond jitter after a crash; backend changes racing an upgrade (scenario set_backend); soft merges that must keep keys of the first dictionary. Round 20: desktop-session environments (DISPLAY set) for every second child. Round 21: the start after an upgrade running in tab-completion mode (_ARGCOMPLETE).",
    "C20": " A decoy current figure; plot.trajectories with several panels on one figure. Optional arguments passed positionally; corpora of 2..6 poses; gimbal-lock attitudes judged by recomposition. Rounds 12-16: long-way geometries for the speed plot; negative stamps; tick labels in the axis' own unit incl. a figure prepared earlier for another unit; attitudes next to gimbal lock with an angle-level oracle. Rounds 17-19: non-unit quaternions; evo_traj speed / attitude plots against relative time through the command line (kind cli_time); almost constant attitudes (micro-radian wobble).",
}


def main():
    props = [json.loads(l) for l in (VERIF / "properties.jsonl").read_text().splitlines() if l.strip()]
    checks = []
    na = []
    for p in props:
        pid = p["id"]
        if pid in CHECKS and (VERIF / "vmon" / "props" / (pid + ".py")).exists():
            cat, tech, text, note, ref = CHECKS[pid]
            checks.append({
                "property_id": pid,
                "quick_cmd": "./check %s quick" % pid,
                "thorough_cmd": "./check %s thorough" % pid,
                "evidence_file": "/verif/evidence/%s.json" % pid,
                "replay_cmd_template": "./check %s --replay {path}" % pid,
                "engine": "vmon",
                "level_claimed": {"category": cat, "text": text + ADDED.get(pid, ""), "design_ref": ref},
                "level_note": note,
                "technique": tech,
            })
        else:
            na.append({"property_id": pid,
                       "reason": PENDING.get(pid, "runtime monitor designed (DESIGN.md §3) but its "
                                             "check is not built yet; not claimed until it is")})
    man = {
        "version": 1,
        "setup_cmd": "cd /verif && /venv/bin/python -m vmon.selftest",
        "hooks": {
            "guard": "EVO_VERIF",
            "enable": "no source hooks are needed: all monitors wrap evo's functions/classes from "
                      "outside (module attributes, sys.addaudithook, sys.monitoring); evo is "
                      "imported from /repo's working tree (editable install), nothing is built",
            "baseline_off_cmd": BASELINE_OFF,
            "source_commits": [],
            "add_only": True,
        },
        "engines": [{
            "name": "vmon", "path": "/verif/vmon",
            "serves_properties": [c["property_id"] for c in checks],
            "kind_free_text": "runtime monitoring: contracts / invariants / shadow models / trace "
                              "checkers on the real evo code under seeded hostile workloads, "
                              "sharded over processes; ./check <ID> <tier>",
        }],
        "checks": checks,
        "not_applicable": na,
        "notes": "Exit 0 = held on the executions observed, 1 = VIOLATION line printed, 2 = "
                 "INCONCLUSIVE (a deciding monitor was never reached / watchdog); see DESIGN.md.",
    }
    (VERIF / "MANIFEST.json").write_text(json.dumps(man, indent=1) + "\n")
    print("MANIFEST.json: %d checks, %d not_applicable" % (len(checks), len(na)))


if __name__ == "__main__":
    main()
