#!/bin/bash
# tools/takeseed.sh <ID> <suffix> <srcdir>  - copy a sub-agent's deliverables into seeded/<ID>-<suffix> and test it
V=$(cd "$(dirname "$0")/.." && pwd)
ID=$1; SFX=$2; SRC=$3
D=$V/seeded/$ID-$SFX; mkdir -p $D
cp $SRC/patch.diff $SRC/demo.py $SRC/notes.md $D/ 2>/dev/null
[ -f $SRC/base.diff ] && cp $SRC/base.diff $D/
cd $V && python3 tools/seedall.py $ID-$SFX
