#!/bin/bash
# tools/sweep.sh <tier> <seed...> -- runs every claimed check for the given seeds; prints the wall time of
# each run and the details of every run that did not hold (evidence files are not touched)
cd "$(dirname "$0")/.."
TIER=$1; shift
for s in "$@"; do
  for id in $(jq -r '.checks[].property_id' MANIFEST.json) ${EXTRA_IDS:-}; do
    t0=$(date +%s)
    out=$(VERIF_NOEVIDENCE=1 VERIF_SEED=$s ./check $id $TIER 2>&1); rc=$?
    t1=$(date +%s)
    echo "seed=$s $id rc=$rc $((t1-t0))s"
    if [ $rc -ne 0 ]; then echo "$out" | grep -v "^VIOLATION" | cut -c1-400 | head -6; fi
  done
  echo "seed $s done"
done
