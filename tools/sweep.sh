#!/bin/bash
# tools/sweep.sh <tier> <seed...> -- runs every claimed check for the given seeds; prints only non-held lines
cd "$(dirname "$0")/.."
TIER=$1; shift
for s in "$@"; do
  for id in $(jq -r '.checks[].property_id' MANIFEST.json) ${EXTRA_IDS:-}; do
    out=$(VERIF_NOEVIDENCE=1 VERIF_SEED=$s ./check $id $TIER 2>&1); rc=$?
    if [ $rc -ne 0 ]; then echo "seed=$s $id rc=$rc"; echo "$out" | grep -v "^VIOLATION" | cut -c1-400 | head -6; fi
  done
  echo "seed $s done"
done
