#!/usr/bin/env python3
"""
tools/mkseedround.py <scratch-dir>   e.g. tools/mkseedround.py /tmp/seed5
Creates one scratch git worktree of /repo per property under <scratch-dir>/Cxx (+ Cxx.out/home)
and the self-contained task description <scratch-dir>/Cxx.prompt for an independent sub-agent.
The description contains only the property's text and the names of the functions that earlier
seeded changes touched (so that a new change picks another site) - nothing else from /verif.
"""
import glob, json, os, re, subprocess, sys
from pathlib import Path
V = Path(__file__).resolve().parent.parent
root = sys.argv[1]
os.makedirs(root, exist_ok=True)


def sites(pid):
    out = set()
    for f in sorted(glob.glob(str(V / "seeded" / (pid + "-*") / "patch.diff"))):
        cur = None
        for line in open(f):
            if line.startswith("+++ b/"):
                cur = line[6:].strip()
            m = re.match(r"@@ .* @@ (?:def|class) (\w+)", line) or re.match(r"@@ .* @@\s+def (\w+)", line)
            if m and cur:
                out.add("%s:%s" % (cur, m.group(1)))
    return sorted(out)


for l in open(V / "properties.jsonl"):
    p = json.loads(l)
    pid = p["id"]
    wt, out = "%s/%s" % (root, pid), "%s/%s.out" % (root, pid)
    subprocess.run(["git", "-C", "/repo", "worktree", "add", "-q", "--detach", wt, "HEAD"], check=True)
    os.makedirs(out + "/home", exist_ok=True)
    av = "; ".join(sites(pid)) or "none"
    txt = f"""You are helping to test a verification framework for the open-source Python package evo (MichaelGrupp/evo: evaluation of odometry/SLAM trajectories). Your job: write ONE realistic, subtle code change ("seeded defect") to evo that BREAKS the property below, while the package still imports and the existing test-suite still passes. You work ONLY inside your own scratch git worktree: {wt}  (a checkout of the repository). Do NOT touch /repo or /verif, do not read anything under /verif or other /tmp/seed* directories.

PROPERTY {pid}: {p['title']}
Statement: {p['statement']}
Quantified over: {p['quantifier']['text']}

Requirements for the change
1. It must break the property as stated above, but ONLY under a condition that is hard to hit. Prefer, in this order: (a) TWO cooperating code sites that each look fine alone (one site starts returning a view / another dtype / another default / a cached value and a second site relies on the old behaviour); (b) a multi-step sequence of operations or a particular cache/storage state of an object (which representation was read before, how the object was constructed, which operation was applied earlier, whether the same object or the same process was used before); (c) a particular option combination of a command line tool that is legal but rare; (d) an exactly-hit boundary value or an unusual but valid input (dtype, container type, one-element input, duplicate values, extreme magnitude, special characters, file-system layout, locale/environment); (e) a crash at a particular point or a particular interleaving of processes. It must NOT be something ordinary use would expose at once. Be creative: think about what a thorough randomized tester would most likely NOT try. Model it on what really happens in pull requests to such a project: numpy/scipy/pandas/matplotlib API migrations, vectorisation of loops, caching, type-hint driven refactors, pathlib/argparse/logging clean-ups, de-duplication of helper code, changed defaults.
2. It must look like a plausible maintainer mistake / refactoring / "optimisation" (small diff, typically 2-20 changed lines, in the evo/ package only; do not edit tests).
3. Earlier seeded changes already touched these functions: {av}. Choose DIFFERENT code sites and a different mechanism and a different clause of the property than those (you may touch other functions of the same files). Earlier rounds (for this and the other properties) already used these kinds of trigger, so pick ANOTHER kind: dtype propagation from integer/float32 inputs; shallow copies combined with the in-place projection; caches keyed by object identity, path or list identity; in-place edits by plotting helpers and output-only plot options; logging level; symbolic links and empty files; subclass instances; inputs larger than a block size; unsigned timestamps; re-used metric objects; duplicate file arguments; non-finite values in nested containers; number spellings like ".5"; tolerant equality (allclose) at large magnitudes; quaternions of file precision; whole-number timestamps; extreme scales (1e-6, 1e6); numeric options given as exactly 0 ("falsy zero"); one-shot iterators shared between command line processing steps; cached derived quantities (distances); statistics that are exactly 0.0; output paths spelled with "~", "./", ".." or relative to another directory; repeated calls on the same matplotlib Figure; options read from a -c config file instead of flags; state carried over between several trajectories of one command; re-used StringIO buffers; Fortran-ordered / transposed arrays; truthy non-bool flags; file names that are glob patterns; repeated command line options; time zone / locale of the process; exact half turns and np.sign(0); mutable default arguments; numpy scalars where Python ints are expected; whitespace layouts of text files; files without the usual header line; relative tolerances above 1; n x 1 column arrays; trajectories that compare equal; explicitly passed optional arguments; output names without extension; a reset directly after a package upgrade; consecutive duplicate poses; positions aliasing a stacked pose array; path lengths hitting delta exactly; bags with several topics; pathlib.Path arguments; shared module-level constants returned to callers; nano-radian steps; equal file names in different directories; non-default package settings; attitudes about a principal axis; file names with several dots; two outputs sharing one target; values 0/1 compared with True/False; positionally passed optional arguments; the same array object several times in a pose list; a trajectory associated with itself; small skews / cancelling entries in validity tests; first stamp not the smallest; a statistic named like an array; all-zero quaternions; input lines out of chronological order; DataFrames with a non-monotonic index; "$NAME" in file names; three-process interleavings; trajectories of exactly 3 or 4 poses; planar positions with 3-D attitudes; files without a final line break; "%" in names; redundant constructor arguments; re-opening without truncation; re-ordered / repeated index lists; exactly tied matrix entries; a cache key that omits a flag; options in front of the sub-command; single-value results; stale output files of an earlier run; end-of-file at a prompt; gimbal lock; bounds equal to a stamp; mirror-image data; refused calls that leave partial state (exception safety); file handles not at offset 0; sub-command specific readers; negative scale factors; thread interleavings on module-level scratch buffers; sample rates with sub-nanosecond steps; dict insertion order; flags cleared by another operation; "./" spellings of the reference among the inputs; copy-on-write sharing; Ctrl+C at a prompt; import order / import-time side effects; an unlink by another process; long accumulated path lengths; one input shorter than an option value and the other longer; numpy error state / warnings as errors; objects built by the file readers (incl. from open file handles); legacy ROS names with a leading slash; KITTI files of different lengths; negative (from-the-end) indices; longdouble arguments; more than 10^4 poses; which representation was read before; tuples / non-string keys / numpy scalars in info dictionaries; a metadata dictionary shared by several objects; transformation files without translation; adopting the caller's dictionary; upper-case file extensions; --plot together with saving; option values spelling "true"/"false"/"None"; lexicographic version comparison; negative timestamps; chained unit conversions; exactly symmetric point sets; a common start position; reference cycles in metadata; -0.0 in the first / last pose with informational options; rows sharing a timestamp; right-multiplied Sim(3); components 12+ orders of magnitude apart; steps that are almost half turns; a crop bound on a duplicated stamp; options between positional file arguments; tuple / stacked pose containers; column-major arrays from the pandas bridge; names ending in a blank; a settings file without version stamp; several open figures with different units.
4. The existing test-suite must still pass exactly as before. Run it from the worktree so that the worktree's evo is imported:
   cd {wt} && PYTHONPATH={wt} /venv/bin/python -m pytest -q -p no:cacheprovider --timeout=900 --continue-on-collection-errors
   Expected BEFORE and AFTER your change: "1 failed, 82 passed, 3 errors" (the 1 failure is TestBagFile::test_write_read_integrity and the 3 errors are the *_smoke_test.py collection errors; these fail on the pristine tree too). All 82 passing tests must still pass.
5. Write a demonstration {out}/demo.py: a small standalone Python program that uses the evo API (or runs an evo command line tool in-process/sub-process) and exits 0 when the property holds and non-zero (printing what went wrong) when it is violated. It must FAIL with your change applied and PASS on the pristine tree. Run it as:  cd {out} && MPLBACKEND=Agg PYTHONPATH={wt} HOME={out}/home /venv/bin/python demo.py   (that private HOME exists already; evo writes ~/.evo/settings.json on import). The demo must check the property itself (an oracle written from the statement), not compare against pristine evo output.
6. Verify both directions WITHOUT git stash (NEVER use `git stash`, it is shared between worktrees): `git -C {wt} diff > {out}/patch.diff; git -C {wt} apply -R {out}/patch.diff` (pristine: run demo + tests), then `git -C {wt} apply {out}/patch.diff` (changed: run demo + tests).

Deliverables (all under {out}/): patch.diff (git diff relative to the worktree HEAD, must apply with `git apply`), demo.py, notes.md (5-15 lines: what the change is, why it breaks the property, the specific condition needed, and the exact commands/outputs you ran). Leave the worktree with the change applied. Python: /venv/bin/python (3.12; numpy/scipy/pandas/matplotlib installed). No network. Be efficient: read the relevant evo source first, pick a subtle spot, implement, verify, write deliverables. In your final answer give a 5-line summary of the change and the verification results.
"""
    if pid == "C14":
        txt += "\nNote: the tree is known to fold planar headings beyond +-90 degrees for the xz plane (a recorded finding); your demo must pass on the pristine tree, so restrict the planar-pose-unchanged clause for xz to |heading| <= 90 degrees.\n"
    if pid == "C19":
        txt += "\nHints: the demo may need to kill a child process at a chosen point (e.g. a child that monkeypatches os.replace / json.dumps / a file's write to call os._exit at the N-th call) or to run several processes concurrently and repeat until a race shows; keep its total run time under two minutes.\n"
    open("%s/%s.prompt" % (root, pid), "w").write(txt)
print("prepared", root)
