#!/usr/bin/env python3
"""validate MANIFEST.json and evidence/*.json against the harness schemas (run with python3-vt)"""
import json, sys
from pathlib import Path
import jsonschema
V = Path(__file__).resolve().parent.parent
S = Path("/root/.vp")
ok = True
def val(doc, schema, name):
    global ok
    try:
        jsonschema.validate(json.loads(Path(doc).read_text()), json.loads((S / schema).read_text()))
        print("ok   ", name)
    except Exception as e:
        ok = False
        print("FAIL ", name, str(e)[:300])
val(V / "MANIFEST.json", "MANIFEST.schema.json", "MANIFEST.json")
for f in sorted((V / "evidence").glob("*.json")):
    val(f, "EVIDENCE.schema.json", f.name)
for i, l in enumerate((V / "properties.jsonl").read_text().splitlines()):
    if l.strip():
        jsonschema.validate(json.loads(l), json.loads((S / "PROPERTIES.schema.json").read_text()))
sys.exit(0 if ok else 1)
