"""
vmon.gen - workload generators (rotations, trajectories, timestamps) and builders of evo
objects in both storage modes.
"""
import math

import numpy as np

from vmon import refmodel as rm

PI = math.pi
HOSTILE_ANGLES = [0.0, 1e-16, 1e-14, 1e-12, 1e-10, 1e-8, 1e-6, 1e-3,
                  PI - 1e-3, PI - 1e-6, PI - 1e-8, PI - 1e-10, PI - 1e-12, PI]


def unit(v):
    v = np.asarray(v, dtype=float)
    return v / np.linalg.norm(v)


def rand_axis(rng):
    while True:
        v = rng.normal(size=3)
        n = np.linalg.norm(v)
        if n > 1e-3:
            return v / n


def rand_rot(rng):
    """uniform on SO(3) via a normalised Gaussian quaternion"""
    q = rng.normal(size=4)
    return rm.rot_from_quat_wxyz(q)


AXES = [np.array(a, dtype=float) for a in
        ([1, 0, 0], [0, 1, 0], [0, 0, 1], [-1, 0, 0], [0, -1, 0], [0, 0, -1])]


def rot_of_class(rng, cls):
    """returns R for a rotation class name"""
    if cls == "uniform":
        return rand_rot(rng)
    if cls == "identity":
        return np.eye(3)
    if cls == "axis_aligned":
        return rm.rodrigues(AXES[rng.integers(6)], rng.uniform(-PI, PI))
    if cls == "quarter_turns":
        return rm.rodrigues(AXES[rng.integers(3)], (PI / 2) * rng.integers(0, 4))
    if cls == "small":
        return rm.rodrigues(rand_axis(rng), 10.0**rng.uniform(-16, -3))
    if cls == "near_pi":
        return rm.rodrigues(rand_axis(rng), PI - 10.0**rng.uniform(-12, -3))
    if cls == "pi":
        return rm.rodrigues(rand_axis(rng), PI)
    if cls == "diagonal_axis":
        # axes with exactly tied components (face and body diagonals of the cube): the rotation
        # matrix has exactly equal diagonal entries; any angle, half of them beyond 120 degrees
        a = np.array([[1, 1, 0], [1, -1, 0], [1, 0, 1], [1, 0, -1], [0, 1, 1], [0, 1, -1], [1, 1, 1], [1, -1, 1],
                      [-1, 1, 1], [1, 1, -1]][rng.integers(10)], dtype=float)
        th = rng.uniform(2 * PI / 3, PI) if rng.random() < .5 else rng.uniform(0, PI)
        return rm.rodrigues(a / np.linalg.norm(a), th)
    raise KeyError(cls)


ROT_CLASSES = ["uniform", "identity", "axis_aligned", "quarter_turns", "small", "near_pi", "pi", "diagonal_axis"]


def stamps_of_class(rng, n, cls):
    if cls == "index":
        return np.arange(n, dtype=float)
    if cls == "epoch":
        t0 = 1.5e9 + rng.uniform(0, 1e8)
        dt = rng.uniform(0.005, 0.2, size=n)
        return t0 + np.concatenate([[0.0], np.cumsum(dt[1:])])
    if cls == "small":
        dt = rng.uniform(0.01, 1.0, size=n)
        return rng.uniform(0, 100) + np.concatenate([[0.0], np.cumsum(dt[1:])])
    if cls == "dyadic":
        steps = rng.integers(1, 64, size=n) / 64.0
        return float(rng.integers(0, 1000)) + np.concatenate([[0.0], np.cumsum(steps[1:])])
    if cls == "irregular":
        dt = np.where(rng.random(n) < 0.1, rng.uniform(5, 50, size=n), rng.uniform(0.01, 0.1, size=n))
        return 1.0e6 + np.concatenate([[0.0], np.cumsum(dt[1:])])
    raise KeyError(cls)


STAMP_CLASSES = ["index", "epoch", "small", "dyadic", "irregular"]


def positions_of_class(rng, n, cls):
    """returns (n,3) positions"""
    if cls == "walk":
        scale = 10.0**rng.uniform(-3, 3)
        return np.cumsum(rng.normal(size=(n, 3)) * scale, axis=0)
    if cls == "utm":
        off = np.array([4.0e5 + rng.uniform(0, 1e5), 5.5e6 + rng.uniform(0, 1e5), rng.uniform(0, 500)])
        return off + np.cumsum(rng.normal(size=(n, 3)) * rng.uniform(0.05, 2.0), axis=0)
    if cls == "tiny":
        return np.cumsum(rng.normal(size=(n, 3)) * 1e-3, axis=0)
    if cls == "huge":
        return rng.uniform(-1e6, 1e6, size=(n, 3))
    if cls == "grid":
        steps = rng.integers(0, 4, size=(n, 1)) * np.eye(3)[rng.integers(0, 3, size=n)]
        return np.cumsum(steps, axis=0).astype(float)
    if cls == "intwalk":
        # whole-number coordinates with diagonal steps (non-integer step lengths)
        return np.cumsum(rng.integers(-3, 4, size=(n, 3)), axis=0).astype(float)
    if cls == "stationary_mix":
        steps = rng.normal(size=(n, 3)) * (rng.random((n, 1)) < 0.5)
        return np.cumsum(steps, axis=0)
    if cls == "circle":
        r = 10.0**rng.uniform(-1, 2)
        a = np.linspace(0, rng.uniform(1, 12), n)
        return np.stack([r * np.cos(a), r * np.sin(a), 0.1 * a], axis=1)
    raise KeyError(cls)


POS_CLASSES = ["walk", "utm", "tiny", "huge", "grid", "stationary_mix", "circle", "intwalk"]


def rotations_of_class(rng, n, cls):
    if cls == "uniform":
        return np.array([rand_rot(rng) for _ in range(n)])
    if cls == "identity":
        return np.array([np.eye(3)] * n)
    if cls == "smooth":
        R = rand_rot(rng)
        out = []
        for _ in range(n):
            R = R @ rm.rodrigues(rand_axis(rng), rng.uniform(0, 0.2))
            out.append(R)
        return np.array(out)
    if cls == "yaw_grid":
        k = np.cumsum(rng.integers(0, 3, size=n))
        return np.array([rm.rodrigues([0, 0, 1], kk * PI / 8) for kk in k])
    if cls == "mixed":
        return np.array([rot_of_class(rng, ROT_CLASSES[rng.integers(len(ROT_CLASSES))])
                         for _ in range(n)])
    if cls == "quarter_grid":
        # products of quarter turns about the coordinate axes: entries exactly 0 / +-1
        Q = [np.array(m, dtype=float) for m in ([[1, 0, 0], [0, 0, -1], [0, 1, 0]], [[0, 0, 1], [0, 1, 0], [-1, 0, 0]],
                                                 [[0, -1, 0], [1, 0, 0], [0, 0, 1]])]
        out, R = [], np.eye(3)
        for _ in range(n):
            for _k in range(int(rng.integers(0, 3))):
                R = np.rint(R @ Q[rng.integers(3)])
            out.append(R.copy())
        return np.array(out)
    raise KeyError(cls)


ROTSEQ_CLASSES = ["uniform", "identity", "smooth", "yaw_grid", "mixed", "quarter_grid"]


def traj_arrays(rng, n, pos_cls=None, rot_cls=None, stamp_cls=None):
    if pos_cls is None and rot_cls is None and stamp_cls is None and rng.random() < .05:
        # "toy" data: whole-number coordinates, axis-aligned attitudes, index stamps
        pos_cls, rot_cls, stamp_cls = ["intwalk", "grid"][rng.integers(2)], "quarter_grid", "index"
    pos_cls = pos_cls or POS_CLASSES[rng.integers(len(POS_CLASSES))]
    rot_cls = rot_cls or ROTSEQ_CLASSES[rng.integers(len(ROTSEQ_CLASSES))]
    stamp_cls = stamp_cls or STAMP_CLASSES[rng.integers(len(STAMP_CLASSES))]
    out = {
        "p": positions_of_class(rng, n, pos_cls),
        "R": rotations_of_class(rng, n, rot_cls),
        "t": stamps_of_class(rng, n, stamp_cls),
        "cls": (pos_cls, rot_cls, stamp_cls),
    }
    if n >= 3 and rng.random() < .08:
        hold(rng, out)
    return out


def hold(rng, arr, p=.35):
    """a platform standing still: stretches in which consecutive poses are identical (in place)"""
    for k in range(1, len(arr["p"])):
        if rng.random() < p:
            arr["p"][k] = arr["p"][k - 1]
            arr["R"][k] = arr["R"][k - 1]
    if "cls" in arr:
        arr["cls"] = (arr["cls"][0] + "+held", ) + tuple(arr["cls"][1:])
    return arr


def perturbed_estimate(rng, ref, hostile=True):
    """an estimate for a reference: noisy positions, est = ref * exp(axis*theta) with hostile theta"""
    n = len(ref["p"])
    ext = float(np.max(np.abs(ref["p"] - ref["p"].mean(axis=0)))) + 1e-3
    noise = 10.0**rng.uniform(-6, 0) * ext
    p = ref["p"] + rng.normal(size=(n, 3)) * noise
    R = []
    for k in range(n):
        if hostile and rng.random() < 0.5:
            th = HOSTILE_ANGLES[rng.integers(len(HOSTILE_ANGLES))]
        else:
            th = rng.uniform(0, PI)
        R.append(ref["R"][k] @ rm.rodrigues(rand_axis(rng), th))
    return {"p": p, "R": np.array(R), "t": ref["t"].copy(), "cls": ref["cls"]}


def quats_of(Rs):
    return np.array([rm.quat_wxyz_from_rot(R) for R in Rs])


def make_evo(arr, mode="se3", stamped=True, meta=None, flavour="array64"):
    """
    Build a fresh evo object from arrays.  mode 'se3': from 4x4 matrices; 'xyzq': from
    positions + quaternions.  All arrays are copies, so the evo object owns its data.
    """
    from evo.core import trajectory as _tr
    PosePath3D, PoseTrajectory3D = _tr.PosePath3D, _tr.PoseTrajectory3D
    if "+sub" in flavour:
        # instances of subclasses: evo's own compatibility class or a user-defined one
        if stamped and len(arr["p"]) % 2 == 0:
            PoseTrajectory3D = _tr.Trajectory
        else:
            PoseTrajectory3D = type("UserTrajectory", (_tr.PoseTrajectory3D, ), {})
            PosePath3D = type("UserPath", (_tr.PosePath3D, ), {})
    flavour = flavour.split("+")[0]
    if flavour == "dataframe" and mode == "xyzq":
        # the object as it comes back from evo's pandas bridge (DataFrame round trip of the same
        # numbers): its arrays are column slices of a frame (column-major memory)
        from evo.tools import pandas_bridge as _pb
        base = make_evo(arr, mode, stamped, meta=meta, flavour="array64")
        obj = _pb.df_to_trajectory(_pb.trajectory_to_df(base))
        if type(obj) is type(base) and obj.num_poses == base.num_poses:
            if meta is not None:
                obj.meta.update(meta)
            return obj
        return base
    if flavour == "loaded":
        obj = _loaded(arr, mode, stamped)
        if obj is not None:
            if meta is not None:
                obj.meta.update(meta)  # (whatever the reader recorded stays)
            return obj
    if mode == "se3":
        poses = [rm.se3(R, p) for R, p in zip(arr["R"], arr["p"])]
        if flavour == "intmat" and all_integer(arr["p"]) and all_integer(arr["R"]):
            poses = [np.rint(P).astype(np.int64) for P in poses]  # integer-dtype pose matrices
        if flavour == "shared":
            # identical consecutive poses are the same array object (poses.append(poses[-1]) / [pose] * k)
            for k in range(1, len(poses)):
                if poses[k].tobytes() == poses[k - 1].tobytes():  # (bitwise: -0.0 is not 0.0)
                    poses[k] = poses[k - 1]
        if flavour == "stacked":
            poses = np.stack(poses)  # one N x 4 x 4 array instead of a list of matrices
        if flavour == "readonly":
            # matrices in read-only memory (numpy.load(mmap_mode="r"), frombuffer, broadcast_to)
            for P in poses:
                P.setflags(write=False)
        if stamped:
            ts = np.array(arr["t"], dtype=float)
            return PoseTrajectory3D(poses_se3=poses, timestamps=ts.tolist() if flavour == "lists" else ts,
                                    meta=meta)
        return PosePath3D(poses_se3=poses, meta=meta)
    q = np.array(arr["q"], dtype=float) if "q" in arr else quats_of(arr["R"])
    p = np.array(arr["p"], dtype=float)
    t = np.array(arr["t"], dtype=float) if stamped else None
    if flavour == "lists":
        # the constructor documents "nx3 list" / "nx4 list" / "nx1 list": plain Python lists
        p, q = p.tolist(), q.tolist()
        t = t.tolist() if t is not None else None
    elif flavour == "int" and all_integer(p):
        # whole-number positions given as Python ints or as an integer ndarray
        p = p.astype(np.int64).tolist() if len(p) % 2 else p.astype(np.int64)
    elif flavour == "readonly":
        for a in (p, q, t):
            if a is not None:
                a.setflags(write=False)
    if stamped:
        return PoseTrajectory3D(positions_xyz=p, orientations_quat_wxyz=q, timestamps=t, meta=meta)
    return PosePath3D(positions_xyz=p, orientations_quat_wxyz=q, meta=meta)


_LOADED_SEQ = [0]


def _loaded(arr, mode, stamped):
    """
    The object as evo's own readers build it from a file holding exactly these numbers (17
    significant digits): TUM for stamped position + quaternion storage, KITTI for unstamped matrix
    storage; read from a path, a pathlib.Path, an open file handle or a StringIO.  None when the
    combination has no file format.
    """
    import io
    import os
    import tempfile
    from pathlib import Path
    from evo.tools import file_interface as fi
    if len(arr["p"]) == 0:
        return None
    if mode == "xyzq" and stamped:
        q = np.array(arr["q"], dtype=float) if "q" in arr else quats_of(arr["R"])
        text, reader = rm.write_tum_text(np.array(arr["t"], dtype=float), np.array(arr["p"], dtype=float), q), \
            fi.read_tum_trajectory_file
    elif mode == "se3" and not stamped:
        text, reader = rm.write_kitti_text(np.array(arr["p"], dtype=float), np.array(arr["R"], dtype=float)), \
            fi.read_kitti_poses_file
    else:
        return None
    _LOADED_SEQ[0] += 1
    how = _LOADED_SEQ[0] % 4
    if how == 3:
        return reader(io.StringIO(text))
    fd, path = tempfile.mkstemp(suffix=".txt", dir=os.environ.get("VMON_WORK") or None)
    try:
        with os.fdopen(fd, "w") as fh:
            fh.write(text)
        if how == 0:
            return reader(path)
        if how == 1:
            return reader(Path(path))
        with open(path) as fh:
            return reader(fh)
    finally:
        os.remove(path)


def all_integer(a):
    a = np.asarray(a, dtype=float)
    if np.any(np.signbit(a) & (a == 0)):
        return False  # an integer container cannot hold -0.0: the object would not describe `a` bit for bit
    return bool(np.all(a == np.round(a))) and (a.size == 0 or float(np.max(np.abs(a))) < 2**50)


def rand_flavour(rng):
    u = rng.random()
    base = "lists" if u < .15 else "int" if u < .3 else "stacked" if u < .45 else "shared" if u < .6 else \
        "loaded" if u < .7 else "dataframe" if u < .76 else "array64"
    return base + ("+sub" if rng.random() < .1 else "")


def read_views(traj):
    """read all representations of an evo object -> dict of arrays (copies)"""
    out = {
        "p": np.array(traj.positions_xyz, dtype=float).copy(),
        "q": np.array(traj.orientations_quat_wxyz, dtype=float).copy(),
        "T": np.array([np.array(P, dtype=float) for P in traj.poses_se3]),
    }
    if hasattr(traj, "timestamps"):
        out["t"] = np.array(traj.timestamps, dtype=float).copy()
    return out


def file_precision(arr, decimals):
    """
    The same trajectory as it comes out of a text file with `decimals` digits: quaternions that
    are unit only to that precision (arr["q"], used by make_evo in xyzq mode) - the poses they
    describe are those of the normalised quaternions (arr["R"] is recomputed accordingly).
    """
    q = np.round(quats_of(arr["R"]), decimals)
    q[np.linalg.norm(q, axis=1) == 0] = [1.0, 0.0, 0.0, 0.0]
    out = dict(arr)
    out["q"] = q
    out["R"] = np.array([rm.rot_from_quat_wxyz(qk) for qk in q])
    return out


def save_matrix_text(rng, path, M):
    """a numeric matrix as a whitespace-separated text file, in one of the layouts people write:
    numpy's default, column-aligned, tab / double-space separated, CRLF, trailing empty line.
    All layouts carry the same float64 values (18 significant digits). Returns the layout name."""
    layouts = ["default", "aligned", "tabs", "double space", "crlf", "blank last line"]
    lay = layouts[rng.integers(len(layouts))]
    M = np.asarray(M, dtype=float)
    if lay == "default":
        np.savetxt(path, M)
    elif lay == "aligned":
        np.savetxt(path, M, fmt="%26.18e")
    elif lay == "tabs":
        np.savetxt(path, M, delimiter="\t")
    elif lay == "double space":
        np.savetxt(path, M, delimiter="  ")
    elif lay == "crlf":
        np.savetxt(path, M, newline="\r\n")
    else:
        np.savetxt(path, M)
        with open(path, "a") as f:
            f.write("\n")
    return lay


def spell_int(rng, n):
    """an integer argument as callers hold it: Python int or a numpy integer scalar
    (result of rng.integers, len(array) arithmetic, an element of an index array)"""
    return [int(n), np.int64(n), np.int32(n), int(n)][rng.integers(4)]


def spell_float(rng, x):
    """a float argument as Python float or numpy float64 scalar (same value)"""
    return [float(x), np.float64(x)][rng.integers(2)]


def relayout(rng, M, readonly_ok=True):
    """
    The same array values in another memory layout, as callers may hand them over: C order,
    Fortran order, a transposed view, a strided window of a larger array, optionally read-only
    (np.load with mmap, arrays owned by other libraries).  Pure functions must not care.
    """
    M = np.asarray(M)
    if M.ndim != 2:
        return M
    u = rng.integers(6)
    if u == 0:
        out = np.ascontiguousarray(M)
    elif u == 1:
        out = np.asfortranarray(M)
    elif u == 2:
        out = np.ascontiguousarray(M.T).T  # transposed view of a C-ordered array
    elif u == 3:
        big = np.zeros((2 * M.shape[0], 2 * M.shape[1]), dtype=M.dtype)
        big[::2, ::2] = M
        out = big[::2, ::2]  # strided window
    elif u == 4:
        big = np.full((M.shape[0] + 2, M.shape[1] + 3), 7, dtype=M.dtype)
        big[1:-1, 2:-1] = M
        out = big[1:-1, 2:-1]  # block of a larger array
    else:
        out = M.copy()
    if readonly_ok and rng.random() < .25:
        out = out.view()
        out.setflags(write=False)
    return out


def rand_se3(rng, tscale=None):
    tscale = 10.0**rng.uniform(-3, 4) if tscale is None else tscale
    return rm.se3(rand_rot(rng), rng.normal(size=3) * tscale)


def age(rng, traj, p=0.5):
    """
    Give a freshly built object a *history* that must not change what it describes: partial
    reads of representations and derived quantities (which create whatever caches exist).
    Returns the list of attributes that were read.
    """
    done = []
    if rng.random() >= p:
        return done
    names = ["positions_xyz", "orientations_quat_wxyz", "poses_se3", "distances", "path_length", "num_poses"]
    if hasattr(traj, "timestamps") and traj.num_poses >= 2:
        names.append("speeds")
    from evo.core.trajectory import TrajectoryException
    for a in names:
        if rng.random() < .35:
            try:
                getattr(traj, a)
            except TrajectoryException:
                pass  # e.g. speeds of a trajectory whose stamps are not ascending: refused by design
            done.append(a)
    if rng.random() < .2:
        try:
            traj.get_infos()
            traj.check()
        except TrajectoryException:
            pass
        done.append("get_infos+check")
    return done


import contextlib


@contextlib.contextmanager
def logging_state(rng, p=0.3):
    """
    With probability p the case runs with evo's logger configured the way every evo command
    line tool (and any API user who called log.configure_logging) leaves it: level DEBUG with
    handlers attached - instead of the harness default (silenced).  Process state of this kind
    must not influence results.
    """
    import io
    import logging
    import sys
    from vmon import core
    if rng.random() >= p:
        yield "silenced"
        return
    from evo.tools import log
    out, err = sys.stdout, sys.stderr
    sys.stdout, sys.stderr = io.StringIO(), io.StringIO()
    try:
        log.configure_logging(verbose=bool(rng.random() < .5), silent=bool(rng.random() < .5),
                              debug=bool(rng.random() < .5))
        yield "configured (DEBUG)"
    finally:
        sys.stdout, sys.stderr = out, err
        lg = logging.getLogger("evo")
        for h in list(lg.handlers):
            lg.removeHandler(h)
        core.silence_evo_logging()
