"""
vmon.cli - in-process driver for evo_ape / evo_rpe / evo_traj / evo_res / evo_config
(parser.parse_args -> merge_config -> run), with scripted answers for confirmation prompts,
plus a real-subprocess driver.  The in-process form (~16 ms per run) keeps the monitors that
are installed on evo's functions active inside the command line tools.
"""
import builtins
import contextlib
import importlib
import io
import logging
import os
import subprocess
import sys

from vmon import core


class CliResult:
    def __init__(self):
        self.exit = None  # SystemExit code, or 0 on normal return
        self.exc = None  # uncaught exception object (what launch() would turn into exit 1)
        self.prompts = []  # (prompt text, answer)
        self.args = None
        self.stdout = ""

    @property
    def ok(self):
        return self.exc is None and (self.exit in (0, None))

    def __repr__(self):
        return "CliResult(exit=%r, exc=%r, prompts=%d)" % (self.exit, self.exc, len(self.prompts))


class NoMoreAnswers(Exception):
    pass


def _reset_logging():
    lg = logging.getLogger("evo")
    for h in list(lg.handlers):
        try:
            h.close()
        except Exception:
            pass
        lg.removeHandler(h)


@contextlib.contextmanager
def scripted_input(answers, log):
    orig = builtins.input
    it = iter(answers if answers is not None and not callable(answers) else [])

    def fake(prompt=""):
        try:
            a = answers(prompt) if callable(answers) else next(it)
        except StopIteration:
            log.append((prompt, None))
            raise NoMoreAnswers(prompt)
        log.append((prompt, a))
        if a == "<EOF>":
            raise EOFError("EOF when reading a line")  # stdin is closed / at end of file: no answer at all
        if a == "<ERR>":
            # the answer cannot be read: bytes that are no valid UTF-8 typed on a UTF-8 console
            raise UnicodeDecodeError("utf-8", b"\xe4\n", 0, 1, "invalid continuation byte")
        if a == "<NOSTDIN>":
            raise RuntimeError("input(): lost sys.stdin")  # the process was started without a standard input
        if a == "<INT>":
            raise KeyboardInterrupt()  # Ctrl+C while the question is pending: no answer either
        return a

    builtins.input = fake
    try:
        yield
    finally:
        builtins.input = orig


def run_cli(tool, argv, cwd=None, answers=None, keep_figures=False):
    """
    tool in {'ape','rpe','traj','res','config'}; argv: list of str (without program name).
    Returns CliResult.  Package settings modified in memory by -c are restored afterwards.
    """
    from evo import entry_points
    from evo.tools import settings
    res = CliResult()
    old_cwd = os.getcwd()
    saved_settings = dict(settings.SETTINGS)
    saved_argv = sys.argv
    _reset_logging()
    out = io.StringIO()
    try:
        if cwd:
            os.chdir(cwd)
        with scripted_input(answers, res.prompts), contextlib.redirect_stdout(out), \
                contextlib.redirect_stderr(io.StringIO()):
            try:
                if tool == "config":
                    from evo import main_config
                    sys.argv = ["evo_config"] + list(argv)
                    main_config.main()
                else:
                    pm = importlib.import_module("evo.main_%s_parser" % tool)
                    mm = importlib.import_module("evo.main_%s" % tool)
                    raised = []

                    class _Main:
                        """stand-in for the tool's module handed to evo's own launch(): records the
                        arguments launch passes on and the exception the tool raises (launch itself
                        turns every exception into exit status 1)"""
                        __name__ = mm.__name__

                        @staticmethod
                        def run(args):
                            res.args = args
                            try:
                                mm.run(args)
                            except BaseException as e:  # noqa
                                raised.append(e)
                                raise

                    sys.argv = ["evo_" + tool] + [str(a) for a in argv]
                    entry_points.launch(_Main, pm.parser())
                res.exit = 0
            except SystemExit as e:
                if tool != "config" and raised and not isinstance(raised[-1], SystemExit):
                    res.exc = raised[-1]
                else:
                    res.exit = e.code if e.code is not None else 0
            except BaseException as e:  # noqa
                res.exc = e
    finally:
        sys.argv = saved_argv
        os.chdir(old_cwd)
        _reset_logging()
        core.silence_evo_logging()
        for k in list(settings.SETTINGS.keys()):
            if k not in saved_settings:
                dict.__delitem__(settings.SETTINGS, k)
        for k, v in saved_settings.items():
            dict.__setitem__(settings.SETTINGS, k, v)
        if not keep_figures and "matplotlib.pyplot" in sys.modules:
            sys.modules["matplotlib.pyplot"].close("all")
    res.stdout = out.getvalue()
    return res


def run_subprocess(tool, argv, cwd, home, stdin_text="", repo=None, timeout=120, closed_stdout=False, early_reader=False):
    """run the real command line entry point in a fresh interpreter (closed_stdout: the process
    starts without a standard output, as with `cmd >&-`, cron jobs or daemons: sys.stdout is None)"""
    env = dict(os.environ)
    env["HOME"] = home
    env["MPLBACKEND"] = "Agg"
    env.pop("DISPLAY", None)
    repo = repo or str(core.REPO)
    env["PYTHONPATH"] = repo
    code = "import sys; from evo import entry_points, main_config; sys.argv=['evo_%s']+sys.argv[1:]; " % tool
    code += "main_config.main()" if tool == "config" else "entry_points.%s()" % tool
    if stdin_text and stdin_text.startswith("<PTY>"):
        # the answers are typed at a terminal: standard input is a pseudo-terminal
        import pty
        master, slave = pty.openpty()
        proc = subprocess.Popen([sys.executable, "-c", code] + list(argv), cwd=cwd, env=env, stdin=slave,
                                stdout=subprocess.PIPE, stderr=subprocess.PIPE, text=True)
        os.close(slave)
        try:
            os.write(master, stdin_text[5:].encode())
            out, err = proc.communicate(timeout=timeout)
        finally:
            os.close(master)
        return subprocess.CompletedProcess(proc.args, proc.returncode, out, err)
    if early_reader:
        # standard output is a pipe whose reader quits at once (`evo_traj ... | head -0`, a pager
        # left with q): writing to it fails from the first message on
        proc = subprocess.Popen([sys.executable, "-c", code] + list(argv), cwd=cwd, env=env, stdin=subprocess.DEVNULL,
                                stdout=subprocess.PIPE, stderr=subprocess.PIPE, text=True)
        proc.stdout.close()
        try:
            err = proc.stderr.read()
            proc.wait(timeout=timeout)
        finally:
            proc.stderr.close()
            if proc.poll() is None:
                proc.kill()
        return subprocess.CompletedProcess(proc.args, proc.returncode, "", err)
    if closed_stdout:
        p = subprocess.run([sys.executable, "-c", code] + list(argv), cwd=cwd, env=env, input=stdin_text, text=True,
                           stderr=subprocess.PIPE, timeout=timeout, preexec_fn=lambda: os.close(1))
        p.stdout = ""
        return p
    p = subprocess.run([sys.executable, "-c", code] + list(argv), cwd=cwd, env=env,
                       input=stdin_text, capture_output=True, text=True, timeout=timeout)
    return p
