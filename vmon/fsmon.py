"""
vmon.fsmon - file-system event recorder built on sys.addaudithook (open-for-write / rename /
replace / remove / truncate / mkdir), prompt recorder (scripted builtins.input) and before/after
byte snapshots of directories.  The audit hook is installed once per process and is active only
while a Recorder is entered.
"""
import hashlib
import os
import sys

_ACTIVE = []
_INSTALLED = False


def _hook(event, args):
    if not _ACTIVE:
        return
    rec = _ACTIVE[-1]
    try:
        if event == "open":
            path, mode, flags = args
            if not isinstance(path, (str, bytes, os.PathLike)):
                return
            w = False
            if isinstance(mode, str):
                w = any(ch in mode for ch in "wax+")
            if flags is not None and isinstance(flags, int):
                w = w or bool(flags & (os.O_WRONLY | os.O_RDWR | os.O_TRUNC | os.O_CREAT | os.O_APPEND))
            if w:
                rec._add("open-write", path, mode=mode)
        elif event in ("os.rename", "os.replace"):
            rec._add("rename-from", args[0])
            rec._add("rename-onto", args[1])
        elif event in ("os.remove", "os.unlink"):
            rec._add("remove", args[0])
        elif event == "os.truncate":
            rec._add("truncate", args[0])
        elif event == "os.mkdir":
            rec._add("mkdir", args[0])
        elif event == "shutil.move" or event == "shutil.copyfile":
            rec._add("rename-onto", args[1])
    except Exception:
        pass


def install():
    global _INSTALLED
    if not _INSTALLED:
        sys.addaudithook(_hook)
        _INSTALLED = True


class Recorder:
    """records destructive file-system events (absolute paths) and prompt events in one log"""

    def __init__(self):
        self.events = []  # (seq, kind, abspath | prompt text, extra)

    def _add(self, kind, path, **extra):
        try:
            p = os.fsdecode(path)
        except Exception:
            return
        self.events.append((len(self.events), kind, os.path.abspath(p), extra))

    def prompt(self, text, answer):
        self.events.append((len(self.events), "prompt", text, {"answer": answer}))

    def confirm_call(self, path, result):
        self.events.append((len(self.events), "confirm", os.path.abspath(os.fsdecode(path)), {"result": result}))

    def __enter__(self):
        install()
        _ACTIVE.append(self)
        return self

    def __exit__(self, *a):
        _ACTIVE.remove(self)

    def destructive_on(self, path):
        ap = os.path.abspath(path)
        return [e for e in self.events if e[1] in ("open-write", "rename-onto", "remove", "truncate", "rename-from")
                and e[2] == ap]


def digest_dir(d):
    """relative path -> sha256 of every regular file below d"""
    out = {}
    for root, _, files in os.walk(d):
        for f in files:
            p = os.path.join(root, f)
            try:
                with open(p, "rb") as fh:
                    out[os.path.relpath(p, d)] = hashlib.sha256(fh.read()).hexdigest()
            except OSError:
                out[os.path.relpath(p, d)] = "unreadable"
    return out
