"""
vmon.refmodel - independent reference implementations / executable models.

Written from the property statements with plain numpy products; none of evo's helpers
(lie_algebra, transformations, geometry, sync, filters) and no scipy Rotation / SVD-Kabsch is
used here, so an error shared between evo's code paths cannot hide in the oracle.
"""
import bisect
import math

import numpy as np

PI = math.pi


# ------------------------------------------------------------------ SO(3) / SE(3) algebra
def hat(v):
    return np.array([[0.0, -v[2], v[1]], [v[2], 0.0, -v[0]], [-v[1], v[0], 0.0]])


def rodrigues(axis, theta):
    """rotation matrix for unit axis and angle theta (Rodrigues' formula)"""
    a = np.asarray(axis, dtype=float)
    a = a / np.linalg.norm(a)
    K = hat(a)
    return np.eye(3) + math.sin(theta) * K + (1.0 - math.cos(theta)) * (K @ K)


def rot_from_quat_wxyz(q):
    """textbook Hamilton unit quaternion (w,x,y,z) -> rotation matrix; q is normalised here"""
    q = np.asarray(q, dtype=float)
    w, x, y, z = q / math.sqrt(float(q @ q))
    return np.array([
        [1 - 2 * (y * y + z * z), 2 * (x * y - z * w), 2 * (x * z + y * w)],
        [2 * (x * y + z * w), 1 - 2 * (x * x + z * z), 2 * (y * z - x * w)],
        [2 * (x * z - y * w), 2 * (y * z + x * w), 1 - 2 * (x * x + y * y)],
    ])


def quat_wxyz_from_rot(R):
    """Shepperd's method, w >= 0 not enforced"""
    t = R[0, 0] + R[1, 1] + R[2, 2]
    c = [t, R[0, 0], R[1, 1], R[2, 2]]
    k = int(np.argmax(c))
    if k == 0:
        w = math.sqrt(max(0.0, 1 + t)) / 2
        x = (R[2, 1] - R[1, 2]) / (4 * w)
        y = (R[0, 2] - R[2, 0]) / (4 * w)
        z = (R[1, 0] - R[0, 1]) / (4 * w)
    elif k == 1:
        x = math.sqrt(max(0.0, 1 + R[0, 0] - R[1, 1] - R[2, 2])) / 2
        w = (R[2, 1] - R[1, 2]) / (4 * x)
        y = (R[0, 1] + R[1, 0]) / (4 * x)
        z = (R[0, 2] + R[2, 0]) / (4 * x)
    elif k == 2:
        y = math.sqrt(max(0.0, 1 - R[0, 0] + R[1, 1] - R[2, 2])) / 2
        w = (R[0, 2] - R[2, 0]) / (4 * y)
        x = (R[0, 1] + R[1, 0]) / (4 * y)
        z = (R[1, 2] + R[2, 1]) / (4 * y)
    else:
        z = math.sqrt(max(0.0, 1 - R[0, 0] - R[1, 1] + R[2, 2])) / 2
        w = (R[1, 0] - R[0, 1]) / (4 * z)
        x = (R[0, 2] + R[2, 0]) / (4 * z)
        y = (R[1, 2] + R[2, 1]) / (4 * z)
    q = np.array([w, x, y, z])
    return q / math.sqrt(float(q @ q))


def rot_angle(R):
    """geodesic angle in [0, pi]; accurate near 0 and near pi (no arccos)"""
    s = 0.5 * math.sqrt((R[2, 1] - R[1, 2])**2 + (R[0, 2] - R[2, 0])**2 +
                        (R[1, 0] - R[0, 1])**2)
    c = 0.5 * (R[0, 0] + R[1, 1] + R[2, 2] - 1.0)
    return math.atan2(s, c)


def rot_defect(R):
    """max(|R^T R - I|, |det R - 1|): distance from SO(3)"""
    R = np.asarray(R, dtype=float)
    return max(float(np.max(np.abs(R.T @ R - np.eye(3)))), abs(float(np.linalg.det(R)) - 1.0))


def se3(R, p):
    T = np.eye(4)
    T[:3, :3] = R
    T[:3, 3] = p
    return T


def se3_inv(T):
    Rt = T[:3, :3].T
    return se3(Rt, -Rt @ T[:3, 3])


def se3_defect(T):
    T = np.asarray(T, dtype=float)
    if T.shape != (4, 4):
        return float("inf")
    bottom = 0.0 if (T[3, 0] == 0 and T[3, 1] == 0 and T[3, 2] == 0 and T[3, 3] == 1) else 1.0
    return max(rot_defect(T[:3, :3]), bottom)


# ------------------------------------------------------------------ APE / RPE definitions
def reduce_error(relation, E_R, E_t):
    """reduce a relative pose (rotation E_R, translation E_t) to a scalar as the statement says"""
    if relation == "translation_part":
        return math.sqrt(float(E_t @ E_t))
    if relation == "rotation_part":
        return math.sqrt(float(np.sum((E_R - np.eye(3))**2)))
    if relation == "full_transformation":
        return math.sqrt(float(np.sum((E_R - np.eye(3))**2)) + float(E_t @ E_t))
    if relation == "rotation_angle_rad":
        return rot_angle(E_R)
    if relation == "rotation_angle_deg":
        return rot_angle(E_R) * 180.0 / PI
    raise KeyError(relation)


def ape_definition(relation, R_ref, p_ref, R_est, p_est):
    """one value per pose; E = est^-1 * ref"""
    n = len(p_ref)
    out = np.empty(n)
    for k in range(n):
        if relation in ("translation_part", "point_distance"):
            d = np.asarray(p_est[k]) - np.asarray(p_ref[k])
            out[k] = math.sqrt(float(d @ d))
        else:
            Et = R_est[k].T
            E_R = Et @ R_ref[k]
            E_t = Et @ (np.asarray(p_ref[k]) - np.asarray(p_est[k]))
            out[k] = reduce_error(relation, E_R, E_t)
    return out


def rpe_definition(relation, R_ref, p_ref, R_est, p_est, pairs):
    """values over pairs; returns (values, kept_mask) - kept_mask False where the ratio variant
    skips a zero reference distance"""
    vals, kept = [], []
    for (i, j) in pairs:
        if relation in ("point_distance", "point_distance_error_ratio"):
            dr = np.asarray(p_ref[j]) - np.asarray(p_ref[i])
            de = np.asarray(p_est[j]) - np.asarray(p_est[i])
            a = math.sqrt(float(dr @ dr))
            b = math.sqrt(float(de @ de))
            if relation == "point_distance":
                vals.append(abs(a - b))
                kept.append(True)
            else:
                if a == 0.0:
                    kept.append(False)
                else:
                    vals.append(abs(a - b) / a * 100.0)
                    kept.append(True)
            continue
        # Q_rel = Q_i^-1 Q_j ; P_rel = P_i^-1 P_j ; E = Q_rel^-1 P_rel
        Qr_R = R_ref[i].T @ R_ref[j]
        Qr_t = R_ref[i].T @ (np.asarray(p_ref[j]) - np.asarray(p_ref[i]))
        Pr_R = R_est[i].T @ R_est[j]
        Pr_t = R_est[i].T @ (np.asarray(p_est[j]) - np.asarray(p_est[i]))
        E_R = Qr_R.T @ Pr_R
        E_t = Qr_R.T @ (Pr_t - Qr_t)
        vals.append(reduce_error(relation, E_R, E_t))
        kept.append(True)
    return np.array(vals), kept


# ------------------------------------------------------------------ Horn alignment
def horn_alignment(x, y, with_scale):
    """
    Least-squares similarity y ~ c*R*x + t by Horn's closed-form quaternion method
    (largest eigenvector of the 4x4 N matrix).  x, y: 3xn.  Returns R, t, c, gap where gap is
    the relative separation of the two largest eigenvalues of N (uniqueness indicator).
    """
    x = np.asarray(x, dtype=float)
    y = np.asarray(y, dtype=float)
    mx = x.mean(axis=1)
    my = y.mean(axis=1)
    xc = x - mx[:, None]
    yc = y - my[:, None]
    S = xc @ yc.T  # S[a,b] = sum x_a y_b
    Sxx, Sxy, Sxz = S[0]
    Syx, Syy, Syz = S[1]
    Szx, Szy, Szz = S[2]
    N = np.array([
        [Sxx + Syy + Szz, Syz - Szy, Szx - Sxz, Sxy - Syx],
        [Syz - Szy, Sxx - Syy - Szz, Sxy + Syx, Szx + Sxz],
        [Szx - Sxz, Sxy + Syx, -Sxx + Syy - Szz, Syz + Szy],
        [Sxy - Syx, Szx + Sxz, Syz + Szy, -Sxx - Syy + Szz],
    ])
    w, v = np.linalg.eigh(N)
    q = v[:, -1]
    R = rot_from_quat_wxyz(q)
    scale_n = max(abs(w[-1]), abs(w[0]), 1e-300)
    gap = (w[-1] - w[-2]) / scale_n
    if with_scale:
        sx = float(np.sum(xc * xc))
        c = float(np.sum(yc * (R @ xc))) / sx if sx > 0 else 1.0
    else:
        c = 1.0
    t = my - c * (R @ mx)
    return R, t, c, gap


def sse(R, t, c, x, y):
    r = y - (c * (R @ x) + np.asarray(t)[:, None])
    return float(np.sum(r * r))


# ------------------------------------------------------------------ time association model
def nearest_indices(sorted_stamps, t):
    """indices of all entries of sorted_stamps at minimal |s - t| (ties -> both)"""
    n = len(sorted_stamps)
    k = bisect.bisect_left(sorted_stamps, t)
    cands = [c for c in (k - 1, k, k + 1) if 0 <= c < n]
    # duplicates cannot occur (strictly increasing), so 3 candidates suffice
    best = min(abs(sorted_stamps[c] - t) for c in cands)
    return [c for c in cands if abs(sorted_stamps[c] - t) == best], best


# ------------------------------------------------------------------ independent file parsers
class ParseError(Exception):
    pass


def _rows(text, delim):
    rows = []
    for line in text.split("\n"):
        if line.endswith("\r"):
            line = line[:-1]
        if line.startswith("#"):
            continue
        if line == "":
            continue
        rows.append(line.split(delim))
    return rows


def parse_tum(text):
    """TUM: 'timestamp tx ty tz qx qy qz qw' -> stamps, xyz, R list"""
    rows = _rows(text, " ")
    if not rows:
        raise ParseError("no data rows")
    st, xyz, Rs, qs = [], [], [], []
    for r in rows:
        if len(r) != 8:
            raise ParseError("row with %d columns" % len(r))
        try:
            v = [float(c) for c in r]
        except ValueError:
            raise ParseError("non numeric")
        st.append(v[0])
        xyz.append(v[1:4])
        qx, qy, qz, qw = v[4:8]
        qs.append([qw, qx, qy, qz])
        Rs.append(rot_from_quat_wxyz([qw, qx, qy, qz]))
    return np.array(st), np.array(xyz), np.array(Rs), np.array(qs)


def parse_kitti(text):
    rows = _rows(text, " ")
    if not rows:
        raise ParseError("no data rows")
    xyz, Rs = [], []
    for r in rows:
        if len(r) != 12:
            raise ParseError("row with %d columns" % len(r))
        try:
            v = [float(c) for c in r]
        except ValueError:
            raise ParseError("non numeric")
        M = np.array(v).reshape(3, 4)
        Rs.append(M[:, :3].copy())
        xyz.append(M[:, 3].copy())
    return np.array(xyz), np.array(Rs)


def parse_euroc(text):
    """EuRoC: 'timestamp[ns], p_x, p_y, p_z, q_w, q_x, q_y, q_z, ...'"""
    rows = _rows(text, ",")
    if not rows:
        raise ParseError("no data rows")
    st, xyz, Rs, qs = [], [], [], []
    for r in rows:
        if len(r) < 8:
            raise ParseError("row with %d columns" % len(r))
        try:
            v = [float(c) for c in r]
        except ValueError:
            raise ParseError("non numeric")
        st.append(v[0] / 1e9)
        xyz.append(v[1:4])
        qs.append(v[4:8])
        Rs.append(rot_from_quat_wxyz(v[4:8]))
    return np.array(st), np.array(xyz), np.array(Rs), np.array(qs)


def fmt17(x):
    """shortest repr that round-trips a float64"""
    return repr(float(x))


def write_tum_text(stamps, xyz, quats_wxyz, eol="\n"):
    out = []
    for t, p, q in zip(stamps, xyz, quats_wxyz):
        out.append(" ".join(fmt17(v) for v in (t, p[0], p[1], p[2], q[1], q[2], q[3], q[0])))
    return eol.join(out) + eol


def write_kitti_text(xyz, Rs, eol="\n"):
    out = []
    for p, R in zip(xyz, Rs):
        M = np.hstack([R, np.asarray(p).reshape(3, 1)])
        out.append(" ".join(fmt17(v) for v in M.reshape(-1)))
    return eol.join(out) + eol


def write_euroc_text(stamps_ns, xyz, quats_wxyz, extra_cols=9, header=True, eol="\n"):
    out = []
    if header:
        out.append("#timestamp, p_RS_R_x [m], p_RS_R_y [m], p_RS_R_z [m], q_RS_w [], "
                   "q_RS_x [], q_RS_y [], q_RS_z []")
    for t, p, q in zip(stamps_ns, xyz, quats_wxyz):
        cols = [str(int(t))] + [fmt17(v) for v in (p[0], p[1], p[2], q[0], q[1], q[2], q[3])]
        cols += ["0.0"] * extra_cols
        out.append(",".join(cols))
    return eol.join(out) + eol


# ------------------------------------------------------------------ statistics (extended precision)
def stats_definition(e):
    e = [float(v) for v in e]
    n = len(e)
    mean = math.fsum(e) / n
    sse_ = math.fsum(v * v for v in e)
    s = sorted(e)
    med = s[n // 2] if n % 2 else 0.5 * (s[n // 2 - 1] + s[n // 2])
    var = math.fsum((v - mean)**2 for v in e) / n
    return {"rmse": math.sqrt(sse_ / n), "sse": sse_, "mean": mean, "median": med,
            "std": math.sqrt(var), "min": s[0], "max": s[-1]}


def cumdist(p):
    p = np.asarray(p, dtype=float)
    d = [0.0]
    for k in range(1, len(p)):
        v = p[k] - p[k - 1]
        d.append(d[-1] + math.sqrt(float(v @ v)))
    return np.array(d)
