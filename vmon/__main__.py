"""
driver:  python -m vmon <ID> <quick|thorough> [--shards N]
         python -m vmon <ID> --replay FILE
         python -m vmon <ID> <tier> --shard i/N --partial FILE     (internal)
Exit codes: 0 held on what was observed, 1 VIOLATION printed, 2 INCONCLUSIVE.
"""
import importlib
import json
import os
import shutil
import subprocess
import sys
import tempfile
import time
import traceback
from pathlib import Path

VERIF = Path(__file__).resolve().parent.parent


def child_env(home):
    env = dict(os.environ)
    env["HOME"] = home
    env.pop("DISPLAY", None)
    env["MPLBACKEND"] = "Agg"
    env.setdefault("PYTHONHASHSEED", "0")
    for k in ("OMP_NUM_THREADS", "OPENBLAS_NUM_THREADS", "MKL_NUM_THREADS",
              "NUMEXPR_NUM_THREADS"):
        env[k] = "1"
    env["PYTHONPATH"] = str(VERIF) + (os.pathsep + env["PYTHONPATH"]
                                      if env.get("PYTHONPATH") else "")
    repo = os.environ.get("VERIF_REPO")
    if repo:
        env["PYTHONPATH"] = repo + os.pathsep + env["PYTHONPATH"]
    env["PYTHONDONTWRITEBYTECODE"] = "1"
    return env


def run_shard(pid, tier, seed, shard, nshards, partial_path, replay=None):
    """executed in the child: private HOME is already set by the parent"""
    from vmon import core
    run = core.Run(pid, tier, seed, shard, nshards)
    try:
        core.assert_tree_under_test()
        core.silence_evo_logging()
        mod = importlib.import_module("vmon.props." + pid)
        run.level = getattr(mod, "LEVEL", "exploration")
        run.rule = getattr(mod, "RULE", "")
        run.assumptions = list(getattr(mod, "ASSUMPTIONS", []))
        guard_executors(mod, core)
        lh = core.LineHits(getattr(mod, "ANCHORS", []))
        lh.start()
        run._lh = lh
        if replay is not None:
            run.replay_mode = True
            rec = json.loads(Path(replay).read_text())
            case = core.unjson(rec["case"])
            mod.KINDS[case["kind"]](run, case)
        else:
            mod.main(run)
    except core.Inconclusive as e:
        run.inconclusive.append(str(e))
    except Exception:
        run.inconclusive.append("harness error in shard %d: %s" %
                                (shard, traceback.format_exc()[-1500:]))
    if getattr(run, "_lh", None) is not None:
        run._lh.stop()
        run.line_hits = run._lh.result()
    Path(partial_path).write_text(json.dumps(run.partial()))


import contextlib


@contextlib.contextmanager
def ambient_state(run, case):
    """
    Ambient process state that a result must not depend on, drawn per case from the case's own
    random stream (so a replay reproduces it): evo's logger configured at DEBUG level the way
    the command line tools leave it, and numpy print options as a notebook user sets them
    (low precision, summarised arrays - any file or value produced through str(array) would
    show it).  Nested cases (a property re-using another's executor) draw once, outermost.
    """
    import numpy as np
    from vmon import core, gen
    if getattr(ambient_state, "active", False) or "rs" not in case:
        yield
        return
    rng = core.Run.rng(case, stream=977)
    ambient_state.active = True
    try:
        with contextlib.ExitStack() as st:
            if rng.random() < .12:
                st.enter_context(np.printoptions(precision=int(rng.integers(1, 5)), suppress=True,
                                                 threshold=int(rng.integers(3, 10)), edgeitems=1))
                run.hit("ambient state: numpy print options precision<=4 / summarised")
            if rng.random() < .12:
                st.enter_context(gen.logging_state(rng, p=1.0))
                run.hit("ambient state: evo logger configured at DEBUG")
            yield
    finally:
        ambient_state.active = False


def guard_executors(mod, core):
    """
    Wrap every executor of the property module: an exception that escapes from evo's own code
    while a case is monitored is an observed failure of the code under test (reported as a
    violation with the case as witness); an exception raised by the harness itself propagates
    and makes the run inconclusive.
    """
    import functools
    import traceback as tb
    repo_evo = os.path.join(str(core.REPO), "evo") + os.sep

    def guard(fn):
        @functools.wraps(fn)
        def w(run, case):
            try:
                with ambient_state(run, case):
                    return fn(run, case)
            except core.Inconclusive:
                raise
            except Exception as e:
                frames = tb.extract_tb(e.__traceback__)
                evo_frames = [f for f in frames if os.path.abspath(f.filename).startswith(repo_evo)]
                if not evo_frames:
                    raise
                last = evo_frames[-1]
                run.violation("evo-raised:%s in %s" % (type(e).__name__, last.name),
                              "evo raised %s: %s (at %s:%d in %s) while the case was monitored" %
                              (type(e).__name__, str(e)[:300], os.path.basename(last.filename), last.lineno,
                               last.name), case, traceback="".join(tb.format_tb(e.__traceback__))[-1200:])
        w._guarded = True
        return w

    for name, fn in list(mod.KINDS.items()):
        if getattr(fn, "_guarded", False):
            continue
        g = guard(fn)
        mod.KINDS[name] = g
        for attr, val in list(vars(mod).items()):
            if val is fn:
                setattr(mod, attr, g)


def main(argv):
    if len(argv) < 2:
        print(__doc__)
        return 2
    pid = argv[0]
    seed = int(os.environ.get("VERIF_SEED", "0"))
    if "--shard" in argv:  # child mode
        tier = argv[1]
        i, n = argv[argv.index("--shard") + 1].split("/")
        partial = argv[argv.index("--partial") + 1]
        replay = argv[argv.index("--replay") + 1] if "--replay" in argv else None
        run_shard(pid, tier, seed, int(i), int(n), partial, replay)
        return 0

    from vmon import core  # (does not import evo)
    replay = None
    if argv[1] == "--replay":
        replay = str(Path(argv[2]).resolve())
        tier = "quick"
        rec = json.loads(Path(replay).read_text())
        seed = int(rec.get("seed", seed))
        tier = rec.get("tier", tier)
        nshards = 1
    else:
        tier = argv[1]  # the command line decides; VERIF_TIER is informational
        if tier not in ("quick", "thorough"):
            print("tier must be quick|thorough")
            return 2
        # static module attributes are read without importing evo
        src = (VERIF / "vmon" / "props" / (pid + ".py")).read_text()
        nshards = {"quick": 8, "thorough": 16}[tier]
        for line in src.splitlines():
            if line.startswith("SHARDS"):
                nshards = eval(line.split("=", 1)[1])[tier]
        if "--shards" in argv:
            nshards = int(argv[argv.index("--shards") + 1])
    watchdog = {"quick": 1500, "thorough": 6 * 3600}[tier]

    work = tempfile.mkdtemp(prefix="vmon-%s-" % pid)
    procs = []
    t0 = time.time()
    try:
        for i in range(nshards):
            home = os.path.join(work, "home%d" % i)
            os.makedirs(home)
            partial = os.path.join(work, "partial%d.json" % i)
            cmd = [sys.executable, "-m", "vmon", pid, tier, "--shard", "%d/%d" % (i, nshards),
                   "--partial", partial]
            if replay:
                cmd += ["--replay", replay]
            log = open(os.path.join(work, "log%d.txt" % i), "w")
            env = child_env(home)
            env["VERIF_SEED"] = str(seed)
            env["VMON_WORK"] = os.path.join(work, "w%d" % i)
            os.makedirs(env["VMON_WORK"])
            p = subprocess.Popen(cmd, cwd=env["VMON_WORK"], env=env, stdout=log,
                                 stderr=subprocess.STDOUT, stdin=subprocess.DEVNULL)
            procs.append((i, p, partial, log))
        run = core.Run(pid, tier, seed)
        run.replay_mode = replay is not None
        run.t0 = t0
        for i, p, partial, log in procs:
            left = max(1.0, watchdog - (time.time() - t0))
            try:
                p.wait(timeout=left)
            except subprocess.TimeoutExpired:
                p.kill()
                p.wait()
                run.inconclusive.append("shard %d hit the wall-clock watchdog (%ds)" %
                                        (i, watchdog))
            log.close()
            if os.path.exists(partial):
                run.absorb(json.loads(Path(partial).read_text()))
            else:
                tail = Path(log.name).read_text()[-400:]
                run.inconclusive.append("shard %d died without a result (rc=%s): %s" %
                                        (i, p.returncode, tail))
        rc = run.finish(write_evidence=replay is None)
        return rc
    finally:
        for _, p, _, _ in procs:
            if p.poll() is None:
                p.kill()
        shutil.rmtree(work, ignore_errors=True)


if __name__ == "__main__":
    sys.exit(main(sys.argv[1:]))
