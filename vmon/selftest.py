"""setup_cmd: nothing to build; verifies the interpreter, that evo imports from the tree under
test and that the framework's own modules import."""
import importlib
import os
import sys
import tempfile


def main():
    os.environ["HOME"] = tempfile.mkdtemp(prefix="vmon-selftest-")
    os.environ["MPLBACKEND"] = "Agg"
    from vmon import core
    core.assert_tree_under_test()
    for m in ("vmon.refmodel", "vmon.gen"):
        importlib.import_module(m)
    import numpy, scipy  # noqa
    print("vmon selftest ok: python %s, evo from %s" % (sys.version.split()[0], core.REPO))
    import shutil
    shutil.rmtree(os.environ["HOME"], ignore_errors=True)


if __name__ == "__main__":
    main()
