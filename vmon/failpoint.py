"""
vmon.failpoint - child process runner for C19: runs one settings scenario of the real evo code
under sys.monitoring CALL / C_RETURN events restricted to evo/tools/settings.py and
evo/main_config.py, and
  * counts the events (mode 'count'),
  * dies with os._exit at event number K (no finally blocks, no buffer flush = kill -9
    semantics), optionally after performing a torn (prefix) write when the event is a call of a
    file object's write(),
  * or injects seeded random yields (sleeps of 0..3 ms) at the call events (mode 'race') while
    logging the file-system steps it performs in ~/.evo with a system-wide monotonic clock.

usage: python -m vmon.failpoint <scenario> <mode> [K] [variant] [seed] [logfile] [go_file]
"""
import json
import os
import random
import sys
import time

TOOL = 3
EXIT_KILLED = 77
FILES = (os.sep + os.path.join("evo", "tools", "settings.py"), os.sep + os.path.join("evo", "main_config.py"))


def in_scope(code):
    return code.co_filename.endswith(FILES)


# file-system primitives: a call of one of these is a crash point wherever it is issued from
# (e.g. inside shutil / tempfile / pathlib helpers that the settings code calls), so that a
# library helper that performs several system calls is bracketed step by step as well
FS_NAMES = {"open", "replace", "rename", "remove", "unlink", "mkdir", "makedirs", "truncate", "write",
            "writelines", "close", "fsync", "copyfile", "copyfileobj", "copy", "copy2", "move", "symlink",
            "link", "rmdir", "sendfile", "copy_file_range", "mkstemp", "fdopen", "__exit__"}
FS_MODULES = {"io", "_io", "posix", "os", "shutil", "builtins", "tempfile", "pathlib"}


FILE_METHODS = {"write", "writelines", "close", "truncate", "__exit__"}


def is_fs_primitive(callable_, arg0=None):
    name = getattr(callable_, "__name__", None)
    if name not in FS_NAMES:
        return False
    slf = getattr(callable_, "__self__", None)
    owner = getattr(callable_, "__objclass__", None)
    if slf is None and owner is not None:
        # unbound method descriptor (how C methods arrive at CALL events): the object is arg0
        slf = arg0 if isinstance(arg0, owner) else None
        if slf is None:
            return False
    if slf is not None and not isinstance(slf, type(os)):
        if isinstance(slf, (str, bytes, bytearray, list, dict, set, frozenset, tuple)):
            return False  # str.replace, list.remove, ...
        if name in FILE_METHODS:
            # methods of file objects: only real files below HOME (or anonymous descriptors, e.g.
            # of os.fdopen'ed temporary files) - not StringIO, stdout, log streams
            fname = getattr(slf, "name", None)
            if isinstance(fname, int):
                return True
            if isinstance(fname, (str, bytes, os.PathLike)):
                try:
                    return os.path.abspath(os.fsdecode(fname)).startswith(os.environ["HOME"])
                except Exception:
                    return False
            return False
    mod = getattr(callable_, "__module__", None)
    if mod is None and slf is not None:
        mod = getattr(type(slf), "__module__", None)
    return mod in FS_MODULES


def run_scenario(name):
    if name in ("import", "upgrade"):
        import evo.tools.settings  # noqa
        return
    name = {"upgrade_reset_all": "reset_all", "upgrade_reset_subset": "reset_subset", "upgrade_set": "set"}.get(name, name)
    import evo.tools.settings  # noqa
    from evo import main_config
    other = os.path.join(os.path.dirname(os.environ["HOME"]), "other.json")
    argv = {
        "reset_all": ["reset", "-y"],
        "reset_subset": ["reset", "plot_split", "plot_usetex", "plot_linewidth"],
        "set": ["set", "plot_split", "true", "plot_linewidth", "3", "plot_statistics", "rmse", "max"],
        # an interactive plotting backend chosen on a machine / in a session without display
        "set_backend": ["set", "plot_backend", "TkAgg", "plot_linewidth", "2.5"],
        "merge_hard": ["set", "-m", other],
        "merge_soft": ["set", "-m", other, "--soft"],
        # the settings file named explicitly, by a relative spelling, from another directory
        "set_rel": ["set", "-c", "settings.json", "plot_split", "true", "plot_linewidth", "3"],
        "merge_soft_rel": ["set", "-c", os.path.join(".evo", "settings.json"), "-m", other, "--soft"],
        "set_dotdot": ["set", "-c", os.path.join("..", ".evo", "settings.json"), "plot_usetex", "true"],
    }[name]
    if name == "set_rel":
        os.chdir(os.path.join(os.environ["HOME"], ".evo"))
    elif name == "merge_soft_rel":
        os.chdir(os.environ["HOME"])
    elif name == "set_dotdot":
        os.chdir(os.path.join(os.environ["HOME"], ".evo"))
    sys.argv = ["evo_config"] + argv
    import io
    import contextlib
    with contextlib.redirect_stdout(io.StringIO()):
        main_config.main()


def main(argv):
    scenario, mode = argv[0], argv[1]
    K = int(argv[2]) if len(argv) > 2 else -1
    variant = argv[3] if len(argv) > 3 else "kill"
    seed = int(argv[4]) if len(argv) > 4 else 0
    logfile = argv[5] if len(argv) > 5 else None
    go_file = argv[6] if len(argv) > 6 else None
    mon = sys.monitoring
    state = {"n": 0, "trace": []}
    rnd = random.Random(seed)
    evo_dir = os.path.join(os.environ["HOME"], ".evo")
    log = []

    if logfile:
        def audit(event, args):
            try:
                if event == "open":
                    p = os.fsdecode(args[0]) if isinstance(args[0], (str, bytes, os.PathLike)) else None
                    if p and os.path.abspath(p).startswith(evo_dir):
                        w = isinstance(args[1], str) and any(c in args[1] for c in "wax+")
                        log.append((time.monotonic_ns(), "open-w" if w else "open-r", os.path.basename(p)))
                elif event in ("os.rename", "os.replace"):
                    log.append((time.monotonic_ns(), "replace", os.path.basename(os.fsdecode(args[1]))))
                elif event == "os.mkdir":
                    log.append((time.monotonic_ns(), "mkdir", os.path.basename(os.fsdecode(args[0]))))
                elif event in ("os.remove", "os.unlink"):
                    log.append((time.monotonic_ns(), "remove", os.path.basename(os.fsdecode(args[0]))))
            except Exception:
                pass
        sys.addaudithook(audit)

    def step(kind, code, callable_=None, arg0=None):
        n = state["n"]
        state["n"] = n + 1
        if mode == "count":
            nm = getattr(callable_, "__qualname__", getattr(callable_, "__name__", "?"))
            state["trace"].append("%s %s" % (kind, nm))
            return
        if mode == "crash" and n == K:
            if variant.startswith("torn") and kind == "CALL" and getattr(callable_, "__name__", "") == "write" \
                    and isinstance(arg0, (str, bytes)) and hasattr(getattr(callable_, "__self__", None), "flush"):
                data = arg0
                cut = {"torn1": 1, "tornhalf": len(data) // 2, "tornlast": len(data) - 1}[variant]
                try:
                    callable_(data[:max(0, cut)])
                    callable_.__self__.flush()
                except Exception:
                    pass
            os._exit(EXIT_KILLED)
        if mode == "race" and variant.startswith("hold:") and kind == "CALL" and \
                getattr(callable_, "__name__", "") in ("replace", "rename") and is_fs_primitive(callable_, arg0):
            # this process is held between writing its temporary file and renaming it
            time.sleep(int(variant.split(":")[1]) / 1000.0)
        elif mode == "race" and kind == "CALL" and variant.startswith("jitter:") and rnd.random() < 0.3:
            # longer yields (processes pre-empted for several milliseconds, a loaded machine)
            time.sleep(rnd.random() * int(variant.split(":")[1]) / 1000.0)
        elif mode == "race" and kind == "CALL" and rnd.random() < 0.3:
            time.sleep(rnd.random() * 0.003)

    started = {"on": False}

    def on_call(code, offset, callable_, arg0):
        if in_scope(code):
            started["on"] = True
            step("CALL", code, callable_, arg0)
            return None
        if not is_fs_primitive(callable_, arg0):
            return None
        if started["on"] and not code.co_filename.endswith(("importlib/_bootstrap_external.py", "zipimport.py")) \
                and "vmon" not in code.co_filename:
            step("CALL", code, callable_, arg0)

    def on_c_return(code, offset, callable_, arg0):
        if in_scope(code):
            step("C_RETURN", code, callable_, arg0)
        elif started["on"] and is_fs_primitive(callable_, arg0) and "vmon" not in code.co_filename and \
                not code.co_filename.endswith(("importlib/_bootstrap_external.py", "zipimport.py")):
            step("C_RETURN", code, callable_, arg0)

    line_hits = {}
    if mode == "count":
        def on_line(code, line):
            if in_scope(code):
                line_hits.setdefault(code.co_filename, set()).add(line)
            return mon.DISABLE
        mon.use_tool_id(4, "vmon-linehits")
        mon.register_callback(4, mon.events.LINE, on_line)
        mon.set_events(4, mon.events.LINE)
    mon.use_tool_id(TOOL, "vmon-failpoint")
    mon.register_callback(TOOL, mon.events.CALL, on_call)
    mon.register_callback(TOOL, mon.events.C_RETURN, on_c_return)
    mon.register_callback(TOOL, mon.events.C_RAISE, on_c_return)
    if go_file:
        # barrier: all racers are released together
        open(go_file + ".ready.%d" % os.getpid(), "w").close()
        while not os.path.exists(go_file):
            pass
    if mode == "race" and variant.startswith("delay:"):
        time.sleep(int(variant.split(":")[1]) / 1000.0)  # staggered start
    mon.set_events(TOOL, mon.events.CALL)
    rc = 0
    err = ""
    try:
        run_scenario(scenario)
    except SystemExit as e:
        rc = e.code if isinstance(e.code, int) else (0 if e.code is None else 1)
    except BaseException as e:  # noqa
        rc = 1
        err = "%s: %s" % (type(e).__name__, e)
    mon.set_events(TOOL, 0)
    missing = []
    if rc == 0:
        try:
            from evo.tools import settings
            from evo.tools.settings_template import DEFAULT_SETTINGS_DICT
            missing = [k for k in DEFAULT_SETTINGS_DICT if k not in settings.SETTINGS]
            if missing:
                rc = 3
                err = "missing keys %s" % missing[:5]
        except BaseException as e:  # noqa
            rc = 1
            err = "%s: %s" % (type(e).__name__, e)
    if logfile:
        with open(logfile, "w") as f:
            json.dump({"log": log, "rc": rc, "err": err}, f)
    out = {"events": state["n"], "rc": rc, "err": err}
    if mode == "count":
        out["trace"] = state["trace"]
        out["line_hits"] = {k: sorted(v) for k, v in line_hits.items()}
    sys.stdout.write(json.dumps(out) + "\n")
    sys.stdout.flush()
    os._exit(rc)


if __name__ == "__main__":
    main(sys.argv[1:])
