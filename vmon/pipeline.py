"""
vmon.pipeline - independent reference implementation of the documented evo_ape / evo_rpe /
evo_traj processing order, composed from the shadow-model operations (vmon/shadow.py), own
selection rules and Horn alignment.  Every step reports when a decision is too close to a
threshold to be reproduced independently (`Ambiguous`): such cases are counted and skipped,
never judged.
"""
import bisect
import math

import numpy as np

from vmon import refmodel as rm
from vmon.shadow import ShadowTrajectory

PI = math.pi


class Ambiguous(Exception):
    """the reference cannot decide (threshold within rounding distance / tie / ill-conditioned)"""


class Refuse(Exception):
    """the documented behaviour is to refuse; .kind names evo's exception class"""

    def __init__(self, kind, why=""):
        super().__init__(kind + ": " + why)
        self.kind = kind


def downsample_ids(n, N):
    if n <= N:
        return list(range(n))
    if N < 1:
        raise Refuse("TrajectoryException", "downsample to less than one pose")
    return [int(v) for v in np.linspace(0, n - 1, N, dtype=int)]


def motion_filter_ids(sh, d_thr, a_thr_deg):
    if sh.n < 2:
        raise Refuse("FilterException", "fewer than two poses")
    if d_thr < 0 or a_thr_deg < 0:
        raise Refuse("FilterException", "negative threshold")
    a_thr = a_thr_deg * PI / 180.0
    seg = sh.seg()
    band_d = 1e-9 * (float(np.sum(seg)) + 1e-300)
    kept = [0]
    last, path = 0, 0.0
    for i in range(1, sh.n):
        path += float(seg[i - 1])
        ang = rm.rot_angle(sh.R[last].T @ sh.R[i])
        by_d = path >= d_thr
        by_a = ang >= a_thr
        near_d = abs(path - d_thr) <= band_d and not (d_thr == 0)
        near_a = abs(ang - a_thr) <= 1e-9 and not (a_thr == 0)
        if (near_d and not (by_a and not near_a)) or (near_a and not (by_d and not near_d)):
            raise Ambiguous("motion filter decision at a threshold")
        if by_d or by_a:
            kept.append(i)
            last, path = i, 0.0
    return kept


def associate_ids(t1, t2, max_diff, offset):
    """
    association of stamps t1 (first/reference) with t2 + offset (second/estimate):
    returns list of (i1, i2).  The shorter one drives (second when equal, as documented either
    is permitted - callers may retry with the other driver).
    """
    n1, n2 = len(t1), len(t2)
    if n1 == 0 or n2 == 0:
        raise Refuse("SyncException", "empty trajectory")
    second_drives = n2 <= n1
    A = np.asarray(t2, float) + offset if second_drives else np.asarray(t1, float)
    B = np.asarray(t1, float) if second_drives else np.asarray(t2, float) + offset
    mag = max(float(np.max(np.abs(A))), float(np.max(np.abs(B))), abs(offset), 1e-300)
    band = 8 * float(np.spacing(mag))
    # (files may list their poses out of chronological order: the nearest counterpart is searched
    # among all stamps, the result keeps the driving trajectory's own order)
    perm = None
    if np.any(np.diff(B) < 0):
        perm = np.argsort(B, kind="stable")
        B = B[perm]
    Bl = B.tolist()
    out = []  # (a, b, diff)
    for a, s in enumerate(A.tolist()):
        k = bisect.bisect_left(Bl, s)
        cands = [j for j in (k - 1, k) if 0 <= j < len(Bl)]
        diffs = sorted((abs(Bl[j] - s), j) for j in cands)
        if len(diffs) == 2 and abs(diffs[0][0] - diffs[1][0]) <= band:
            raise Ambiguous("tie between two counterparts")
        dmin, j = diffs[0]
        if abs(dmin - max_diff) <= band and max_diff > 0:
            raise Ambiguous("difference equals max_diff within rounding")
        if max_diff == 0 and 0 < dmin <= band:
            raise Ambiguous("difference within rounding of 0")
        if dmin <= max_diff:
            if any(o[1] == j for o in out[:-1]):
                # only possible when the driving stamps are not ascending: outside the documented cases
                raise Ambiguous("counterpart contested by non-neighbouring poses (unsorted stamps)")
            if out and out[-1][1] == j:
                if abs(out[-1][2] - dmin) <= band:
                    raise Ambiguous("contested counterpart at equal distance")
                if dmin < out[-1][2]:
                    out[-1] = (a, j, dmin)
                continue
            out.append((a, j, dmin))
    if not out:
        raise Refuse("SyncException", "no matching timestamps")
    if perm is not None:
        out = [(a, int(perm[b]), d) for a, b, d in out]
    return [(b, a) if second_drives else (a, b) for a, b, _ in out]


def align_similarity(est, ref, correct_scale, only_scale, n):
    """Horn alignment of est positions to ref positions on the first n pairs; returns R, t, s"""
    if n == -1:
        x, y = est.p.T, ref.p.T
    else:
        x, y = est.p[:n].T, ref.p[:n].T
    if x.shape != y.shape:
        raise Refuse("GeometryException", "unequal sizes")
    if x.shape[1] < 1:
        raise Refuse("GeometryException", "no points")
    xc = x - x.mean(axis=1)[:, None]
    yc = y - y.mean(axis=1)[:, None]
    d = np.linalg.svd((yc @ xc.T) / x.shape[1], compute_uv=False)
    if d[0] == 0 or d[1] <= 1e-9 * d[0]:
        if d[1] <= 1e-14 * d[0] or x.shape[1] < 2:
            raise Refuse("GeometryException", "degenerate")
        raise Ambiguous("nearly degenerate alignment")
    R, t, c, gap = rm.horn_alignment(x, y, correct_scale or only_scale)
    if gap < 1e-4:
        raise Ambiguous("alignment not uniquely determined")
    return R, t, c, gap


class Pipeline:
    """documented processing of evo_ape / evo_rpe on (reference, estimate)"""

    def __init__(self, ref, est, stamped):
        self.ref, self.est, self.stamped = ref, est, stamped
        self.cond = 1.0  # conditioning factor for comparisons (grows with alignment gap)
        self.align_matrix = None

    def downsample_filter(self, downsample, motion_filter):
        if downsample:
            self.ref.reduce(downsample_ids(self.ref.n, downsample))
            self.est.reduce(downsample_ids(self.est.n, downsample))
        if motion_filter:
            if not self.stamped:
                raise Refuse("FilterException", "no timestamps")
            self.ref.reduce(motion_filter_ids(self.ref, *motion_filter))
            self.est.reduce(motion_filter_ids(self.est, *motion_filter))

    def crop_and_associate(self, t_start, t_end, t_max_diff, t_offset):
        if not self.stamped:
            return
        if t_start or t_end:
            if self.ref.n == 0:
                raise Refuse("TrajectoryException", "empty")
            s = self.ref.t[0] if t_start is None else t_start
            e = self.ref.t[-1] if t_end is None else t_end
            if s > e:
                raise Refuse("TrajectoryException", "start > end")
            self.ref.crop(t_start, t_end)
        pairs = associate_ids(self.ref.t, self.est.t, t_max_diff, t_offset)
        self.ref.reduce([a for a, b in pairs])
        self.est.reduce([b for a, b in pairs])

    def align(self, align, correct_scale, n_to_align, align_origin):
        only_scale = correct_scale and not align
        M = None
        if align or correct_scale:
            R, t, s, gap = align_similarity(self.est, self.ref, correct_scale, only_scale, n_to_align)
            self.cond = max(self.cond, 1.0 / gap)
            self.est.similarity(R, t, s, only_scale=only_scale)
            M = np.eye(4)
            if only_scale:
                M[:3, :3] *= s
            else:
                M[:3, :3] = s * R
                M[:3, 3] = t
        if align_origin:
            if self.est.n == 0 or self.ref.n == 0:
                raise Refuse("TrajectoryException", "empty")
            T = rm.se3(self.ref.R[0], self.ref.p[0]) @ rm.se3_inv(rm.se3(self.est.R[0], self.est.p[0]))
            self.est.transform_left(T)
            M = T if M is None else T @ M
        self.align_matrix = M

    def project(self, plane):
        """positions only; the projected headings are adopted from evo after the C14 clauses"""
        if plane:
            nd = {"xy": 2, "xz": 1, "yz": 0}[plane]
            self.ref.project_positions(nd)
            self.est.project_positions(nd)
