"""
vmon.threads - concurrent-use monitor for evo's computing functions.

The computing functions of evo.core are called from user programs that evaluate several sequences
at once (thread pools).  A workload is a list of jobs (zero-argument callables, each working on its
own inputs).  The jobs are first run one after the other (reference outcomes), then together - one
thread per job, released by a barrier, with the interpreter's switch interval lowered so that the
threads interleave inside evo's functions - for several rounds.  Oracle: every job's outcome in
every concurrent round is bit-for-bit the outcome of its serial run (values, or the type of the
exception raised).  The monitor reports how many rounds ran and how many thread switches the
interpreter was offered (jobs x rounds), it never compares against anything but the code's own
serial answer, so it cannot disagree with code whose functions do not share hidden state.
"""
import sys
import threading

import numpy as np


def freeze(v):
    """hashable, bit-exact image of a result"""
    if isinstance(v, np.ndarray):
        return ("nd", v.dtype.str, v.shape, np.ascontiguousarray(v).tobytes())
    if isinstance(v, (np.floating, float)):
        return ("f", np.float64(v).tobytes())
    if isinstance(v, (np.integer, int, bool, np.bool_)):
        return ("i", int(v))
    if isinstance(v, (list, tuple)):
        return ("l",) + tuple(freeze(x) for x in v)
    if isinstance(v, dict):
        return ("d",) + tuple((k, freeze(x)) for k, x in sorted(v.items(), key=lambda kv: str(kv[0])))
    if v is None or isinstance(v, str):
        return ("s", v)
    return ("r", repr(v))


def outcome(job):
    try:
        return ("ok", freeze(job()))
    except Exception as e:  # evo's own refusals are outcomes as well
        return ("raised", type(e).__name__)


def run_concurrently(jobs, rounds=3, switch_interval=1e-6):
    """returns (serial outcomes, list of per-round outcome lists)"""
    serial = [outcome(j) for j in jobs]
    old = sys.getswitchinterval()
    per_round = []
    try:
        sys.setswitchinterval(switch_interval)
        for _ in range(rounds):
            res = [None] * len(jobs)
            barrier = threading.Barrier(len(jobs))

            def work(k):
                barrier.wait()
                res[k] = outcome(jobs[k])

            ths = [threading.Thread(target=work, args=(k,)) for k in range(len(jobs))]
            for t in ths:
                t.start()
            for t in ths:
                t.join()
            per_round.append(res)
    finally:
        sys.setswitchinterval(old)
    return serial, per_round


def check(run, case, jobs, what, key, rounds=3):
    serial, per_round = run_concurrently(jobs, rounds=rounds)
    bad = []
    for r, res in enumerate(per_round):
        for k, o in enumerate(res):
            if o != serial[k]:
                bad.append((r, k, serial[k][0], o[0] if o else None, o[1] if o and o[0] == "raised" else ""))
    run.hit("concurrent rounds: " + what)
    run.extra["sum_thread_rounds"] = run.extra.get("sum_thread_rounds", 0) + len(per_round)
    run.extra["sum_thread_jobs_run_concurrently"] = run.extra.get("sum_thread_jobs_run_concurrently", 0) + \
        len(per_round) * len(jobs)
    run.check(not bad, what + ": concurrent outcome equals the serial outcome", case,
              "%s: %d of %d concurrent job outcomes differ from the same job run alone (first: round %d, "
              "thread %d, serial %s, concurrent %s %s)" %
              ((what, len(bad), len(per_round) * len(jobs)) + (bad[0] if bad else (0, 0, "", "", ""))),
              key=key)
    return not bad
