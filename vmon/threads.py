"""
vmon.threads - concurrent-use monitor for evo's computing functions.

The computing functions of evo.core are called from user programs that evaluate several sequences
at once (thread pools).  A workload is a list of jobs (zero-argument callables, each working on its
own inputs).  The jobs are first run one after the other (reference outcomes), then together - one
thread per job, released by a barrier, with the interpreter's switch interval lowered so that the
threads interleave inside evo's functions - for several rounds.  Oracle: every job's outcome in
every concurrent round is bit-for-bit the outcome of its serial run (values, or the type of the
exception raised).  The monitor reports how many rounds ran and how many thread switches the
interpreter was offered (jobs x rounds), it never compares against anything but the code's own
serial answer, so it cannot disagree with code whose functions do not share hidden state.
"""
import sys
import threading

import numpy as np


def freeze(v):
    """hashable, bit-exact image of a result"""
    if isinstance(v, np.ndarray):
        return ("nd", v.dtype.str, v.shape, np.ascontiguousarray(v).tobytes())
    if isinstance(v, (np.floating, float)):
        return ("f", np.float64(v).tobytes())
    if isinstance(v, (np.integer, int, bool, np.bool_)):
        return ("i", int(v))
    if isinstance(v, (list, tuple)):
        return ("l",) + tuple(freeze(x) for x in v)
    if isinstance(v, dict):
        return ("d",) + tuple((k, freeze(x)) for k, x in sorted(v.items(), key=lambda kv: str(kv[0])))
    if v is None or isinstance(v, str):
        return ("s", v)
    return ("r", repr(v))


def outcome(job):
    try:
        return ("ok", freeze(job()))
    except Exception as e:  # evo's own refusals are outcomes as well
        return ("raised", type(e).__name__)


def run_concurrently(jobs, rounds=3, switch_interval=1e-6):
    """returns (serial outcomes, list of per-round outcome lists)"""
    serial = [outcome(j) for j in jobs]
    old = sys.getswitchinterval()
    per_round = []
    try:
        sys.setswitchinterval(switch_interval)
        for _ in range(rounds):
            res = [None] * len(jobs)
            barrier = threading.Barrier(len(jobs))

            def work(k):
                barrier.wait()
                res[k] = outcome(jobs[k])

            ths = [threading.Thread(target=work, args=(k,)) for k in range(len(jobs))]
            for t in ths:
                t.start()
            for t in ths:
                t.join()
            per_round.append(res)
    finally:
        sys.setswitchinterval(old)
    return serial, per_round


def check(run, case, jobs, what, key, rounds=3):
    serial, per_round = run_concurrently(jobs, rounds=rounds)
    bad = []
    for r, res in enumerate(per_round):
        for k, o in enumerate(res):
            if o != serial[k]:
                bad.append((r, k, serial[k][0], o[0] if o else None, o[1] if o and o[0] == "raised" else ""))
    run.hit("concurrent rounds: " + what)
    run.extra["sum_thread_rounds"] = run.extra.get("sum_thread_rounds", 0) + len(per_round)
    run.extra["sum_thread_jobs_run_concurrently"] = run.extra.get("sum_thread_jobs_run_concurrently", 0) + \
        len(per_round) * len(jobs)
    run.check(not bad, what + ": concurrent outcome equals the serial outcome", case,
              "%s: %d of %d concurrent job outcomes differ from the same job run alone (first: round %d, "
              "thread %d, serial %s, concurrent %s %s)" %
              ((what, len(bad), len(per_round) * len(jobs)) + (bad[0] if bad else (0, 0, "", "", ""))),
              key=key)
    return not bad


# ------------------------------------------------------------------ ready-made workloads
def evaluation_jobs(rng, what, k=4):
    """
    k jobs, each evaluating its own synthetic sequence with evo's API the way a thread pool over a
    data set does.  what: 'ape', 'rpe', 'umeyama', 'associate', 'filters'.
    """
    from vmon import gen
    from evo.core import metrics, sync, geometry, filters
    from evo.core.units import Unit

    def make(seed):
        r = np.random.default_rng(seed)
        n = int(r.integers(20, 120))
        a = gen.traj_arrays(r, n, stamp_cls="small")
        for i in range(1, n):
            if a["t"][i] <= a["t"][i - 1]:
                a["t"][i] = a["t"][i - 1] + 1e-3
        b = {"p": a["p"] + r.normal(size=(n, 3)) * 0.05, "R": a["R"], "t": a["t"] + 1e-4}
        mode = "se3" if r.random() < .5 else "xyzq"

        def job():
            ref, est = gen.make_evo(a, mode), gen.make_evo(b, mode)
            out = []
            if what == "umeyama":
                for ws in (False, True):
                    rr, tt, cc = geometry.umeyama_alignment(b["p"].T, a["p"].T, ws)
                    out += [rr, tt, cc]
                est.align(ref, correct_scale=True)
                out.append(est.positions_xyz)
            elif what == "associate":
                x, y = sync.associate_trajectories(ref, est, max_diff=0.01)
                out += [x.timestamps, y.timestamps, y.positions_xyz, sync.matching_time_indices(a["t"], b["t"], 0.01)]
            elif what == "filters":
                poses = ref.poses_se3
                out.append(filters.filter_by_motion(poses, 0.3, 0.2))
                ref.downsample(max(2, n // 3))
                out.append(ref.timestamps)
                est.motion_filter(0.3, 10.0, True)
                out.append(est.timestamps)
            else:
                rels = [metrics.PoseRelation.translation_part, metrics.PoseRelation.rotation_angle_rad,
                        metrics.PoseRelation.full_transformation]
                for rel in rels:
                    m = metrics.APE(rel) if what == "ape" else metrics.RPE(rel, 1.0 + (seed % 3), Unit.frames, all_pairs=bool(seed % 2))
                    m.process_data((ref, est))
                    out.append(m.error)
                    out.append(m.get_all_statistics())
            return out
        return job

    return [make(int(rng.integers(2**31))) for _ in range(k)]


def k_evaluation(what, label, key):
    """kind factory: concurrent evaluations of `what` equal the serial ones"""
    def kind(run, case):
        from vmon import core
        rng = run.rng(case)
        jobs = evaluation_jobs(rng, what)
        run.seen(case, core.digest("threads", what, case["rs"]), cls=["concurrent use: 4 threads (%s)" % what],
                 sample={"workload": what})
        with core.quiet():
            check(run, case, jobs, label, key)
    return kind
