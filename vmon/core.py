"""
vmon.core - collector, three-valued verdicts, evidence writer, seeded RNG streams,
replay (de)serialisation, known-finding classification.

A *case* is a JSON-serialisable dict {"kind": <executor name>, "rs": [ints], ...params}.
Executors (in vmon/props/Cxx.py) build their inputs deterministically from the case, run the
real evo code under monitors and report through the Run object.  A replay file is just the
case plus the witness, so `./check Cxx --replay FILE` re-executes exactly that case.
"""
import collections
import contextlib
import hashlib
import io
import json
import logging
import os
import sys
import time
import zlib
from pathlib import Path

import numpy as np

VERIF = Path(__file__).resolve().parent.parent
REPO = Path(os.environ.get("VERIF_REPO", "/repo")).resolve()
KNOWN_FILE = VERIF / "known_findings.json"

MAX_REPLAYS_PER_KEY = 3
MAX_SAMPLES = 6


# --------------------------------------------------------------------------- json helpers
def jsonable(o, _depth=0):
    """Convert numpy / misc objects into exact JSON-serialisable values (floats via repr)."""
    if _depth > 12:
        return repr(o)
    if isinstance(o, np.ndarray):
        if o.size > 4000:
            return {"__nd_summary__": list(o.shape), "dtype": str(o.dtype),
                    "crc": zlib.crc32(np.ascontiguousarray(o).tobytes()),
                    "head": jsonable(o.ravel()[:12], _depth + 1)}
        return {"__nd__": o.tolist(), "dtype": str(o.dtype)}
    if isinstance(o, (np.floating, )):
        return float(o)
    if isinstance(o, (np.integer, )):
        return int(o)
    if isinstance(o, (np.bool_, )):
        return bool(o)
    if isinstance(o, float):
        if o != o or o in (float("inf"), float("-inf")):
            return repr(o)
        return o
    if isinstance(o, (int, str, bool)) or o is None:
        return o
    if isinstance(o, bytes):
        try:
            return {"__bytes__": o.decode("utf-8")}
        except UnicodeDecodeError:
            return {"__bytes_hex__": o.hex()}
    if isinstance(o, dict):
        return {str(k): jsonable(v, _depth + 1) for k, v in o.items()}
    if isinstance(o, (list, tuple, set, frozenset)):
        return [jsonable(v, _depth + 1) for v in o]
    if isinstance(o, Path):
        return str(o)
    if hasattr(o, "value") and hasattr(o, "name") and o.__class__.__module__ != "builtins":
        return str(o)
    return repr(o)


def unjson(o):
    if isinstance(o, dict):
        if "__nd__" in o:
            return np.array(o["__nd__"], dtype=o.get("dtype", "float64"))
        if "__bytes__" in o:
            return o["__bytes__"].encode("utf-8")
        if "__bytes_hex__" in o:
            return bytes.fromhex(o["__bytes_hex__"])
        return {k: unjson(v) for k, v in o.items()}
    if isinstance(o, list):
        return [unjson(v) for v in o]
    return o


def digest(*objs) -> int:
    """64-bit content digest of arrays / scalars / strings (for counting distinct cases)."""
    h = hashlib.blake2b(digest_size=8)

    def feed(o):
        if isinstance(o, np.ndarray):
            h.update(str(o.shape).encode())
            h.update(str(o.dtype).encode())
            h.update(np.ascontiguousarray(o).tobytes())
        elif isinstance(o, (list, tuple)):
            h.update(b"[")
            for x in o:
                feed(x)
            h.update(b"]")
        elif isinstance(o, dict):
            for k in sorted(o, key=str):
                h.update(str(k).encode())
                feed(o[k])
        elif isinstance(o, bytes):
            h.update(o)
        else:
            h.update(repr(o).encode())

    for o in objs:
        feed(o)
    return int.from_bytes(h.digest(), "little")


def stable_hash(s: str) -> int:
    return zlib.crc32(s.encode("utf-8"))


# --------------------------------------------------------------------------- quiet
_QUIET_CALLS = [0]


class _Sink:
    """a stand-in for sys.stdout that only knows write() and flush()"""

    def write(self, text):
        return len(text)

    def flush(self):
        pass


class _Tty(io.StringIO):
    """a stand-in for sys.stdout that reports an interactive terminal"""

    def isatty(self):
        return True


@contextlib.contextmanager
def quiet():
    """Swallow evo's stdout/stderr chatter while a workload runs."""
    out, err = sys.stdout, sys.stderr
    _QUIET_CALLS[0] += 1
    # every fourth time the replacement is a minimal writer (write / flush only), as logging
    # frameworks and GUI consoles install them
    # ... and every fourth time an object that says it is an interactive terminal
    sys.stdout = _Sink() if _QUIET_CALLS[0] % 4 == 0 else _Tty() if _QUIET_CALLS[0] % 4 == 2 else io.StringIO()
    sys.stderr = io.StringIO()
    try:
        yield
    finally:
        sys.stdout, sys.stderr = out, err


def silence_evo_logging():
    lg = logging.getLogger("evo")
    for h in list(lg.handlers):
        lg.removeHandler(h)
    lg.addHandler(logging.NullHandler())
    lg.setLevel(logging.CRITICAL + 1)
    lg.propagate = False


# --------------------------------------------------------------------------- known findings
def load_known():
    if not KNOWN_FILE.exists():
        return {}
    data = json.loads(KNOWN_FILE.read_text())
    out = {}
    for e in data.get("findings", []):
        if e.get("status") == "known":
            out[(e["property"], e["key"])] = e
    return out


# --------------------------------------------------------------------------- Run
class Inconclusive(Exception):
    pass


class Run:
    def __init__(self, pid, tier, seed, shard=0, nshards=1):
        self.pid = pid
        self.tier = tier
        self.seed = int(seed)
        self.shard = shard
        self.nshards = nshards
        self.t0 = time.time()
        self.level = "exploration"
        self.rule = ""
        self.assumptions = []
        self.evaluations = 0
        self.digests = set()
        self.counters = collections.Counter()  # monitor / clause evaluations
        self.classes = collections.Counter()  # input-class tallies
        self.extra = {}  # free-form measured values (max merged by max, lists concatenated)
        self.samples = []
        self.violations = []  # dicts
        self.violation_counts = collections.Counter()
        self.known_hits = collections.Counter()
        self.required = []  # counter names that must be > 0
        self.inconclusive = []
        self.exhaustive = None
        self._known = load_known()
        self.replay_mode = False
        self._reported = set()

    # ---- work distribution and randomness
    def mine(self, n, start=0):
        """indices of [start, start+n) owned by this shard"""
        for i in range(start, start + n):
            if i % self.nshards == self.shard:
                yield i

    def case(self, kind, idx, **params):
        c = {"kind": kind, "rs": [self.seed, stable_hash(self.pid + ":" + kind), int(idx)]}
        c.update(params)
        return c

    @staticmethod
    def rng(case, stream=0):
        return np.random.default_rng(np.random.SeedSequence(list(case["rs"]) + [stream]))

    # ---- recording
    def seen(self, case, dig=None, nontrivial=True, cls=None, sample=None):
        """register one executed case"""
        self.evaluations += 1
        if nontrivial and dig is not None:
            self.digests.add(dig)
        if cls is not None:
            if isinstance(cls, str):
                self.classes[cls] += 1
            else:
                for c in cls:
                    self.classes[c] += 1
        if sample is not None and len(self.samples) < MAX_SAMPLES:
            self.samples.append(jsonable({"case": case, "observed": sample}))

    def hit(self, name, n=1):
        self.counters[name] += n

    def note_max(self, name, value):
        v = float(value)
        if name not in self.extra or v > self.extra[name]:
            self.extra[name] = v

    def check(self, cond, clause, case, msg="", key=None, **witness):
        """evaluate one oracle clause; returns cond"""
        self.counters[clause] += 1
        if not cond:
            self.violation(key or clause, msg or clause, case, **witness)
        return bool(cond)

    def violation(self, key, msg, case, **witness):
        k = (self.pid, key)
        if k in self._known:
            self.known_hits[key] += 1
            return
        cid = (key, json.dumps(jsonable(case), sort_keys=True))
        if cid in self._reported:
            return  # the same mechanism on the same case is reported once
        self._reported.add(cid)
        self.violation_counts[key] += 1
        if self.violation_counts[key] > MAX_REPLAYS_PER_KEY:
            return
        rec = {"property": self.pid, "key": key, "message": msg, "tier": self.tier,
               "seed": self.seed, "case": jsonable(case), "witness": jsonable(witness)}
        path = None
        if not self.replay_mode:
            d = VERIF / "replays" / self.pid
            d.mkdir(parents=True, exist_ok=True)
            name = "%s-%08x.json" % ("".join(ch if ch.isalnum() else "_" for ch in key)[:60],
                                     zlib.crc32(json.dumps(rec["case"], sort_keys=True).encode()))
            path = d / name
            path.write_text(json.dumps(rec, indent=1))
        rec["replay"] = str(path) if path else "(replay)"
        self.violations.append({"key": key, "message": msg, "replay": rec["replay"],
                                "case": rec["case"]})

    def need(self, *counter_names):
        self.required.extend(counter_names)

    # ---- shard (de)serialisation
    def partial(self):
        return {
            "evaluations": self.evaluations, "digests": sorted(self.digests),
            "counters": dict(self.counters), "classes": dict(self.classes),
            "extra": jsonable(self.extra), "samples": self.samples,
            "violations": self.violations, "violation_counts": dict(self.violation_counts),
            "known_hits": dict(self.known_hits), "required": self.required,
            "inconclusive": self.inconclusive, "level": self.level, "rule": self.rule,
            "assumptions": self.assumptions, "exhaustive": self.exhaustive,
            "line_hits": getattr(self, "line_hits", {}),
        }

    def absorb(self, p):
        self.evaluations += p["evaluations"]
        self.digests.update(p["digests"])
        self.counters.update(p["counters"])
        self.classes.update(p["classes"])
        for k, v in p["extra"].items():
            if isinstance(v, (int, float)) and not isinstance(v, bool):
                if k.startswith("sum_"):
                    self.extra[k] = self.extra.get(k, 0) + v
                elif k.startswith("min_"):
                    self.extra[k] = min(self.extra.get(k, v), v)
                else:
                    self.extra[k] = max(self.extra.get(k, v), v)
            elif isinstance(v, list):
                self.extra.setdefault(k, [])
                for x in v:
                    if x not in self.extra[k] and len(self.extra[k]) < 400:
                        self.extra[k].append(x)
            elif isinstance(v, dict):
                d = self.extra.setdefault(k, {})
                for kk, vv in v.items():
                    if isinstance(vv, (int, float)) and not isinstance(vv, bool):
                        d[kk] = d.get(kk, 0) + vv
                    else:
                        d[kk] = vv
            else:
                self.extra[k] = v
        for s in p["samples"]:
            if len(self.samples) < MAX_SAMPLES:
                self.samples.append(s)
        self.violations.extend(p["violations"])
        self.violation_counts.update(p["violation_counts"])
        self.known_hits.update(p["known_hits"])
        for r in p["required"]:
            if r not in self.required:
                self.required.append(r)
        self.inconclusive.extend(p["inconclusive"])
        self.level = p["level"]
        self.rule = p["rule"] or self.rule
        for a in p["assumptions"]:
            if a not in self.assumptions:
                self.assumptions.append(a)
        lh = getattr(self, "line_hits", None)
        if lh is None:
            lh = self.line_hits = {}
        for f, lines in p.get("line_hits", {}).items():
            lh.setdefault(f, set()).update(lines)
        if p["exhaustive"] is not None:
            self.exhaustive = p["exhaustive"] if self.exhaustive is None \
                else (self.exhaustive and p["exhaustive"])

    # ---- verdict
    def finish(self, write_evidence=True):
        for name in self.required:
            if self.counters.get(name, 0) == 0:
                self.inconclusive.append("deciding monitor '%s' was never evaluated" % name)
        if self.evaluations == 0:
            self.inconclusive.append("no case was executed")
        wall = time.time() - self.t0
        nviol = sum(self.violation_counts.values())
        cov = {
            "evaluations": int(self.evaluations),
            "distinct_nontrivial": int(len(self.digests)),
            "rule": self.rule,
            "samples": self.samples if self.samples else [],
            "monitor_evaluations": dict(sorted(self.counters.items())),
            "input_classes": dict(sorted(self.classes.items())),
            "observed": self.extra,
            "known_finding_hits": dict(self.known_hits),
            "inconclusive_reasons": self.inconclusive,
        }
        if self.exhaustive is not None:
            cov["exhaustive"] = bool(self.exhaustive)
        lh = getattr(self, "line_hits", None)
        if lh:
            reach = {}
            for f, lines in sorted(lh.items()):
                try:
                    exe = executable_lines(REPO / f)
                except Exception:
                    continue
                hit = set(lines) & exe
                miss = sorted(exe - hit)
                reach[f] = {"executable_lines": len(exe), "lines_executed_under_monitors": len(hit),
                            "not_executed": miss if len(miss) <= 60 else miss[:60] + ["... %d more" % (len(miss) - 60)]}
            cov["anchored_code_reached"] = reach
        ev = {
            "property_id": self.pid, "tier": self.tier, "seed": self.seed, "level": self.level,
            "coverage": cov, "assumptions": self.assumptions, "wall_s": round(wall, 3),
            "violations": int(nviol),
        }
        if write_evidence and not os.environ.get("VERIF_NOEVIDENCE"):
            d = VERIF / "evidence"
            d.mkdir(exist_ok=True)
            (d / (self.pid + ".json")).write_text(json.dumps(jsonable(ev), indent=1) + "\n")
        for key, n in sorted(self.known_hits.items()):
            e = self._known[(self.pid, key)]
            print("KNOWN-FINDING: property=%s %s (%d occurrences this run)" %
                  (self.pid, e["what"], n))
        printed = collections.Counter()
        for v in self.violations:
            printed[v["key"]] += 1
            if printed[v["key"]] > MAX_REPLAYS_PER_KEY:
                continue
            print("VIOLATION property=%s replay=%s" % (self.pid, v["replay"]))
            if printed[v["key"]] == 1:
                print("  [%s] %s (%d occurrence(s) of this mechanism)" %
                      (v["key"], v["message"][:600], self.violation_counts[v["key"]]))
        if nviol:
            print("%s %s: VIOLATED - %d violation(s), %d evaluations, %.1fs" %
                  (self.pid, self.tier, nviol, self.evaluations, wall))
            return 1
        if self.inconclusive:
            shown = set()
            for r in self.inconclusive:
                sig = r.split("\n")[-2] if "\n" in r else r
                if sig in shown:
                    continue
                shown.add(sig)
                print("INCONCLUSIVE property=%s reason=%s" % (self.pid, r))
            return 2
        print("%s %s: held on %d executions (%d distinct non-trivial), %d monitor "
              "evaluations, %.1fs" % (self.pid, self.tier, self.evaluations, len(self.digests),
                                      sum(self.counters.values()), wall))
        return 0


# --------------------------------------------------------------------------- line-hit evidence
class LineHits:
    """
    sys.monitoring LINE recorder restricted to the anchored evo source files of a property.
    Every location disables itself after its first hit, so the cost is negligible.  The result
    (executed line numbers per file) goes into the evidence as proof of what the workloads
    actually reached inside the code the property is anchored in.
    """
    TOOL = 4

    def __init__(self, rel_files):
        self.files = {str(REPO / f): f for f in rel_files}
        self.hits = {f: set() for f in rel_files}
        self.on = False

    def start(self):
        if not self.files:
            return
        mon = sys.monitoring
        try:
            mon.use_tool_id(self.TOOL, "vmon-linehits")
        except ValueError:
            return
        files, hits = self.files, self.hits

        def on_line(code, line):
            rel = files.get(code.co_filename)
            if rel is not None:
                hits[rel].add(line)
            return mon.DISABLE

        mon.register_callback(self.TOOL, mon.events.LINE, on_line)
        mon.set_events(self.TOOL, mon.events.LINE)
        self.on = True

    def stop(self):
        if self.on:
            sys.monitoring.set_events(self.TOOL, 0)
            sys.monitoring.free_tool_id(self.TOOL)
            self.on = False

    def result(self):
        return {f: sorted(v) for f, v in self.hits.items()}


def executable_lines(path):
    """line numbers inside function bodies that carry code (from the compiled code objects)"""
    import types
    src = Path(path).read_text()
    top = compile(src, str(path), "exec")
    out = set()
    stack = [top]
    while stack:
        co = stack.pop()
        if co.co_flags & 0x2:  # function bodies only: module / class level code runs at import time
            first = True
            for _, _, ln in co.co_lines():
                if ln is not None and ln > 0 and not (first and ln == co.co_firstlineno):
                    out.add(ln)
                first = False
        for c in co.co_consts:
            if isinstance(c, types.CodeType):
                stack.append(c)
    return out


# --------------------------------------------------------------------------- numeric helpers
def bits_equal(a, b) -> bool:
    a = np.ascontiguousarray(np.asarray(a, dtype=np.float64))
    b = np.ascontiguousarray(np.asarray(b, dtype=np.float64))
    return a.shape == b.shape and bool(np.array_equal(a.view(np.uint64), b.view(np.uint64)))


def ulp(x):
    return np.spacing(np.abs(np.asarray(x, dtype=np.float64)))


def assert_tree_under_test():
    import evo
    p = Path(evo.__file__).resolve()
    if REPO not in p.parents:
        raise Inconclusive("evo imported from %s, not from %s" % (p, REPO))
