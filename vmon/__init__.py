"""vmon - runtime monitors for the evo properties C01..C20 (see /verif/DESIGN.md)."""
