"""
C14 - Plane projection puts every pose into the plane, leaves planar poses unchanged.
Contract on PosePath3D.project with the generating arrays as pre-state; planar-input detector
by construction; 1-degree heading grids over (-180, 180] for the three planes.
"""
import math

import numpy as np

from vmon import core, gen, contracts
from vmon import refmodel as rm

ANCHORS = ['evo/core/trajectory.py']
LEVEL = "exploration"
SHARDS = {"quick": 4, "thorough": 16}
RULE = ("trajectories x planes {xy, xz, yz}: planar poses with every heading on a 1-degree grid "
        "over (-180, 180] and random headings, general 3-D poses incl. gimbal-lock attitudes; both "
        "storage modes, with/without stamps, 1..500 poses; distinct = digest of (poses, plane, "
        "storage); non-trivial = at least one pose is moved by the projection or planar with "
        "non-zero heading")
ASSUMPTIONS = ["heading of a planar pose = signed angle of its rotation about the plane normal"]
PI = math.pi
PLANES = {"xy": 2, "xz": 1, "yz": 0}


def normal(plane):
    n = np.zeros(3)
    n[PLANES[plane]] = 1.0
    return n


def check_projected(run, case, tr, arr, plane, planar_mask, headings, stamped):
    """all clauses on a trajectory after project(plane); arr = pre-state arrays"""
    nd = PLANES[plane]
    inpl = [k for k in range(3) if k != nd]
    v = contracts.views_consistent(run, case, tr, pfx="views after project")
    n = len(arr["p"])
    if not run.check(len(v["p"]) == n and len(v["T"]) == n, "project keeps the pose count", case,
                     "pose count changed from %d to %d" % (n, len(v["p"])), key="project:count"):
        return
    if stamped:
        run.check(core.bits_equal(tr.timestamps, arr["t"]), "project keeps timestamps", case,
                  "timestamps changed by project", key="project:stamps")
    run.check(bool(np.all(v["p"][:, nd] == 0.0)) and bool(np.all(v["T"][:, nd, 3] == 0.0)),
              "out-of-plane coordinate exactly zero", case,
              "out-of-plane coordinate not zero after projecting to %s (max %g)" %
              (plane, float(np.max(np.abs(v["p"][:, nd])))), key="project:out-of-plane-not-zero")
    run.check(core.bits_equal(v["p"][:, inpl], arr["p"][:, inpl]) and
              core.bits_equal(v["T"][:, inpl, 3], arr["p"][:, inpl]),
              "in-plane coordinates unchanged (bitwise)", case,
              "in-plane coordinates changed by the projection to %s" % plane,
              key="project:in-plane-changed")
    nrm = normal(plane)
    worst = 0.0
    for k in range(n):
        R = v["T"][k][:3, :3]
        worst = max(worst, rm.rot_defect(R), float(np.max(np.abs(R @ nrm - nrm))),
                    float(np.max(np.abs(nrm @ R - nrm))))
    run.note_max("max_defect_rotation_about_normal", worst)
    run.check(worst <= 1e-9, "orientation is a pure rotation about the plane normal", case,
              "an orientation is not a pure rotation about the %s-plane normal (defect %g)" %
              (plane, worst), key="project:not-about-normal")
    # planar poses must be unchanged
    for k in range(n):
        if not planar_mask[k]:
            continue
        R_before = arr["R"][k]
        R_after = v["T"][k][:3, :3]
        dev = float(np.max(np.abs(R_after - R_before)))
        run.counters["planar pose left unchanged"] += 1
        if dev <= 1e-9:
            continue
        h = headings[k]
        key = "project:planar-pose-changed"
        if plane == "xz" and abs(h) > PI / 2 + 1e-12:
            folded = math.copysign(PI - abs(h), h)
            # evo's rotation about +y by the folded angle
            Rf = rm.rodrigues(nrm, folded)
            if float(np.max(np.abs(R_after - Rf))) <= 1e-9:
                key = "project:xz-heading-folded"
        run.violation(key, "planar pose (plane %s, heading %.6f deg) came back with a different "
                      "orientation (deviation %g)" % (plane, h * 180 / PI, dev), case,
                      heading_deg=h * 180 / PI, R_before=R_before, R_after=R_after)
        if key == "project:planar-pose-changed":
            break


def planar_arrays(rng, plane, headings, stamped=True):
    n = len(headings)
    nd = PLANES[plane]
    p = gen.positions_of_class(rng, n, ["walk", "utm", "tiny", "circle"][rng.integers(4)])
    p[:, nd] = 0.0
    R = np.array([rm.rodrigues(normal(plane), h) if h != 0 else np.eye(3) for h in headings])
    t = gen.stamps_of_class(rng, n, "small")
    return {"p": p, "R": R, "t": t}


def run_project(run, case, arr, plane, mode, stamped, planar_mask, headings, preread, cls, sample):
    from evo.core.trajectory import Plane, TrajectoryException
    prng = np.random.default_rng(list(case["rs"]) + [99])
    tr = gen.make_evo(arr, mode, stamped, flavour=gen.rand_flavour(prng))
    read_before = []
    if preread:
        read_before = ["positions_xyz", "orientations_quat_wxyz", "poses_se3"]
    elif prng.random() < .5:
        # only some representations are cached when the projection happens
        read_before = [a for a in ("positions_xyz", "orientations_quat_wxyz", "poses_se3", "distances")
                       if prng.random() < .4]
    for a in read_before:
        getattr(tr, a)
    cls = list(cls) + ["read before: " + ("+".join(x.split("_")[0] for x in read_before) or "nothing")]
    out = contracts.outcome_of(tr.project, Plane(plane))
    moved = bool(np.any(arr["p"][:, PLANES[plane]] != 0)) or bool(np.any(np.abs(headings) > 0))
    run.seen(case, core.digest(arr["p"], arr["R"], plane, mode, stamped), nontrivial=moved, cls=cls,
             sample=sample)
    if not run.check(out[0] == "ok", "project succeeds", case, "project raised %r" % (out[1], ),
                     key="project:raised"):
        return
    check_projected(run, case, tr, arr, plane, planar_mask, headings, stamped)
    # whatever happens to the object afterwards, a second projection stays refused
    between = []
    for _ in range(int(prng.integers(0, 4))):
        op = ["transform", "transform_right", "scale", "reduce", "read", "align_origin", "align", "downsample"][prng.integers(8)]
        between.append(op)
        try:
            if op == "transform":
                tr.transform(gen.rand_se3(prng, 2.0))
            elif op == "transform_right":
                tr.transform(gen.rand_se3(prng, 2.0), right_mul=True, propagate=bool(prng.random() < .5))
            elif op == "scale":
                tr.scale(1.5)
            elif op == "reduce" and tr.num_poses > 1:
                tr.reduce_to_ids(list(range(0, tr.num_poses, 2)))
            elif op == "read":
                gen.age(prng, tr, p=1.0)
            elif op in ("align_origin", "align") and tr.num_poses >= 3:
                ref = gen.make_evo(gen.traj_arrays(prng, tr.num_poses, stamp_cls="small"), "se3", stamped)
                tr.align_origin(ref) if op == "align_origin" else tr.align(ref, correct_scale=bool(prng.random() < .5))
            elif op == "downsample":
                tr.downsample(max(1, tr.num_poses - 1))
        except Exception:
            pass
    run.extra.setdefault("ops_between_projections", {})
    for op in between or ["(none)"]:
        run.extra["ops_between_projections"][op] = run.extra["ops_between_projections"].get(op, 0) + 1
    out2 = contracts.outcome_of(tr.project, Plane(plane if case["rs"][-1] % 2 else
                                                  ["xy", "xz", "yz"][case["rs"][-1] % 3]))
    run.check(out2[0] == "exc" and isinstance(out2[1], TrajectoryException),
              "second projection refused", case, "a second projection (after %s) was not refused: %r" % (between or "nothing", out2[1]),
              key="project:second-accepted")


def k_grid(run, case):
    rng = run.rng(case)
    plane = case["plane"]
    mode = case["mode"]
    degs = np.arange(-179, 181)
    if case.get("shuffle"):
        degs = rng.permutation(degs)
    headings = degs * PI / 180.0
    arr = planar_arrays(rng, plane, headings)
    run_project(run, case, arr, plane, mode, case["stamped"], [True] * len(headings), headings,
                case.get("preread", False), ["grid 1deg:" + plane, "storage:" + mode],
                {"plane": plane, "mode": mode, "headings": "every degree in (-180, 180]"})


def k_planar(run, case):
    rng = run.rng(case)
    plane = list(PLANES)[rng.integers(3)]
    n = int(rng.integers(1, {"quick": 80, "thorough": 500}[run.tier]))
    hs = []
    for _ in range(n):
        u = rng.random()
        if u < .6:
            hs.append(rng.uniform(-PI, PI))
        elif u < .8:
            hs.append([0.0, PI, PI / 2, -PI / 2, PI - 1e-9, -PI + 1e-9, 1e-12, -1e-12, PI / 2 + 1e-9,
                       PI / 2 - 1e-9][rng.integers(10)])
        else:
            hs.append(rng.integers(-179, 181) * PI / 180)
    headings = np.array(hs)
    arr = planar_arrays(rng, plane, headings)
    mode = "se3" if rng.random() < .5 else "xyzq"
    stamped = bool(rng.random() < .6)
    run_project(run, case, arr, plane, mode, stamped, [True] * n, headings, bool(rng.random() < .4),
                ["planar random:" + plane, "storage:" + mode],
                {"plane": plane, "n": n, "mode": mode, "headings_deg_head": headings[:5] * 180 / PI})


def k_general(run, case):
    rng = run.rng(case)
    plane = list(PLANES)[rng.integers(3)]
    n = int(rng.integers(1, {"quick": 80, "thorough": 500}[run.tier]))
    arr = gen.traj_arrays(rng, n, stamp_cls="small")
    # mix in gimbal-lock attitudes (pitch = +-90 deg in the sxyz sequence) and planar poses
    planar = [False] * n
    headings = np.zeros(n)
    for k in range(n):
        u = rng.random()
        if u < .15:
            pitch = PI / 2 if rng.random() < .5 else -PI / 2
            arr["R"][k] = rm.rodrigues([0, 0, 1], rng.uniform(-PI, PI)) @ rm.rodrigues([0, 1, 0], pitch) \
                @ rm.rodrigues([1, 0, 0], rng.uniform(-PI, PI))
        elif u < .3:
            h = rng.uniform(-PI, PI)
            arr["R"][k] = rm.rodrigues(normal(plane), h)
            arr["p"][k, PLANES[plane]] = 0.0
            planar[k] = True
            headings[k] = h
    u = rng.random()
    sub = "general 3-D"
    if u < .2:  # ground-vehicle like: positions already in the plane, attitudes with roll/pitch
        arr["p"][:, PLANES[plane]] = 0.0
        sub = "in-plane positions, 3-D attitudes"
    elif u < .35:  # nearly in the plane: tiny out-of-plane offsets must still be zeroed exactly
        arr["p"][:, PLANES[plane]] = rng.normal(size=n) * 10.0**rng.uniform(-12, -7)
        sub = "tiny out-of-plane offsets"
    mode = "se3" if rng.random() < .5 else "xyzq"
    if rng.random() < .12:
        # positions exactly in the plane, every attitude a rotation about ONE principal axis (or the
        # identity) given by a quaternion with exact zeros - about the normal (planar poses) or
        # about an in-plane axis (pitching / rolling on the spot)
        ax = int(rng.integers(3))
        e = np.zeros(3)
        e[ax] = 1.0
        arr["p"][:, PLANES[plane]] = 0.0
        q = np.zeros((n, 4))
        for k in range(n):
            a = 0.0 if rng.random() < .2 else float(rng.uniform(-PI, PI))
            q[k] = [math.cos(a / 2)] + list(e * math.sin(a / 2))
            planar[k] = ax == PLANES[plane]
            headings[k] = a if planar[k] else 0.0
        arr = dict(arr, q=q, R=np.array([rm.rot_from_quat_wxyz(qk) for qk in q]))
        sub = "in-plane positions, attitudes about the %s axis" % "xyz"[ax]
        mode = "xyzq" if rng.random() < .7 else mode
    if "q" not in arr and rng.random() < .08:
        # position fixes without orientation: all-zero quaternion rows (evo reads them as "no rotation")
        mode = "xyzq"
        q = gen.quats_of(arr["R"])
        R = np.array(arr["R"], copy=True)
        for k in range(n):
            if rng.random() < .3:
                q[k] = 0.0
                R[k] = np.eye(3)
                planar[k] = bool(arr["p"][k, PLANES[plane]] == 0.0)
                headings[k] = 0.0
        arr = dict(arr, q=q, R=R)
        sub += " + null quaternions"
    stamped = bool(rng.random() < .6)
    run_project(run, case, arr, plane, mode, stamped, planar, headings, bool(rng.random() < .4),
                [sub + ":" + plane, "storage:" + mode],
                {"plane": plane, "n": n, "mode": mode, "classes": arr["cls"]})


def k_derived(run, case):
    """
    One source trajectory, several objects derived from it (deep copies, synchronised copies
    from sync.associate_trajectories, split parts), each projected onto a different plane - the
    usual "one reference, one evaluation per plane" loop.  Every projection is judged against the
    source's generating arrays: a projection of one derived object must not leak into the next.
    """
    import copy
    from evo.core import sync
    from evo.core.trajectory import Plane
    rng = run.rng(case)
    n = int(rng.integers(4, 50))
    arr = gen.traj_arrays(rng, n, stamp_cls="small")
    for k in range(1, n):
        if arr["t"][k] <= arr["t"][k - 1]:
            arr["t"][k] = arr["t"][k - 1] + 1e-3
    mode = "se3" if rng.random() < .6 else "xyzq"
    shared_meta = {"frame_id": "odom"}  # one dictionary of the caller handed to every constructor
    src = gen.make_evo(arr, mode, True, flavour=gen.rand_flavour(rng), meta=shared_meta)
    aged = gen.age(rng, src, p=.8)
    planes = list(rng.permutation(list(PLANES)))[:int(rng.integers(2, 4))]
    hows = []
    siblings = bool(rng.random() < .25)
    for plane in planes:
        how = ["deepcopy", "associate_first", "associate_second", "split"][rng.integers(4)]
        if siblings:
            how = "sibling"
        hows.append(how + ">" + plane)
        ids = list(range(n))
        if how == "deepcopy":
            d = copy.deepcopy(src)
        elif how == "sibling":
            # built from the same numbers with the same metadata dictionary (reference and estimates
            # of one experiment)
            d = gen.make_evo(arr, "se3" if rng.random() < .5 else "xyzq", True, meta=shared_meta)
        elif how == "split":
            d = src.split_time_gaps(1e12)[0]
        else:
            keep = np.nonzero(rng.random(n) < .7)[0]
            keep = keep if len(keep) >= 2 else np.arange(n)
            partner = gen.make_evo({k: (v[keep] if isinstance(v, np.ndarray) else v)
                                    for k, v in gen.traj_arrays(rng, n, stamp_cls="small").items() if k != "t"} |
                                   {"t": arr["t"][keep]}, "xyzq", True)
            with core.quiet():
                a, b = sync.associate_trajectories(src, partner, 1e-4) if how == "associate_first" else \
                    sync.associate_trajectories(partner, src, 1e-4)[::-1]
            d, ids = a, [int(k) for k in keep]
        sub = {k: (v[ids] if isinstance(v, np.ndarray) else v) for k, v in arr.items()}
        if rng.random() < .3:
            gen.age(rng, d, p=1.0)
        out = contracts.outcome_of(d.project, Plane(plane))
        if not run.check(out[0] == "ok", "project of a derived object succeeds", case,
                         "project(%s) of an object derived by %s raised %r" % (plane, how, out[1]), key="project:raised"):
            break
        check_projected(run, case, d, sub, plane, [False] * len(ids), np.zeros(len(ids)), True)
        run.hit("projections of objects derived from one source judged")
    run.seen(case, core.digest(arr["p"], arr["R"], hows, mode), cls=["derived objects of one source projected onto %d planes" % len(planes),
                                                                  "source storage:" + mode],
             sample={"n": n, "derivations": hows, "source read before": aged})


def k_api(run, case):
    """
    Projection requested through main_ape.ape / main_rpe.rpe (which project the objects they are
    given in place): both trajectories come back projected - whether the estimate differs from
    the reference, equals it numerically (a copy), or is the very same object.
    """
    import copy
    from evo import main_ape, main_rpe
    from evo.core import metrics
    from evo.core.trajectory import Plane
    from evo.core.units import Unit
    rng = run.rng(case)
    plane = list(PLANES)[rng.integers(3)]
    n = int(rng.integers(3, 40))
    arr = gen.traj_arrays(rng, n, stamp_cls="small")
    stamped = bool(rng.random() < .6)
    ref = gen.make_evo(arr, "se3" if rng.random() < .5 else "xyzq", stamped, flavour=gen.rand_flavour(rng))
    rel = ["distinct", "equal copy", "nearly equal", "built from the same arrays"][rng.integers(4)]
    if rel == "distinct":
        earr = gen.perturbed_estimate(rng, arr, hostile=False)
    elif rel == "nearly equal":
        earr = dict(arr, p=arr["p"] + rng.normal(size=arr["p"].shape) * 1e-9 * (1 + np.abs(arr["p"])))
    else:
        earr = arr
    est = copy.deepcopy(ref) if rel == "equal copy" else gen.make_evo(earr, "se3" if rng.random() < .5 else "xyzq", stamped)
    tool = "ape" if rng.random() < .5 else "rpe"
    with core.quiet():
        if tool == "ape":
            out = contracts.outcome_of(main_ape.ape, ref, est, metrics.PoseRelation.translation_part,
                                       project_to_plane=Plane(plane))
        else:
            out = contracts.outcome_of(main_rpe.rpe, ref, est, metrics.PoseRelation.translation_part, 1.0, Unit.frames,
                                       project_to_plane=Plane(plane), support_loop=True)
    run.seen(case, core.digest(arr["p"], arr["R"], plane, rel, tool), cls=["projection via main_%s: estimate %s" % (tool, rel)],
             sample={"n": n, "plane": plane, "estimate": rel, "tool": tool, "outcome": out[0]})
    if not run.check(out[0] == "ok", "evaluation with projection succeeds", case,
                     "main_%s with project_to_plane raised %r" % (tool, out[1]), key="project:raised"):
        return
    check_projected(run, case, ref, arr, plane, [False] * n, np.zeros(n), stamped)
    check_projected(run, case, est, earr, plane, [False] * n, np.zeros(n), stamped)
    run.hit("projections requested through ape()/rpe() judged")


def k_cli(run, case):
    """
    --project_to_plane end to end through evo_traj, combined with the other processing options
    (down-sampling, motion filter, merge, alignment ...): the exported trajectories must be
    projected (C15's workload executor and export oracle: zero out-of-plane coordinate, in-plane
    coordinates of the processed poses, orientations about the normal).
    """
    from vmon.props import C15
    C15.k_cli(run, case)
    run.hit("evo_traj runs with --project_to_plane judged")


KINDS = {"grid": k_grid, "planar": k_planar, "general": k_general, "derived": k_derived, "cli": k_cli, "api": k_api}


def main(run):
    grid = [{"plane": pl, "mode": m, "stamped": st, "preread": pr, "shuffle": sh}
            for pl in PLANES for m in ("se3", "xyzq") for st in (True, False)
            for pr, sh in ((False, False), (True, True))]
    for i in run.mine(len(grid)):
        k_grid(run, run.case("grid", i, **grid[i]))
    n = {"quick": 700, "thorough": 12000}[run.tier]
    for i in run.mine(n):
        k_planar(run, run.case("planar", i))
    for i in run.mine(n):
        k_general(run, run.case("general", i))
    for i in run.mine(n // 3):
        k_derived(run, run.case("derived", i))
    for i in run.mine(n // 3):
        k_api(run, run.case("api", i))
    for i in run.mine({"quick": 90, "thorough": 2000}[run.tier]):
        k_cli(run, run.case("cli", i, force={"plane": True, "downsample": i % 4 == 0, "motion_filter": i % 4 == 1,
                                             "merge": i % 4 == 2}))
    run.need("projections requested through ape()/rpe() judged", "evo_traj runs with --project_to_plane judged", "projections of objects derived from one source judged", "out-of-plane coordinate exactly zero", "in-plane coordinates unchanged (bitwise)",
             "orientation is a pure rotation about the plane normal", "planar pose left unchanged",
             "second projection refused", "project keeps timestamps")
