"""
C10 - RPE pair selection returns exactly the pairs that realise the requested delta.
Clause checkers over evo's own returned pair lists (filters.filter_pairs_by_index / _by_path /
_by_angle and metrics.id_pairs_from_delta); path lengths and angles are recomputed
independently.  Bounded-exhaustive small exact grids (tol = 0 for path lengths) plus random
sequences with a rounding band.
"""
import itertools
import os
import math

import numpy as np

from vmon import core, gen, contracts
from vmon import refmodel as rm

ANCHORS = ['evo/core/filters.py', 'evo/core/metrics.py', 'evo/core/geometry.py']
LEVEL = "exploration"
SHARDS = {"quick": 8, "thorough": 16}
RULE = ("bounded-exhaustive exact grids (all step sequences in {0..3}^(n-1), n = 2..6 quick / 2..8 "
        "thorough, rotations in multiples of pi/8, every delta/tolerance on the grid) plus random "
        "sequences x unit x mode; distinct = digest of (poses, unit, delta, tolerance, mode); "
        "non-trivial = at least one pair selected or a refusal expected")
ASSUMPTIONS = ["path lengths on integer grids are exact in float64",
               "angle comparisons are three-valued within 1e-9 rad of the band edges"]
PI = math.pi


def poses_from(p, R):
    return [rm.se3(Rk, pk) for Rk, pk in zip(R, p)]


def check_range(run, case, pairs, n, what):
    ok = all(isinstance(i, (int, np.integer)) and isinstance(j, (int, np.integer)) and
             0 <= i < j < n for i, j in pairs)
    return run.check(ok, "pairs satisfy 0 <= i < j < N", case,
                     "%s returned a pair outside 0 <= i < j < %d: %s" % (what, n, pairs[:8]),
                     key="pairs:range")


def check_frames(run, case, pairs, n, delta, all_pairs):
    if all_pairs:
        want = [(i, i + delta) for i in range(n) if i + delta < n]
    else:
        want = [(k, k + delta) for k in range(0, n, delta) if k + delta < n]
    run.check([tuple(map(int, p)) for p in pairs] == want, "frames: exactly the delta pairs", case,
              "frames delta=%d all_pairs=%s: got %s expected %s" % (delta, all_pairs, pairs[:8], want[:8]),
              key="frames:wrong-pairs")
    return want


def cum(seg):
    c = [0.0]
    for s in seg:
        c.append(c[-1] + float(s))
    return c


def check_consecutive(run, case, pairs, seg, delta, band, what, key):
    """chain clauses for a consecutive selection by accumulated cost `seg` (per step)"""
    n = len(seg) + 1

    def cost(i, j):
        return math.fsum(seg[i:j])

    # first pose reaching delta from the beginning
    f = None
    acc = 0.0
    for k in range(1, n):
        acc += float(seg[k - 1])
        if acc >= delta + band:
            f = k
            break
    if not pairs:
        certain = f is not None and cost(f, n - 1) >= delta + band
        run.check(not certain, what + ": empty only if nothing reaches delta", case,
                  "%s: no pair selected although from pose %s the remaining path %r reaches "
                  "delta=%r" % (what, f, cost(f, n - 1) if f is not None else None, delta),
                  key=key + ":missing-pairs")
        return
    chain = all(pairs[k + 1][0] == pairs[k][1] for k in range(len(pairs) - 1))
    run.check(chain, what + ": pairs form a chain", case,
              "%s: pairs are not a chain: %s" % (what, pairs[:8]), key=key + ":not-chain")
    for (i, j) in pairs:
        c_full = cost(i, j)
        c_prev = cost(i, j - 1)
        run.counters[what + ": j is the first pose reaching delta since i"] += 1
        if not (c_full >= delta - band):
            run.violation(key + ":pair-below-delta", "%s: pair (%d,%d) covers only %r < delta=%r" %
                          (what, i, j, c_full, delta), case)
            return
        if not (c_prev < delta + band):
            run.violation(key + ":j-not-first", "%s: pair (%d,%d): pose %d already reaches delta "
                          "(%r >= %r)" % (what, i, j, j - 1, c_prev, delta), case)
            return
        if c_full == delta:
            run.hit(what + ": delta hit exactly by a selected pair")
    i0 = pairs[0][0]
    if f is not None:
        run.check(i0 <= f, what + ": starts no later than the first pose reaching delta", case,
                  "%s: chain starts at %d, later than pose %d which first reaches delta" %
                  (what, i0, f), key=key + ":late-start")
    jl = pairs[-1][1]
    rest = cost(jl, n - 1)
    run.check(rest < delta + band, what + ": continues to the end",
              case, "%s: chain stops at %d although the remaining path %r reaches delta=%r" %
              (what, jl, rest, delta), key=key + ":early-stop")


def check_all_pairs_path(run, case, pairs, seg, delta, tol, band):
    n = len(seg) + 1
    c = cum(seg)
    firsts = [p[0] for p in pairs]
    run.check(len(set(firsts)) == len(firsts) and firsts == sorted(firsts),
              "all-pairs path: each start reported once", case,
              "a start index is reported more than once / out of order: %s" % firsts[:10],
              key="allpairs-path:duplicate-start")
    have = dict((int(i), int(j)) for i, j in pairs)
    for i in range(n - 1):
        devs = [abs((c[j] - c[i]) - delta) for j in range(i + 1, n)]
        best = min(devs)
        if i in have:
            j = have[i]
            dev = abs((c[j] - c[i]) - delta)
            run.counters["all-pairs path: |path - delta| <= tolerance and j closest"] += 1
            if not (dev <= tol + band):
                run.violation("allpairs-path:outside-tolerance", "pair (%d,%d): |path-delta| = %r "
                              "> tolerance %r" % (i, j, dev, tol), case)
                return
            if not (dev <= best + band):
                run.violation("allpairs-path:not-closest", "pair (%d,%d): pose %d is not the closest "
                              "to delta (%r vs best %r)" % (i, j, j, dev, best), case)
                return
            if dev == tol:
                run.hit("all-pairs path: tolerance hit exactly by a selected pair")
        else:
            run.counters["all-pairs path: start without admissible end is absent"] += 1
            if best <= tol - band:
                if True:
                    run.violation("allpairs-path:missing-start", "start %d has an end pose within "
                                  "tolerance (deviation %r <= %r) but is not reported" %
                                  (i, best, tol), case)
                    return


def check_all_pairs_angle(run, case, pairs, R, delta, tol, band=1e-9):
    n = len(R)
    have = set((int(i), int(j)) for i, j in pairs)
    run.check(len(have) == len(pairs), "all-pairs angle: no duplicates", case,
              "duplicate pairs returned", key="allpairs-angle:duplicates")
    lo, hi = delta - tol, delta + tol
    if n > 200:
        # the same oracle, one start pose at a time (vectorised over the end poses)
        R = np.asarray(R, dtype=float)
        member = np.zeros((n, n), dtype=bool)
        for (i, j) in have:
            if 0 <= i < n and 0 <= j < n:
                member[i, j] = True
        for i in range(n - 1):
            M = np.einsum("ab,nac->nbc", R[i], R[i + 1:])  # R_i^T R_j
            sn = 0.5 * np.sqrt((M[:, 2, 1] - M[:, 1, 2])**2 + (M[:, 0, 2] - M[:, 2, 0])**2 + (M[:, 1, 0] - M[:, 0, 1])**2)
            a = np.arctan2(sn, 0.5 * (M[:, 0, 0] + M[:, 1, 1] + M[:, 2, 2] - 1.0))
            got = member[i, i + 1:]
            run.counters["all-pairs angle: returned pair lies in the band"] += int(np.sum(got))
            run.counters["all-pairs angle: absent pair lies outside the band"] += int(np.sum(~got))
            bad_in = got & ((a < lo - band) | (a > hi + band))
            bad_out = ~got & (a > lo + band) & (a < hi - band)
            if np.any(bad_in):
                j = i + 1 + int(np.argmax(bad_in))
                run.violation("allpairs-angle:outside-band", "pair (%d,%d) has relative angle %r outside "
                              "[%r, %r]" % (i, j, float(a[j - i - 1]), lo, hi), case)
                return
            if np.any(bad_out):
                j = i + 1 + int(np.argmax(bad_out))
                run.violation("allpairs-angle:missing-pair", "pair (%d,%d) with relative angle %r inside "
                              "[%r, %r] is missing" % (i, j, float(a[j - i - 1]), lo, hi), case)
                return
        return
    for i in range(n - 1):
        for j in range(i + 1, n):
            a = rm.rot_angle(R[i].T @ R[j])
            inside = (lo + band < a < hi - band)
            outside = (a < lo - band) or (a > hi + band)
            if (i, j) in have:
                run.counters["all-pairs angle: returned pair lies in the band"] += 1
                if outside:
                    run.violation("allpairs-angle:outside-band", "pair (%d,%d) has relative angle %r "
                                  "outside [%r, %r]" % (i, j, a, lo, hi), case)
                    return
            else:
                run.counters["all-pairs angle: absent pair lies outside the band"] += 1
                if inside:
                    run.violation("allpairs-angle:missing-pair", "pair (%d,%d) with relative angle %r "
                                  "inside [%r, %r] is missing" % (i, j, a, lo, hi), case)
                    return


def run_selection(run, case, p, R, unit, delta, rel_tol, all_pairs, exact, via):
    """execute evo's selector on the poses and judge the result"""
    from evo.core import filters, metrics
    from evo.core.units import Unit
    from evo.core.filters import FilterException
    poses = poses_from(p, R)
    n = len(poses)
    if (len(p) + int(delta * 7)) % 5 == 0:
        poses = np.stack(poses)  # the pose sequence handed over as one N x 4 x 4 array
    snapshot = [P.copy() for P in poses]
    if unit in "rd" and (n + int(delta * 11)) % 6 == 0:
        # earlier in the same process the user looked at the per-frame increments, in the other unit
        from evo.core import lie_algebra as _lie
        for k in range(min(n - 1, 400)):
            _lie.so3_log_angle(_lie.relative_so3(poses[k][:3, :3], poses[k + 1][:3, :3]), degrees=(unit == "r"))
        run.hit("per-frame increments queried in the other angle unit before the selection")
    U = {"f": Unit.frames, "m": Unit.meters, "r": Unit.radians, "d": Unit.degrees}[unit]
    # the mode flag as callers spell it: Python bool, numpy bool (result of a comparison), 0 / 1
    flag = [bool(all_pairs), np.bool_(all_pairs), int(all_pairs)][(n + int(delta * 3)) % 3]
    if unit == "f" and via == "metrics":
        # the frame delta as callers spell it (the signature says float, RPE's own default is 1.0)
        delta = [int(delta), float(delta), np.float64(delta), np.int64(delta)][(n + int(delta)) % 4]
    with core.quiet():
        if via == "metrics":
            out = contracts.outcome_of(metrics.id_pairs_from_delta, poses, delta, U, rel_tol, flag)
        elif unit == "f":
            out = contracts.outcome_of(filters.filter_pairs_by_index, poses, int(delta), flag)
        elif unit == "m":
            out = contracts.outcome_of(filters.filter_pairs_by_path, poses, delta, delta * rel_tol, flag)
        else:
            out = contracts.outcome_of(filters.filter_pairs_by_angle, poses, delta, delta * rel_tol,
                                       unit == "d", flag)
    run.check(all(np.array_equal(a, b) for a, b in zip(snapshot, poses)), "poses unmodified", case,
              "pair selection modified the pose list", key="pairs:input-modified")
    label = "%s %s" % ({"f": "frames", "m": "meters", "r": "radians", "d": "degrees"}[unit],
                       "all_pairs" if all_pairs else "consecutive")
    if out[0] == "exc":
        if not run.check(isinstance(out[1], FilterException), "only FilterException", case,
                         "%s raised %r" % (label, out[1]), key="pairs:wrong-exception"):
            return None
        if via != "metrics":
            # the low-level filters only raise for an out-of-range angle delta
            d_rad = delta * PI / 180 if unit == "d" else delta
            run.check(unit in "rd" and (d_rad > PI + 1e-12 or d_rad < 0), "low-level filter raises "
                      "only for out-of-range angle", case, "%s raised %r" % (label, out[1]),
                      key="pairs:unexpected-refusal")
            return None
        pairs = []
        refused = True
    else:
        pairs = [(int(i), int(j)) for i, j in out[1]]
        refused = False
        if via == "metrics":
            run.check(len(pairs) > 0, "empty selection raises FilterException", case,
                      "%s: empty selection returned instead of FilterException" % label,
                      key="pairs:empty-not-raised")
    if not check_range(run, case, pairs, n, label):
        return None
    seg_len = np.linalg.norm(np.diff(p, axis=0), axis=1) if n > 1 else np.zeros(0)
    if unit == "f":
        want = check_frames(run, case, pairs, n, int(delta), all_pairs)
        if refused:
            run.check(not want, "refusal only when no pair exists", case,
                      "%s refused although pairs exist" % label, key="pairs:false-refusal")
    elif unit == "m":
        band = 0.0 if exact else 1e-9 * (float(np.sum(seg_len)) + float(np.max(np.abs(p))) + 1e-300)
        if all_pairs:
            check_all_pairs_path(run, case, pairs, seg_len, delta, delta * rel_tol, band)
        else:
            check_consecutive(run, case, pairs, seg_len, delta, band, "meters consecutive", "consec-path")
    else:
        d_rad = delta * PI / 180 if unit == "d" else delta
        if refused and (d_rad > PI):
            run.hit("angle delta > pi refused")
            return pairs
        if all_pairs:
            check_all_pairs_angle(run, case, pairs, R, d_rad, d_rad * rel_tol)
        else:
            seg_ang = [rm.rot_angle(R[k].T @ R[k + 1]) for k in range(n - 1)]
            check_consecutive(run, case, pairs, seg_ang, d_rad, case.get("band", 1e-9), "angle consecutive", "consec-angle")
    if refused:
        run.hit("refusals (FilterException) observed")
    return pairs


def grid_case_to_arrays(steps, rots):
    n = len(steps) + 1
    p = np.zeros((n, 3))
    p[1:, 0] = np.cumsum(steps)
    k = np.concatenate([[0], np.cumsum(rots)])
    R = np.array([rm.rodrigues([0, 0, 1], kk * PI / 8) if kk % 16 else np.eye(3) for kk in k])
    return p, R


def k_grid(run, case):
    """one exhaustive block: all step sequences of a given length chunk"""
    n = case["n"]
    seqs = list(itertools.product(range(4), repeat=n - 1))
    lo, hi = case["lo"], min(case["hi"], len(seqs))
    for s_i in range(lo, hi):
        steps = seqs[s_i]
        rots = seqs[(s_i * 7 + 3) % len(seqs)]  # a different sequence for the rotation increments
        p, R = grid_case_to_arrays(steps, rots)
        total = int(sum(steps))
        subcase = dict(case, steps=list(steps), rots=list(rots))
        for all_pairs in (False, True):
            for delta in range(1, min(total + 2, 8)):
                for rel_tol in ((0.0, 0.5, 1.0) if all_pairs else (0.1, )):
                    c = dict(subcase, unit="m", delta=float(delta), rel_tol=rel_tol, all_pairs=all_pairs)
                    pairs = run_selection(run, c, p, R, "m", float(delta), rel_tol, all_pairs, True,
                                          "metrics" if (s_i + delta) % 2 else "filters")
                    run.seen(c, core.digest(steps, "m", delta, rel_tol, all_pairs),
                             nontrivial=bool(pairs), cls=["grid:meters " + ("all_pairs" if all_pairs else "consecutive")])
            for delta in range(1, n + 1):
                c = dict(subcase, unit="f", delta=delta, all_pairs=all_pairs)
                if s_i % 16 == 0:  # frames do not depend on the geometry
                    pairs = run_selection(run, c, p, R, "f", delta, 0.1, all_pairs, True,
                                          "metrics" if delta % 2 else "filters")
                    run.seen(c, core.digest(n, "f", delta, all_pairs), nontrivial=bool(pairs),
                             cls=["grid:frames " + ("all_pairs" if all_pairs else "consecutive")])
            for dk in (1, 2, 3, 5):
                for rel_tol in ((0.0, 0.26, 0.6) if all_pairs else (0.1, )):
                    unit = "d" if (s_i + dk) % 2 else "r"
                    delta = dk * 22.5 if unit == "d" else dk * PI / 8
                    c = dict(subcase, unit=unit, delta=delta, rel_tol=rel_tol, all_pairs=all_pairs)
                    pairs = run_selection(run, c, p, R, unit, delta, rel_tol, all_pairs, True,
                                          "metrics" if (s_i + dk) % 3 else "filters")
                    run.seen(c, core.digest(rots, unit, dk, rel_tol, all_pairs), nontrivial=bool(pairs),
                             cls=["grid:angle " + ("all_pairs" if all_pairs else "consecutive")])


def k_replay_grid(run, case):
    """replay of a single grid selection (the case carries steps/rots/unit/...)"""
    p, R = grid_case_to_arrays(case["steps"], case["rots"])
    run_selection(run, case, p, R, case["unit"], case["delta"], case.get("rel_tol", 0.1),
                  case["all_pairs"], True, "metrics")
    run_selection(run, case, p, R, case["unit"], case["delta"], case.get("rel_tol", 0.1),
                  case["all_pairs"], True, "filters")
    run.seen(case, core.digest(case["steps"]))


def k_random(run, case):
    rng = run.rng(case)
    unit = case.get("unit") or "fmrd"[rng.integers(4)]
    all_pairs = bool(rng.random() < .5)
    if "all_pairs" in case:
        all_pairs = bool(case["all_pairs"])
    nmax = {"quick": 150, "thorough": 1200}[run.tier]
    n = int(rng.integers(2, 12) if rng.random() < .3 else rng.integers(2, nmax + 1))
    if unit in "rd" and all_pairs:
        n = min(n, 300)
    if case.get("big"):
        n = int(rng.integers(1030, 1500)) if (unit in "rd" and all_pairs) else int(rng.integers(1030, 3000))
    if case.get("huge"):
        # a long geo-referenced log: 10^4 poses and more, decimetre steps in map (UTM-like) coordinates
        n = int(rng.integers(10000, 12500))
        p = np.array([4.5e5, 5.4e6, 300.0]) + np.cumsum(rng.normal(size=(n, 3)) * 0.1, axis=0)
        case = dict(case, huge_p=p)
    arr = gen.traj_arrays(rng, n, stamp_cls="index") if not case.get("big") else \
        gen.traj_arrays(rng, n, pos_cls=["walk", "circle"][rng.integers(2)], rot_cls=["smooth", "uniform"][rng.integers(2)],
                        stamp_cls="index")
    p, R = arr["p"], arr["R"]
    if case.get("huge"):
        p = case.pop("huge_p")
    if case.get("nano"):
        # a slowly turning platform sampled at a high rate: a few nano-radians per frame about a
        # fixed axis (the relative angles are resolved to ~1e-16 rad, the oracle's band is 1e-13)
        axis = gen.rand_axis(rng)
        inc = rng.uniform(1e-9, 8e-9, size=n)
        R = np.array([rm.rodrigues(axis, float(th)) for th in np.cumsum(inc)])
        case = dict(case, band=1e-13)
    if case.get("halfturn"):
        # a platform that flips over between frames: every step is almost (not exactly) a half turn,
        # pi - x with x between 1e-7 and 3e-3, about its own axis
        steps = [rm.rodrigues(gen.rand_axis(rng), PI - 10.0**rng.uniform(-7, -2.5)) for _ in range(n)]
        R = [steps[0]]
        for k in range(1, n):
            R.append(R[-1] @ steps[k])
        R = np.array(R)
    seg = np.linalg.norm(np.diff(p, axis=0), axis=1)
    if unit == "f":
        delta = int(rng.integers(1, n + 2)) if rng.random() < .85 else int(rng.integers(n, 2 * n + 3))
    elif unit == "m":
        total = float(np.sum(seg))
        delta = total * 10.0**rng.uniform(-2.5, 0.2) + 1e-12 if rng.random() < .9 else total * 3 + 1.0
        if case.get("huge"):
            delta = total * 10.0**rng.uniform(-2.5, -0.5)
    else:
        delta = rng.uniform(0.01, PI) if rng.random() < .9 else rng.uniform(PI, 4.0)
        if unit == "d":
            delta = delta * 180 / PI
    rel_tol = [0.0, 0.01, 0.1, 0.5, 1.0, 1.6, 2.5][rng.integers(7)]  # (tolerances above 100 % are legal)
    if case.get("big") and unit in "rd":
        delta, rel_tol = rng.uniform(0.2, 2.5) * (180 / PI if unit == "d" else 1.0), [0.02, 0.1][rng.integers(2)]
    if case.get("nano"):
        delta = float(rng.uniform(3, 20) * 4.5e-9) * (180 / PI if unit == "d" else 1.0)
    if case.get("halfturn"):
        # thresholds just below one / two / three half turns: whether a step reaches them depends on
        # the last 1e-3 rad of its angle
        delta = float((PI * int(rng.integers(1, 4)) - 10.0**rng.uniform(-4, -2.3)) * (180 / PI if unit == "d" else 1.0))
        rel_tol = 0.0
    via = "metrics" if rng.random() < .6 else "filters"
    pairs = run_selection(run, case, p, R, unit, delta, rel_tol, all_pairs, False, via)
    run.seen(case, core.digest(p, R, unit, delta, rel_tol, all_pairs), nontrivial=bool(pairs),
             cls=["random:%s %s" % (unit, "all_pairs" if all_pairs else "consecutive"),
                  "via " + via],
             sample={"n": n, "unit": unit, "delta": delta, "rel_tol": rel_tol, "all_pairs": all_pairs,
                     "classes": arr["cls"], "pairs_head": (pairs or [])[:5]})


def k_reuse(run, case):
    """the same pose list object queried, modified in place, queried again (list identity kept)"""
    from evo.core import metrics
    from evo.core.units import Unit
    rng = run.rng(case)
    n = int(rng.integers(3, 60))
    arr = gen.traj_arrays(rng, n, stamp_cls="index")
    poses = poses_from(arr["p"], arr["R"])
    unit = "mrd"[rng.integers(3)]
    all_pairs = bool(rng.random() < .4)
    U = {"m": Unit.meters, "r": Unit.radians, "d": Unit.degrees}[unit]

    def draw_delta(p, R):
        if unit == "m":
            return float(np.sum(np.linalg.norm(np.diff(p, axis=0), axis=1))) * 10.0**rng.uniform(-1.5, -0.3) + 1e-9
        d = rng.uniform(0.05, 1.5)
        return d * 180 / PI if unit == "d" else d

    with core.quiet():
        # (the earlier query may use another unit: degrees before radians and vice versa)
        U0 = U if unit == "m" or rng.random() < .5 else (Unit.degrees if U is Unit.radians else Unit.radians)
        d0 = draw_delta(arr["p"], arr["R"])
        if U0 is not U:
            d0 = d0 * 180 / PI if U0 is Unit.degrees else d0 * PI / 180
        contracts.outcome_of(metrics.id_pairs_from_delta, poses, d0, U0, 0.1, all_pairs)
    # in-place edit of the very same list / matrices (as PosePath3D.project does)
    arr2 = gen.traj_arrays(rng, n, stamp_cls="index")
    edit_p = [0.7, 0.7, 0.0][rng.integers(3)]  # (sometimes nothing is edited: the very same poses again)
    for k in range(n):
        if rng.random() < edit_p:
            poses[k][:3, :3] = arr2["R"][k]
            poses[k][:3, 3] = arr2["p"][k]
    p_now = np.array([P[:3, 3] for P in poses])
    R_now = np.array([P[:3, :3] for P in poses])
    delta = draw_delta(p_now, R_now)
    c = dict(case, unit=unit, delta=delta, all_pairs=all_pairs)
    # judge the second query on the modified content (run_selection rebuilds its list: here the
    # SAME list object must be used, so the selection is executed and judged directly)
    from evo.core.filters import FilterException
    with core.quiet():
        out = contracts.outcome_of(metrics.id_pairs_from_delta, poses, delta, U, 0.1, all_pairs)
    run.seen(c, core.digest(p_now, R_now, unit, delta, all_pairs, "reuse"), cls=["pose list re-used after in-place edit: " + unit],
             sample={"n": n, "unit": unit, "delta": delta, "all_pairs": all_pairs})
    pairs = [] if out[0] == "exc" else [(int(i), int(j)) for i, j in out[1]]
    if out[0] == "exc" and not isinstance(out[1], FilterException):
        run.check(False, "only FilterException", c, "raised %r" % (out[1], ), key="pairs:wrong-exception")
        return
    seg_len = np.linalg.norm(np.diff(p_now, axis=0), axis=1)
    if not check_range(run, c, pairs, n, "re-used list"):
        return
    if unit == "m":
        band = 1e-9 * (float(np.sum(seg_len)) + float(np.max(np.abs(p_now))) + 1e-300)
        if all_pairs:
            check_all_pairs_path(run, c, pairs, seg_len, delta, delta * 0.1, band)
        else:
            check_consecutive(run, c, pairs, seg_len, delta, band, "meters consecutive", "consec-path")
    else:
        d_rad = delta * PI / 180 if unit == "d" else delta
        if all_pairs:
            check_all_pairs_angle(run, c, pairs, R_now, d_rad, d_rad * 0.1)
        else:
            seg_ang = [rm.rot_angle(R_now[k].T @ R_now[k + 1]) for k in range(n - 1)]
            check_consecutive(run, c, pairs, seg_ang, d_rad, 1e-9, "angle consecutive", "consec-angle")
    run.hit("selections on a re-used, in-place modified pose list judged")


def k_metric_reuse(run, case):
    """
    One RPE metric object evaluated twice on the same trajectory objects, which are modified in
    place in between (scale / reduction / projection / transformation - every PosePath3D
    operation works in place): the second evaluation must use the pairs selected on the
    *current* poses (the selection itself is judged by the other kinds of this check).
    """
    from evo.core import metrics
    from evo.core.filters import FilterException
    from evo.core.trajectory import Plane
    from evo.core.units import Unit
    rng = run.rng(case)
    n = int(rng.integers(4, 50))
    ref = gen.traj_arrays(rng, n, pos_cls=["walk", "circle", "grid", "intwalk"][rng.integers(4)], stamp_cls="index")
    est = gen.perturbed_estimate(rng, ref, hostile=False)
    t_ref = gen.make_evo(ref, "se3" if rng.random() < .5 else "xyzq", bool(rng.random() < .5))
    t_est = gen.make_evo(est, "se3" if rng.random() < .5 else "xyzq", hasattr(t_ref, "timestamps"))
    unit = "fmrd"[rng.integers(4)]
    U = {"f": Unit.frames, "m": Unit.meters, "r": Unit.radians, "d": Unit.degrees}[unit]
    all_pairs = bool(rng.random() < .5)
    from_ref = bool(rng.random() < .5)
    src_arr = ref if from_ref else est
    if unit == "f":
        delta = float(rng.integers(1, max(2, n // 2)))
    elif unit == "m":
        delta = float(np.sum(np.linalg.norm(np.diff(src_arr["p"], axis=0), axis=1))) * 10.0**rng.uniform(-1.2, -0.3) + 1e-9
    else:
        delta = rng.uniform(0.05, 1.5) * (180 / PI if unit == "d" else 1.0)
    rel = ["translation_part", "rotation_angle_deg", "full_transformation", "point_distance"][rng.integers(4)]
    m = metrics.RPE(metrics.PoseRelation[rel], delta, U, 0.1, all_pairs, from_ref)
    with core.quiet():
        first = contracts.outcome_of(m.process_data, (t_ref, t_est))
        op = ["scale", "reduce", "project", "transform", "downsample"][rng.integers(5)]
        if op == "scale":
            f = float([0.5, 2.0, 3.0, 10.0**rng.uniform(-1, 1)][rng.integers(4)])
            t_ref.scale(f), t_est.scale(f)
        elif op == "reduce":
            ids = sorted(rng.choice(n, size=int(rng.integers(2, n)), replace=False).tolist())
            t_ref.reduce_to_ids(ids), t_est.reduce_to_ids(ids)
        elif op == "project":
            pl = list(Plane)[rng.integers(3)]
            t_ref.project(pl), t_est.project(pl)
        elif op == "transform":
            T = gen.rand_se3(rng, tscale=1.0)
            t_ref.transform(T, right_mul=True, propagate=bool(rng.random() < .5))
            t_est.transform(T, right_mul=True, propagate=bool(rng.random() < .5))
        else:
            k = int(rng.integers(2, n))
            t_ref.downsample(k), t_est.downsample(k)
        second = contracts.outcome_of(m.process_data, (t_ref, t_est))
        src = t_ref if from_ref else t_est
        now = [np.array(P, dtype=float) for P in src.poses_se3]
        want = contracts.outcome_of(metrics.id_pairs_from_delta, now, delta, U, 0.1, all_pairs)
    c = dict(case, unit=unit, delta=delta, all_pairs=all_pairs, op=op)
    run.seen(c, core.digest(ref["p"], est["p"], unit, delta, all_pairs, op, from_ref, "metric-reuse"),
             cls=["metric object re-used after in-place " + op, "metric re-use unit:" + unit],
             sample={"n": n, "unit": unit, "delta": delta, "all_pairs": all_pairs, "op": op, "first": first[0],
                     "second": second[0]})
    if want[0] == "exc":
        if isinstance(want[1], FilterException):
            run.check(second[0] == "exc" and isinstance(second[1], FilterException),
                      "re-used metric: no pair on the current poses -> filter error", c,
                      "second evaluation gave %r instead of FilterException" % (second[1], ),
                      key="metric-reuse:wrong-exception")
        return
    pairs = [(int(i), int(j)) for i, j in want[1]]
    if not run.check(second[0] == "ok", "re-used metric: second evaluation succeeds", c,
                     "second evaluation after in-place %s raised %r" % (op, second[1]), key="metric-reuse:failure"):
        return
    got = [int(j) for j in m.delta_ids]
    run.check(got == [j for _, j in pairs] and len(np.asarray(m.error)) == len(pairs),
              "re-used metric evaluates the pairs selected on the current poses", c,
              "after in-place %s the re-used RPE object reports pair ends %s (%d values); the current "
              "poses select %s" % (op, got[:12], len(np.asarray(m.error)), [j for _, j in pairs][:12]),
              key="metric-reuse:stale-pairs")


def k_cli(run, case):
    """
    evo_rpe end to end: the pairs it evaluates (recorded at the selection call) on the processed
    trajectory are judged against the delta, unit, tolerance (incl. 0) and mode given on the
    command line.  The run itself is C02's workload executor (its own clauses are judged too).
    """
    from vmon.props import C02
    rec = C02.k_cli(run, case)
    if not rec:
        run.hit("evo_rpe run refused / ambiguous / no pairs (not judged here)")
        return
    sel = rec["selection"]
    tr = rec["processed"][0] if rec["from_ref"] else rec["processed"][1]
    p, R, pairs = np.asarray(tr.p, dtype=float), np.asarray(tr.R, dtype=float), rec["pairs"]
    n = len(p)
    c = dict(case, **{"selection": sel})
    label = "evo_rpe %s %s" % (sel["unit"], "all_pairs" if sel["all_pairs"] else "consecutive")
    if not check_range(run, c, pairs, n, label):
        return
    seg = np.linalg.norm(np.diff(p, axis=0), axis=1)
    delta, tol = sel["delta"], sel["tol"]
    if sel["unit"] == "f":
        check_frames(run, c, pairs, n, int(delta), sel["all_pairs"])
    elif sel["unit"] == "m":
        band = 1e-9 * (float(np.sum(seg)) + float(np.max(np.abs(p))) + 1e-300)
        if sel["all_pairs"]:
            check_all_pairs_path(run, c, pairs, seg, delta, delta * tol, band)
        else:
            check_consecutive(run, c, pairs, seg, delta, band, "meters consecutive", "consec-path")
    else:
        d_rad = delta * PI / 180 if sel["unit"] == "d" else delta
        if sel["all_pairs"]:
            check_all_pairs_angle(run, c, pairs, R, d_rad, d_rad * tol)
        else:
            seg_ang = [rm.rot_angle(R[k].T @ R[k + 1]) for k in range(n - 1)]
            check_consecutive(run, c, pairs, seg_ang, d_rad, 1e-9, "angle consecutive", "consec-angle")
    run.hit("evo_rpe selections judged against the command line's delta / tolerance")


def k_threads(run, case):
    """
    Pair selection for several sequences at once (one thread per sequence, as a thread pool over
    a data set does): every selection equals the selection of the same call made alone.  The
    serial answers are the ones the other kinds judge against the statement.
    """
    from vmon import threads
    from evo.core import metrics
    from evo.core.units import Unit
    rng = run.rng(case)

    def make_job(seed):
        r = np.random.default_rng(seed)
        n = int(r.integers(30, 200))
        arr = gen.traj_arrays(r, n)
        poses = poses_from(arr["p"], arr["R"])
        seg = np.linalg.norm(np.diff(arr["p"], axis=0), axis=1)
        ang = [rm.rot_angle(arr["R"][k].T @ arr["R"][k + 1]) for k in range(n - 1)]
        calls = []
        for unit, U, base in (("f", Unit.frames, 3.0), ("m", Unit.meters, float(np.mean(seg)) * 3),
                              ("r", Unit.radians, float(np.mean(ang)) * 3),
                              ("d", Unit.degrees, math.degrees(float(np.mean(ang))) * 3)):
            for ap in (False, True):
                calls.append((base if unit != "f" else int(base), U, 0.2, ap))

        def job():
            out = []
            for (delta, U, tol, ap) in calls:
                try:
                    out.append([list(map(int, pr)) for pr in metrics.id_pairs_from_delta(poses, delta, U, tol, ap)])
                except Exception as e:
                    out.append("raised " + type(e).__name__)
            return out
        return job

    jobs = [make_job(int(rng.integers(2**31))) for _ in range(4)]
    run.seen(case, core.digest("threads", case["rs"]), cls=["concurrent use: 4 threads"], sample={"selections_per_thread": 8})
    with core.quiet():
        threads.check(run, case, jobs, "pair selection", "threads:pair-selection-not-reentrant")


def k_abbrev(run, case):
    """
    The real evo_rpe executable with the pair-selection options in their abbreviated (prefix)
    spelling (--all, --delta_u, --delta_t, --pairs_from_ref): the run is either refused (non-zero
    exit, nothing stored) or selects exactly the pairs of the fully spelled command - an option is
    never dropped silently.
    """
    import shutil
    import zipfile
    import io as _io
    from vmon import cli
    from vmon.props import C01
    rng = run.rng(case)
    work = os.path.join(os.environ.get("VMON_WORK", "."), "c10ab_%d" % case["rs"][-1])
    os.makedirs(work, exist_ok=True)
    try:
        fp = C01.make_file_pair(rng, "tum", work, n=int(rng.integers(12, 40)))
        unit = "fmd"[rng.integers(3)]
        delta = {"f": str(int(rng.integers(1, 4))), "m": repr(float(fp["ext"] * rng.uniform(0.05, 0.4))), "d": repr(float(rng.uniform(10, 90)))}[unit]
        opts = [("--delta", "--delta", delta), ("--delta_unit", "--delta_u", unit)]
        if rng.random() < .7:
            opts.append(("--all_pairs", "--all", None))
        if rng.random() < .5:
            opts.append(("--delta_tol", "--delta_t", repr(float([0.05, 0.2, 0.4][rng.integers(3)]))))
        if rng.random() < .3:
            opts.append(("--pairs_from_reference", "--pairs_from_ref", None))
        base = ["tum", os.path.basename(fp["ref_path"]), os.path.basename(fp["est_path"]), "--t_max_diff", repr(float(fp["dt"]) * 0.45),
                "--t_offset", "%.9f" % fp["offset"], "--no_warnings"]

        def run_one(which, out):
            argv = list(base)
            for full, short, val in opts:
                argv.append(full if which == "full" else short)
                if val is not None:
                    argv.append(val)
            pr = cli.run_subprocess("rpe", argv + ["--save_results", out], work, os.environ["HOME"])
            path = os.path.join(work, out)
            arrays = None
            if os.path.exists(path):
                with zipfile.ZipFile(path) as z:
                    arrays = {n: np.load(_io.BytesIO(z.read(n))) for n in z.namelist() if n.endswith(".npy")}
            return pr, arrays, argv

        pf, af, argv_f = run_one("full", "full.zip")
        pa, aa, argv_a = run_one("abbr", "abbr.zip")
        run.seen(case, core.digest(open(fp["est_path"]).read(), [o[1] for o in opts], delta), cls=["evo_rpe executable: abbreviated pair-selection options"],
                 sample={"abbreviated": argv_a[8:], "exit_full": pf.returncode, "exit_abbreviated": pa.returncode})
        if pf.returncode != 0 or af is None:
            run.hit("abbreviations: fully spelled run refused (no pair / ambiguous), not judged")
            return
        if pa.returncode != 0:
            run.check(aa is None, "a refused abbreviated command stores nothing", case, "evo_rpe %s exited with %d but stored a result" %
                      (argv_a, pa.returncode), key="abbrev:stored-after-refusal")
            run.hit("abbreviations refused by the executable")
            return
        same = aa is not None and set(aa) == set(af) and all(aa[k].shape == af[k].shape and np.array_equal(aa[k], af[k]) for k in af)
        run.check(same, "abbreviated options select the pairs of the fully spelled command", case,
                  "evo_rpe %s stored other values / pair ends than %s (e.g. %d vs %d values)" %
                  (argv_a[8:], argv_f[8:], len(aa.get("error_array.npy", [])) if aa else -1, len(af.get("error_array.npy", []))),
                  key="abbrev:option-dropped")
    finally:
        shutil.rmtree(work, ignore_errors=True)


KINDS = {"abbrev": k_abbrev, "threads": k_threads, "grid": k_grid, "random": k_random, "gridsel": k_replay_grid, "reuse": k_reuse,
         "metric_reuse": k_metric_reuse, "cli": k_cli}


def main(run):
    nmax_grid = {"quick": 6, "thorough": 8}[run.tier]
    blocks = []
    for n in range(2, nmax_grid + 1):
        total = 4**(n - 1)
        size = 64
        for lo in range(0, total, size):
            blocks.append({"n": n, "lo": lo, "hi": lo + size})
    for b_i in run.mine(len(blocks)):
        c = run.case("grid", b_i, **blocks[b_i])
        c["kind"] = "gridsel"  # replay re-executes the single failing selection
        k_grid(run, c)
    run.extra["grid_step_sequences_enumerated_exhaustively_up_to_n_poses"] = nmax_grid
    for i in run.mine({"quick": 500, "thorough": 12000}[run.tier]):
        k_random(run, run.case("random", i))
    for i in run.mine({"quick": 300, "thorough": 6000}[run.tier]):
        k_reuse(run, run.case("reuse", i))
    for i in run.mine({"quick": 60, "thorough": 1200}[run.tier]):
        k_random(run, run.case("random", 3 * 10**6 + i, nano=True, unit="rd"[i % 2], all_pairs=False))
    for i in run.mine({"quick": 80, "thorough": 1600}[run.tier]):
        k_random(run, run.case("random", 4 * 10**6 + i, halfturn=True, unit="rd"[i % 2], all_pairs=False))
    for i in run.mine({"quick": 300, "thorough": 6000}[run.tier]):
        k_metric_reuse(run, run.case("metric_reuse", i))
    for i in run.mine({"quick": 60, "thorough": 1500}[run.tier]):
        k_cli(run, run.case("cli", i, force_tol=[0.0, 0.05, 0.0, 0.3][i % 4], force_all_pairs=bool(i % 3 != 0),
                            force_unit="mrdf"[(i // 2) % 4]))
    for i in run.mine({"quick": 24, "thorough": 300}[run.tier]):
        # a metre delta longer than the raw path of a small-scale estimate, inside the scale-corrected one
        k_cli(run, run.case("cli", 10**6 + i, force_all_pairs=bool(i % 2), force_unit="m", small_est=True,
                            force_options=["scale"] + (["align"] if i % 4 < 2 else [])))
    for i in run.mine({"quick": 16, "thorough": 300}[run.tier]):
        k_threads(run, run.case("threads", i))
    for i in run.mine({"quick": 10, "thorough": 120}[run.tier]):
        k_abbrev(run, run.case("abbrev", i))
    # sizes beyond typical block / chunk sizes (1024, 2048): a few in the quick tier, more in thorough
    for i in run.mine({"quick": 8, "thorough": 48}[run.tier]):
        u, ap = [("r", 1), ("d", 1), ("m", 1), ("f", 1), ("r", 1), ("m", 0), ("d", 0), ("d", 1)][i % 8]
        k_random(run, run.case("random", 10**6 + i, big=True, unit=u, all_pairs=bool(ap)))
    for i in run.mine({"quick": 2, "thorough": 12}[run.tier]):
        k_random(run, run.case("random", 2 * 10**6 + i, big=True, huge=True, unit="m", all_pairs=bool(i % 2 == 0)))
    run.need("concurrent rounds: pair selection", "evo_rpe selections judged against the command line's delta / tolerance", "re-used metric evaluates the pairs selected on the current poses", "pairs satisfy 0 <= i < j < N", "frames: exactly the delta pairs",
             "meters consecutive: j is the first pose reaching delta since i",
             "meters consecutive: delta hit exactly by a selected pair",
             "angle consecutive: j is the first pose reaching delta since i",
             "all-pairs path: |path - delta| <= tolerance and j closest",
             "all-pairs path: start without admissible end is absent",
             "all-pairs angle: returned pair lies in the band",
             "all-pairs angle: absent pair lies outside the band",
             "refusals (FilterException) observed", "empty selection raises FilterException",
             "selections on a re-used, in-place modified pose list judged")
