"""
C20 - Plots draw the trajectory's own coordinates on the labelled axes.
mplmon: the axes objects handed to evo's plot functions record every plot / scatter /
add_collection / label call (what evo hands to matplotlib), line-collection constructors are
recorded through recording subclasses; an offline checker with an own mode table derived from
the mode's NAME compares the recorded data with the generating arrays of the trajectory
(sequences of several plot calls on the same object, so a plot that silently changes the
trajectory is exposed by the next one).
"""
import math
import os

import numpy as np

from vmon import core, gen, contracts
from vmon import refmodel as rm

ANCHORS = ['evo/tools/plot.py']
LEVEL = "exploration"
SHARDS = {"quick": 8, "thorough": 16}
RULE = ("trajectories of 2..60 (quick) / 500 (thorough) poses x 7 plot modes x length units {mm, cm, m, "
        "km} x with/without timestamps x start time {None, 0, t0, 50} x marker scale {0, >0} x "
        "start/end markers x correspondences; each case is a sequence of 3..7 plot calls on the same "
        "object; distinct = digest of (poses, mode, unit, call sequence); non-trivial = always")
ASSUMPTIONS = ["the Agg backend is used; recorded call arguments are what matplotlib receives"]
PI = math.pi
MODES = ["xy", "xz", "yx", "yz", "zx", "zy", "xyz"]


def axes_of(mode_name):
    """own mode table, derived from the NAME of the mode"""
    return ["xyz".index(ch) for ch in mode_name]


class AxRec:
    """records what is handed to one matplotlib Axes"""

    def __init__(self, ax):
        self.ax = ax
        self.calls = []
        for name in ("plot", "scatter", "add_collection", "set_xlabel", "set_ylabel", "set_zlabel", "axhline",
                     "axhspan"):
            if hasattr(ax, name):
                self._wrap(name)

    def _wrap(self, name):
        orig = getattr(self.ax, name)
        rec = self

        def w(*a, **k):
            rec.calls.append((name, [np.array(x, dtype=float).copy() if isinstance(x, (np.ndarray, list, tuple)) and
                                     name in ("plot", ) and _numeric(x) else x for x in a], dict(k)))
            return orig(*a, **k)

        setattr(self.ax, name, w)

    def of(self, name):
        return [c for c in self.calls if c[0] == name]

    def clear(self):
        self.calls = []


def _numeric(x):
    try:
        np.asarray(x, dtype=float)
        return True
    except Exception:
        return False


class CollectionRec:
    """recording subclasses for the line collections evo constructs"""

    def __init__(self):
        self.segs = []

    def __enter__(self):
        from evo.tools import plot
        self.plot = plot
        self.o2, self.o3 = plot.LineCollection, plot.art3d.Line3DCollection
        rec = self

        class L2(self.o2):
            def __init__(self, segments, *a, **k):
                rec.segs.append(("2d", [np.array(s, dtype=float) for s in segments], k))
                super().__init__(segments, *a, **k)

        class L3(self.o3):
            def __init__(self, segments, *a, **k):
                rec.segs.append(("3d", [np.array(s, dtype=float) for s in segments], k))
                super().__init__(segments, *a, **k)

        plot.LineCollection = L2
        plot.art3d.Line3DCollection = L3
        return self

    def __exit__(self, *a):
        self.plot.LineCollection = self.o2
        self.plot.art3d.Line3DCollection = self.o3


def same(a, b):
    a, b = np.asarray(a, dtype=float), np.asarray(b, dtype=float)
    return a.shape == b.shape and core.bits_equal(a, b)


def k_seq(run, case):
    import matplotlib
    matplotlib.use("Agg")
    import matplotlib.pyplot as plt
    from evo.tools import plot
    from evo.core.units import Unit
    rng = run.rng(case)
    n = int(rng.integers(2, {"quick": 60, "thorough": 500}[run.tier]))
    if rng.random() < .35:
        n = int(rng.integers(2, 7))  # very short trajectories (pose counts equal to array widths: 3, 4)
    n = int(case.get("n") or n)
    arr = gen.traj_arrays(rng, n, pos_cls=["walk", "utm", "circle", "tiny"][rng.integers(4)],
                          rot_cls=["smooth", "uniform", "yaw_grid"][rng.integers(3)],
                          stamp_cls=["epoch", "small", "irregular"][rng.integers(3)])
    for k in range(1, n):
        if arr["t"][k] <= arr["t"][k - 1]:
            arr["t"][k] = arr["t"][k - 1] + 1e-3
    if rng.random() < .12:
        # time relative to an event in the middle of the recording: stamps before it are negative
        arr["t"] = arr["t"] - (arr["t"][n // 2] + 0.25)
    if (rng.random() < .12 or case.get("long_way")) and n >= 3:
        # long way travelled before slow motion: the first pose at a local origin, the rest in a
        # map frame (UTM-like) with millimetre steps; or a long drive followed by standstill jitter
        if rng.random() < .5:
            arr["p"][1:] = np.array([4.5e5, 5.4e6, 300.0]) + np.cumsum(rng.normal(size=(n - 1, 3)) * 1e-3, axis=0)
            arr["p"][0] = 0.0
        else:
            h = n // 2
            arr["p"][:h] = np.cumsum(np.abs(rng.normal(size=(h, 3))) * 2e5 / max(h, 1), axis=0)
            arr["p"][h:] = arr["p"][h - 1] + rng.normal(size=(n - h, 3)) * 1e-6
    if rng.random() < .1:
        # an (almost) constant attitude: a generic orientation with micro-radian wobble (gimbal-stabilised
        # sensor, a vehicle on a straight road)
        R0 = gen.rand_rot(rng)
        for k in range(n):
            arr["R"][k] = R0 @ rm.rodrigues(gen.rand_axis(rng), float(10.0**rng.uniform(-7, -5.3)))
    if rng.random() < .15:
        # almost, not exactly, straight up / down: cos(pitch) between 3e-9 and 1e-6 (roll and yaw
        # are still well defined to ~1e-7 rad there)
        for k in range(n):
            if rng.random() < .4:
                sgn = 1.0 if rng.random() < .5 else -1.0
                pitch = sgn * (PI / 2 - 10.0**rng.uniform(-8.5, -6))
                arr["R"][k] = rm.rodrigues([0, 0, 1], rng.uniform(-PI, PI)) @ rm.rodrigues([0, 1, 0], pitch) @ \
                    rm.rodrigues([1, 0, 0], rng.uniform(-PI, PI))
    if rng.random() < .25:
        # attitudes looking straight up / down (pitch exactly +-90 degrees: gimbal lock of the roll-pitch-yaw split)
        for k in range(n):
            if rng.random() < .3:
                sgn = 1.0 if rng.random() < .5 else -1.0
                Ry = np.array([[0.0, 0.0, sgn], [0.0, 1.0, 0.0], [-sgn, 0.0, 0.0]])
                arr["R"][k] = rm.rodrigues([0, 0, 1], rng.uniform(-PI, PI)) @ Ry @ rm.rodrigues([1, 0, 0], rng.uniform(-PI, PI)) \
                    if rng.random() < .5 else Ry
    arr2 = {"p": arr["p"] + rng.normal(size=(n, 3)), "R": arr["R"], "t": arr["t"]}
    stamped = bool(rng.random() < .7) or bool(case.get("long_way"))
    smode = case.get("smode") or ("se3" if rng.random() < .5 else "xyzq")
    # positions as the user may hand them over: float64, integer grid (Python ints) or float32
    dt = case.get("dtype") or ["float64", "float64", "float64", "int", "float32"][rng.integers(5)]
    if dt != "float64":
        smode = "xyzq"
        if dt == "int":
            arr["p"] = np.round(arr["p"] - arr["p"][0]).astype(np.int64)
        else:
            arr["p"] = arr["p"].astype(np.float32)
        from evo.core.trajectory import PosePath3D, PoseTrajectory3D
        q = gen.quats_of(arr["R"])
        tr = PoseTrajectory3D(arr["p"].tolist() if dt == "int" else arr["p"].copy(), q, arr["t"].copy()) if stamped \
            else PosePath3D(arr["p"].tolist() if dt == "int" else arr["p"].copy(), q)
        arr["p"] = arr["p"].astype(np.float64)  # exact
    else:
        if smode == "xyzq" and rng.random() < .2:
            # quaternions that were interpolated / averaged / integrated and never re-normalised
            # (norms 0.8 .. 1.25): the orientation they denote is that of q / |q|
            arr = dict(arr, q=gen.quats_of(arr["R"]) * rng.uniform(0.8, 1.25, size=(n, 1)))
        tr = gen.make_evo(arr, smode, stamped)
    tr2 = gen.make_evo(arr2, smode, stamped)
    if not case.get("fresh"):
        gen.age(rng, tr), gen.age(rng, tr2)
    mode_name = case.get("mode") or MODES[rng.integers(7)]
    mode = plot.PlotMode[mode_name]
    unit_name = case.get("unit") or ["mm", "cm", "m", "km"][rng.integers(4)]
    unit = Unit(unit_name)
    idx = axes_of(mode_name)
    funcs = ["traj", "traj_colormap", "markers", "edges", "frames", "traj_xyz", "traj_rpy", "speeds", "error_array",
             "trajectories"]
    L = int(rng.integers(3, 8))
    seq = [funcs[i] for i in rng.integers(0, len(funcs), size=L)]
    if "seq" in case:
        seq = case["seq"]
    run.seen(case, core.digest(arr["p"], mode_name, unit_name, seq, stamped), cls=["mode:" + mode_name, "unit:" + unit_name,
                                                                                 "stamped" if stamped else "path",
                                                                                 "positions dtype:" + dt] +
             ["call:" + f for f in set(seq)], sample={"n": n, "mode": mode_name, "unit": unit_name, "sequence": seq,
                                                      "stamped": stamped})
    P, R, T = arr["p"], arr["R"], arr["t"]
    SCALE = {"mm": 1e3, "cm": 1e2, "m": 1.0, "km": 1e-3}

    def ticks_ok(axis_obj, u):
        """tick labels of a length axis show the coordinate in the axis' own unit"""
        if u == "m":
            return True  # (matplotlib's own formatter on metre data)
        fm = axis_obj.get_major_formatter()
        for val in (1.5, -0.25, 40.0):
            try:
                shown = float(fm(val, 0).replace("\u2212", "-"))
            except ValueError:
                return False
            if abs(shown - val * SCALE[u]) > 1e-5 * abs(val * SCALE[u]):
                return False
        return True

    try:
        # another figure of the same session, prepared earlier for another length unit and still
        # open (rendered / inspected only at the end): its ticks stay in its own unit
        other_unit = [u for u in ("mm", "cm", "km") if u != unit_name][rng.integers(2)]
        early_fig = plt.figure()
        early_ax = plot.prepare_axis(early_fig, mode, length_unit=Unit(other_unit))
        for step, f in enumerate(seq):
            fig = plt.figure()
            decoy = None
            if rng.random() < .4:
                # pyplot state: some other figure was created afterwards and is the current one
                decoy = plt.figure()
                dax = decoy.add_subplot(111)
                dax.set_xlabel("decoy x")
                dax.set_ylabel("decoy y")
            where = "call %d (%s) of %s%s" % (step + 1, f, seq, " [another figure is current]" if decoy else "")
            start = [None, 0.0, float(T[0]), 50.0][rng.integers(4)]
            if f in ("traj", "traj_colormap", "markers", "edges", "frames"):
                ax = plot.prepare_axis(fig, mode, length_unit=unit)
                # labels name the same axes and the configured unit
                labels = [ax.get_xlabel(), ax.get_ylabel()] + ([ax.get_zlabel()] if mode_name == "xyz" else [])
                good = len(labels) == len(idx) and all(("$%s$" % "xyz"[i]) in lab and ("(%s)" % unit_name) in lab
                                                       for i, lab in zip(idx, labels))
                run.check(good, "axis labels name the mode's axes and the length unit", case,
                          "mode %s unit %s: axis labels are %r" % (mode_name, unit_name, labels),
                          key="labels:trajectory-axes")
                rec = AxRec(ax)
                with CollectionRec() as crec:
                    if f == "traj":
                        markers = bool(rng.random() < .5)
                        # (optional arguments by keyword, or positionally in the published order)
                        if rng.random() < .6:
                            plot.traj(ax, mode, tr, plot_start_end_markers=markers, label="a")
                        else:
                            plot.traj(ax, mode, tr, "-", "black", "a", 1.0, markers)
                        calls = rec.of("plot")
                        ok = len(calls) == 1 and len(calls[0][1]) >= len(idx) and \
                            all(same(calls[0][1][d], P[:, i]) for d, i in enumerate(idx))
                        run.check(ok, "trajectory line drawn at the trajectory's own coordinates of the mode's axes",
                                  case, "%s: the line is not drawn at columns %s of the positions in pose order" %
                                  (where, idx), key="traj:wrong-data")
                        if markers:
                            check_markers(run, case, rec, P, idx, where)
                    elif f == "markers":
                        plot.add_start_end_markers(ax, mode, tr)
                        check_markers(run, case, rec, P, idx, where)
                    elif f == "traj_colormap":
                        err = np.abs(rng.normal(size=n))
                        markers = bool(rng.random() < .5)
                        if rng.random() < .6:
                            plot.traj_colormap(ax, tr, err, mode, float(err.min()), float(err.max()), fig=fig,
                                               plot_start_end_markers=markers)
                        else:
                            plot.traj_colormap(ax, tr, err, mode, float(err.min()), float(err.max()), "", fig, markers)
                        check_segments(run, case, crec, [(P[k], P[k + 1]) for k in range(n - 1)], idx,
                                       "colour-mapped segment k joins pose k and k+1", "colormap:wrong-segments", where)
                        if markers:
                            check_markers(run, case, rec, P, idx, where)
                    elif f == "edges":
                        plot.draw_correspondence_edges(ax, tr, tr2, mode)
                        check_segments(run, case, crec, [(P[k], arr2["p"][k]) for k in range(n)], idx,
                                       "correspondence edge k joins pose k of both trajectories",
                                       "edges:wrong-segments", where)
                    elif f == "frames":
                        scale = [0.0, 0.1, 1.5][rng.integers(3)]
                        plot.draw_coordinate_axes(ax, tr, mode, scale)
                        if scale == 0.0:
                            run.check(not crec.segs, "no frame markers for scale 0", case, "markers drawn for scale 0")
                        else:
                            want = [(P[k], P[k] + scale * R[k][:, a]) for a in range(3) for k in range(n)]
                            check_segments(run, case, crec, want, idx,
                                           "frame marker starts at the pose position and points along the pose's own axis",
                                           "frames:wrong-segments", where, tol=1e-9 * (1 + float(np.max(np.abs(P)))))
            elif f in ("traj_xyz", "traj_rpy"):
                axarr = fig.subplots(3)
                recs = [AxRec(a) for a in axarr]
                if f == "traj_xyz":
                    if rng.random() < .6:
                        plot.traj_xyz(axarr, tr, start_timestamp=start, length_unit=unit)
                    else:
                        plot.traj_xyz(axarr, tr, "-", "black", "", 1.0, start, unit)
                else:
                    if rng.random() < .6:
                        plot.traj_rpy(axarr, tr, start_timestamp=start)
                    else:
                        plot.traj_rpy(axarr, tr, "-", "black", "", 1.0, start)
                x_want = (T - start if start else T) if stamped else np.arange(n, dtype=float)
                for i in range(3):
                    calls = recs[i].of("plot")
                    ok = len(calls) == 1 and same(calls[0][1][0], x_want)
                    run.check(ok, "time-series plots use the trajectory's timestamps (shifted by the start time) / the pose index",
                              case, "%s: x data of subplot %d is not the %s" %
                              (where, i, "timestamps minus start time" if stamped else "pose index"),
                              key="%s:wrong-x" % f)
                    if not ok:
                        break
                    y = np.asarray(calls[0][1][1], dtype=float)
                    if f == "traj_xyz":
                        run.check(same(y, P[:, i]), "per-axis position plot shows that coordinate", case,
                                  "%s: subplot %d does not show coordinate %s" % (where, i, "xyz"[i]),
                                  key="traj_xyz:wrong-y")
                        lab = axarr[i].get_ylabel()
                        run.check(("$%s$" % "xyz"[i]) in lab and ("(%s)" % unit_name) in lab,
                                  "per-axis labels name the axis and unit", case,
                                  "%s: ylabel %r" % (where, lab), key="traj_xyz:label")
                if f == "traj_rpy" and all(len(r.of("plot")) == 1 for r in recs):
                    ang = np.stack([np.asarray(r.of("plot")[0][1][1], dtype=float) for r in recs], axis=1) * PI / 180
                    worst = 0.0
                    for k in range(n):
                        # the plotted triple must recompose to the pose's rotation (also at gimbal
                        # lock, where roll and yaw are not unique but every valid split recomposes)
                        Rk = rm.rodrigues([0, 0, 1], ang[k, 2]) @ rm.rodrigues([0, 1, 0], ang[k, 1]) @ rm.rodrigues([1, 0, 0], ang[k, 0])
                        # (next to the singularity roll and yaw carry rounding / cos(pitch) each)
                        cyk = math.hypot(R[k][0, 0], R[k][1, 0])
                        worst = max(worst, float(np.max(np.abs(Rk - R[k]))) / (1.0 + (1e-8 / cyk if 1e-12 < cyk < 1e-6 else 0.0)))
                    run.check(worst <= 1e-7, "roll/pitch/yaw plot shows the pose's own Euler angles in degrees", case,
                              "%s: plotted roll/pitch/yaw do not reproduce the orientations (%g)" % (where, worst),
                              key="traj_rpy:wrong-y")
                    # away from the singularity itself roll and yaw are unique: the plotted angles are
                    # the pose's (conditioning ~ rounding / cos(pitch))
                    worst_a = 0.0
                    for k in range(n):
                        cy = math.hypot(R[k][0, 0], R[k][1, 0])
                        if cy > 1e-9:
                            for got, own in ((ang[k, 2], math.atan2(R[k][1, 0], R[k][0, 0])), (ang[k, 0], math.atan2(R[k][2, 1], R[k][2, 2]))):
                                d = abs((got - own + PI) % (2 * PI) - PI)
                                worst_a = max(worst_a, d / (1e-6 + 1e-14 / cy))
                    run.check(worst_a <= 1.0, "roll and yaw are the pose's own angles wherever they are unique", case,
                              "%s: plotted roll / yaw differ from the pose's angles (%g x tolerance)" % (where, worst_a),
                              key="traj_rpy:wrong-angle")
                    run.check(axarr[2].get_xlabel() == ("$t$ (s)" if stamped else "index"),
                              "time axis labelled", case, "%s: xlabel %r" % (where, axarr[2].get_xlabel()),
                              key="rpy:label")
            elif f == "speeds":
                if not stamped:
                    plt.close(fig)
                    continue
                ax = fig.gca()
                rec = AxRec(ax)
                if rng.random() < .6:
                    plot.speeds(ax, tr, start_timestamp=start)
                else:
                    plot.speeds(ax, tr, "-", "black", "", 1.0, start)
                calls = rec.of("plot")
                x_want = (T - start if start else T)[1:]
                seg = np.linalg.norm(np.diff(P, axis=0), axis=1) / np.diff(T)
                ok = len(calls) == 1 and same(calls[0][1][0], x_want)
                run.check(ok, "speed plot uses the timestamps of the newer pose (shifted by the start time)", case,
                          "%s: x data of the speed plot is not timestamps[1:] minus the start time" % where,
                          key="speeds:wrong-x")
                if ok:
                    y = np.asarray(calls[0][1][1], dtype=float)
                    # float32 positions are differenced in float32 by evo: single-precision speeds
                    rel = 1e-9 if dt != "float32" else 1e-4
                    mag = float(np.max(np.abs(P))) / float(np.min(np.diff(T)))
                    run.check(y.shape == seg.shape and bool(np.all(np.abs(y - seg) <= rel * (np.abs(seg) + 1e-300) + 1e-12 +
                                                                   (0 if dt != "float32" else 1e-6 * mag))),
                              "speed plot shows the speeds", case, "%s: y data are not the speeds" % where,
                              key="speeds:wrong-y")
            elif f == "trajectories":
                # the high-level function on a Figure: one or two panels of the same figure, each
                # with its own mode (and unit) - every call gets its own, correctly labelled axis
                panels = int(rng.integers(1, 3))
                known = []
                for j in range(panels):
                    mj = MODES[rng.integers(7)] if j else mode_name
                    uj = ["mm", "cm", "m", "km"][rng.integers(4)] if j else unit_name
                    ij = axes_of(mj)
                    what = [tr, {"first": tr, "second": tr2}, [tr, tr2]][rng.integers(3)]
                    plot.trajectories(fig, what, plot.PlotMode[mj], subplot_arg=111 if panels == 1 else 121 + j,
                                      length_unit=Unit(uj), plot_start_end_markers=bool(rng.random() < .3))
                    new_axes = [a for a in fig.axes if a not in known]
                    known = list(fig.axes)
                    if not run.check(len(new_axes) == 1, "every trajectories() call on a figure draws into its own axis", case,
                                     "%s: panel %d (mode %s) created %d new axes in the figure" % (where, j + 1, mj, len(new_axes)),
                                     key="trajectories:axis"):
                        break
                    a = new_axes[0]
                    labels = [a.get_xlabel(), a.get_ylabel()] + ([a.get_zlabel()] if mj == "xyz" else [])
                    run.check(len(labels) == len(ij) and all(("$%s$" % "xyz"[i]) in lab and ("(%s)" % uj) in lab
                                                             for i, lab in zip(ij, labels)),
                              "axis labels name the mode's axes and the length unit", case,
                              "%s: panel %d mode %s unit %s has axis labels %r" % (where, j + 1, mj, uj, labels),
                              key="labels:trajectory-axes")
                    fac = 1.0  # (data stay in metres; other units are shown through the tick formatter)
                    data = [ln.get_data_3d() if mj == "xyz" else ln.get_data() for ln in a.lines]
                    hit = any(len(d) == len(ij) and all(np.asarray(d[k]).shape == (n, ) and
                                                        bool(np.all(np.abs(np.asarray(d[k], dtype=float) - P[:, i] * fac) <=
                                                                    1e-9 * (1 + np.abs(P[:, i] * fac))))
                                                        for k, i in enumerate(ij)) for d in data)
                    run.check(hit, "trajectory line drawn at the trajectory's own coordinates of the mode's axes", case,
                              "%s: panel %d (mode %s, unit %s) holds no line at columns %s of the positions" %
                              (where, j + 1, mj, uj, ij), key="trajectories:wrong-data")
            elif f == "error_array":
                ax = fig.gca()
                rec = AxRec(ax)
                err = np.abs(rng.normal(size=n))
                xa = [None, T.copy(), np.cumsum(np.abs(rng.normal(size=n)))][rng.integers(3)]
                plot.error_array(ax, err, x_array=xa, name="e", title="t")
                calls = rec.of("plot")
                if xa is None:
                    ok = len(calls) == 1 and same(calls[0][1][0], err)
                else:
                    ok = len(calls) == 1 and same(calls[0][1][0], xa) and same(calls[0][1][1], err)
                run.check(ok, "error-value plot shows the values against the given x array in order", case,
                          "%s: error plot data differ from (x array, values)" % where, key="error_array:wrong-data")
            if decoy is not None and f in ("traj", "traj_colormap", "markers", "edges", "frames", "traj_xyz", "traj_rpy"):
                dax = decoy.axes[0]
                run.check(dax.get_xlabel() == "decoy x" and dax.get_ylabel() == "decoy y" and not dax.lines
                          and not dax.collections, "an unrelated current figure is left alone", case,
                          "%s: evo wrote labels / data into another figure (%r, %r)" %
                          (where, dax.get_xlabel(), dax.get_ylabel()), key="labels:wrong-figure")
            if f in ("traj", "traj_colormap", "markers", "edges", "frames"):
                run.check(ticks_ok(ax.xaxis, unit_name) and ticks_ok(ax.yaxis, unit_name),
                          "tick labels show the coordinates in the configured length unit", case,
                          "%s: tick labels of the %s axes are not the coordinates in %s" % (where, mode_name, unit_name),
                          key="labels:ticks-wrong-unit")
            if decoy is not None:
                plt.close(decoy)
            plt.close(fig)
            run.hit("plot calls judged: " + f)
        run.check(ticks_ok(early_ax.xaxis, other_unit) and ticks_ok(early_ax.yaxis, other_unit),
                  "tick labels of a figure prepared earlier stay in that figure's unit", case,
                  "a %s axis prepared for %s before the %s plots of this session now labels its ticks in another unit" %
                  (mode_name, other_unit, unit_name), key="labels:ticks-of-earlier-figure")
    finally:
        plt.close("all")
    # the plotted object itself must still describe the generating poses
    v = gen.read_views(tr)
    run.check(same(v["p"], P) and (not stamped or same(v["t"], T)), "plotting leaves the trajectory as it was", case,
              "after the plot sequence %s the trajectory's positions/timestamps changed" % seq,
              key="plot-mutated-trajectory")


def proj(p, idx):
    return np.array([p[i] for i in idx])


def check_markers(run, case, rec, P, idx, where):
    sc = rec.of("scatter")
    ok = len(sc) >= 2
    if ok:
        a, b = sc[-2], sc[-1]
        ok = all(float(a[1][d]) == float(P[0][i]) for d, i in enumerate(idx)) and \
            all(float(b[1][d]) == float(P[-1][i]) for d, i in enumerate(idx)) and len(a[1]) == len(idx)
    run.check(ok, "start/end markers at the first/last pose", case,
              "%s: start/end markers are not at the first/last pose's coordinates of the mode's axes" % where,
              key="markers:wrong-position")


def check_segments(run, case, crec, want, idx, clause, key, where, tol=0.0):
    ok = len(crec.segs) == 1
    if ok:
        kind, segs, _ = crec.segs[0]
        ok = len(segs) == len(want) and kind == ("3d" if len(idx) == 3 else "2d")
        if ok:
            for s, (a, b) in zip(segs, want):
                wa, wb = proj(a, idx), proj(b, idx)
                if s.shape != (2, len(idx)) or float(np.max(np.abs(s[0] - wa))) > tol or float(np.max(np.abs(s[1] - wb))) > tol:
                    ok = False
                    break
    run.check(ok, clause, case, "%s: %s - violated (segments %s)" %
              (where, clause, "count %d vs %d" % (len(crec.segs[0][1]) if crec.segs else -1, len(want))), key=key)


def k_cli_time(run, case):
    """
    evo_traj --plot_relative_time: the time axes of the per-axis, roll/pitch/yaw and speed figures
    show each trajectory's own stamps (after --t_offset) minus the start time - the reference's
    first stamp, or without --ref the lowest first stamp of the trajectories as they are plotted.
    """
    import shutil
    import matplotlib.pyplot as plt
    from vmon import cli
    rng = run.rng(case)
    work = os.path.join(os.environ.get("VMON_WORK", "."), "c20t_%d" % case["rs"][-1])
    os.makedirs(work, exist_ok=True)
    try:
        k = int(rng.integers(1, 3))
        names, stamps = [], {}
        base_t = float(rng.integers(10, 2000))
        for i in range(k + 1):
            n = int(rng.integers(5, 25))
            arr = gen.traj_arrays(rng, n, stamp_cls="small")
            t = base_t + float(rng.uniform(0, 20)) + np.cumsum(rng.uniform(0.05, 0.5, size=n))
            name = "gt.txt" if i == k else "traj_%d.txt" % i
            open(os.path.join(work, name), "w").write(rm.write_tum_text(t, arr["p"], gen.quats_of(arr["R"])))
            stamps[name] = rm.parse_tum(open(os.path.join(work, name)).read())[0]
            names.append(name)
        use_ref = bool(rng.random() < .4)
        offset = float("%.6f" % rng.uniform(-30, 30)) if rng.random() < .6 else 0.0
        argv = ["tum"] + names[:k] + (["--ref", "gt.txt"] if use_ref else []) + ["--plot_relative_time", "--plot", "--no_warnings"]
        if offset:
            argv += ["--t_offset", "%.6f" % offset]
        plt.close("all")
        res = cli.run_cli("traj", argv, cwd=work, keep_figures=True)
        run.seen(case, core.digest(argv, [stamps[nm][0] for nm in names]), cls=["evo_traj --plot_relative_time" + (" --t_offset" if offset else "") +
                                                                              (" --ref" if use_ref else "")],
                 sample={"argv": argv, "exit": res.exit})
        if not run.check(res.exc is None and res.exit == 0, "evo_traj plots", case, "evo_traj %s failed: %r" % (argv, res.exc), key="cli-time:failed"):
            return
        shown = {nm: stamps[nm] + offset for nm in names[:k]}
        start = float(stamps["gt.txt"][0]) if use_ref else min(float(v[0]) for v in shown.values())
        want_first = sorted(float(v[0]) - start for v in shown.values()) + ([0.0] if use_ref else [])
        judged = 0
        for num in plt.get_fignums():
            fig = plt.figure(num)
            axes = fig.get_axes()
            if len(axes) == 3 and all(len(a.lines) >= k for a in axes) and "t" in axes[2].get_xlabel():
                got_first = sorted(float(np.asarray(ln.get_xdata(), dtype=float)[0]) for ln in axes[0].lines)
                judged += 1
                run.check(len(got_first) == len(want_first) and bool(np.all(np.abs(np.array(got_first) - np.array(sorted(want_first))) <= 1e-6)),
                          "relative time axes start at the trajectories' own (offset) stamps minus the start time", case,
                          "evo_traj %s: the time axes start at %s, expected %s" % (argv[1:], got_first, sorted(want_first)),
                          key="cli-time:wrong-zero")
        run.check(judged >= 1, "a time-series figure of evo_traj was found", case, "no xyz / rpy figure found", key="cli-time:no-figure")
    finally:
        plt.close("all")
        shutil.rmtree(work, ignore_errors=True)


KINDS = {"seq": k_seq, "cli_time": k_cli_time}


def main(run):
    corpus = [{"mode": m, "unit": u, "seq": ["traj", "traj_colormap", "markers", "edges", "frames"]}
              for m in MODES for u in ("m", "km")]
    corpus += [{"seq": ["edges", "traj", "traj_colormap", "frames", "traj_xyz"], "dtype": d, "mode": m}
               for d in ("int", "float32") for m in ("xy", "zx", "xyz")]
    corpus += [{"seq": ["speeds", "traj_xyz", "speeds", "traj_rpy", "traj_xyz"]},
               {"seq": ["traj_xyz", "traj_rpy", "speeds", "error_array"]}]
    corpus += [{"seq": ["speeds", "traj_xyz"], "long_way": True, "n": nn, "dtype": "float64"} for nn in (8, 40, 41, 57)]
    # fresh objects of 2..6 poses in both storage modes, the time-series plots first
    corpus += [{"seq": sq, "n": nn, "smode": sm, "fresh": True}
               for nn in (2, 3, 4, 5, 6) for sm in ("xyzq", "se3") for sq in (["traj_rpy", "traj_xyz"], ["traj_xyz", "speeds", "traj_rpy"])]
    for i in run.mine(len(corpus)):
        k_seq(run, run.case("seq", 10**6 + i, **corpus[i]))
    for i in run.mine({"quick": 160, "thorough": 3000}[run.tier]):
        k_seq(run, run.case("seq", i))
    for i in run.mine({"quick": 24, "thorough": 300}[run.tier]):
        k_cli_time(run, run.case("cli_time", i))
    run.need("trajectory line drawn at the trajectory's own coordinates of the mode's axes",
             "colour-mapped segment k joins pose k and k+1", "start/end markers at the first/last pose",
             "correspondence edge k joins pose k of both trajectories",
             "frame marker starts at the pose position and points along the pose's own axis",
             "axis labels name the mode's axes and the length unit",
             "time-series plots use the trajectory's timestamps (shifted by the start time) / the pose index",
             "per-axis position plot shows that coordinate",
             "roll/pitch/yaw plot shows the pose's own Euler angles in degrees",
             "speed plot shows the speeds", "error-value plot shows the values against the given x array in order",
             "plotting leaves the trajectory as it was", "an unrelated current figure is left alone")
