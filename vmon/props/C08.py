"""
C08 - Trajectory operations have their documented effect and keep all views consistent.
History + executable model: a ShadowTrajectory (vmon/shadow.py) is stepped in lock-step with
the real PosePath3D / PoseTrajectory3D object through histories of operations interleaved with
partial reads of the representations (which is what exposes stale caches); after every step
the views that are read are compared with the shadow, at the end every view, the derived
quantities and evo's own check().
"""
import copy
import itertools
import math

import numpy as np

from vmon import core, gen, contracts, pipeline
from vmon import refmodel as rm
from vmon.shadow import ShadowTrajectory

ANCHORS = ['evo/core/trajectory.py', 'evo/core/lie_algebra.py']
LEVEL = "exploration"
SHARDS = {"quick": 8, "thorough": 16}
RULE = ("histories over the operation alphabet {left/right/propagating transform, Sim(3) left "
        "transform, scale, index reduction, down-sampling, motion filter, time crop, align, "
        "align_origin, project, copy} interleaved with partial reads of {positions, quaternions, "
        "matrices, euler, stamps}: bounded-exhaustive to depth 2 (quick) / 3 (thorough) over a "
        "fixed alphabet x read-after choice x both construction modes, random to length 15 on "
        "1..200 poses; distinct = digest of (initial poses, construction mode, history); "
        "non-trivial = history contains at least one operation")
ASSUMPTIONS = ["selection operations (downsample / motion filter) are followed through the "
               "object's own timestamps; their selection rule is C11's business",
               "the projected heading of non-planar poses is taken from the object after the "
               "C14 clauses passed (no statement fixes it)"]
PI = math.pi
VIEWS = ["p", "q", "T", "e", "d", "s"]


class Mismatch(Exception):
    pass


def euler_sxyz_to_R(a, b, c):
    return rm.rodrigues([0, 0, 1], c) @ rm.rodrigues([0, 1, 0], b) @ rm.rodrigues([1, 0, 0], a)


def read_and_compare(run, case, real, sh, views, step, opname):
    """read the given views from the real object and compare with the shadow"""
    tol_p = 1e-9 * sh.mag
    for vw in views:
        if vw == "p":
            got = np.array(real.positions_xyz, dtype=float)
            ok = got.shape == sh.p.shape and (sh.n == 0 or float(np.max(np.abs(got - sh.p))) <= tol_p)
            name = "positions match the model"
        elif vw == "q":
            got = np.array(real.orientations_quat_wxyz, dtype=float)
            ok = got.shape == (sh.n, 4)
            if ok:
                for k in range(sh.n):
                    if abs(float(np.linalg.norm(got[k])) - 1) > 1e-9 or \
                            float(np.max(np.abs(rm.rot_from_quat_wxyz(got[k]) - sh.R[k]))) > 1e-9:
                        ok = False
                        break
            name = "quaternions match the model"
        elif vw == "T":
            got = real.poses_se3
            ok = len(got) == sh.n
            if ok:
                for k in range(sh.n):
                    G = np.asarray(got[k], dtype=float)
                    if G.shape != (4, 4) or float(np.max(np.abs(G[:3, :3] - sh.R[k]))) > 1e-9 or \
                            float(np.max(np.abs(G[:3, 3] - sh.p[k]))) > tol_p or \
                            not np.array_equal(G[3], [0, 0, 0, 1]):
                        ok = False
                        break
            name = "pose matrices match the model"
        elif vw == "e":
            got = np.array(real.get_orientations_euler("sxyz"), dtype=float)
            ok = got.shape == (sh.n, 3)
            if ok:
                for k in range(sh.n):
                    cy = math.hypot(sh.R[k][0, 0], sh.R[k][1, 0])
                    # Euler angles are not one of the statement's representations and are
                    # ill-conditioned near gimbal lock (error ~ noise / cos(pitch), garbage within
                    # ~1e-8): they are compared only where they are well conditioned.
                    if cy <= 1e-3:
                        continue
                    if float(np.max(np.abs(euler_sxyz_to_R(*got[k]) - sh.R[k]))) > 1e-9 / cy:
                        ok = False
                        break
            name = "euler angles match the model"
        elif vw == "d":
            if sh.n < 1:
                continue
            tol = 1e-9 * sh.mag * max(1, sh.n)
            got = np.array(real.distances, dtype=float)
            ok = got.shape == (sh.n, ) and float(np.max(np.abs(got - sh.distances()))) <= tol and \
                abs(real.path_length - sh.path_length()) <= tol
            name = "accumulated distances / path length match the model (read between operations)"
        elif vw == "s":
            if sh.t is None or sh.n < 2:
                continue
            got = np.array(real.speeds, dtype=float)
            exp = sh.speeds()
            ok = got.shape == exp.shape and bool(np.all(np.abs(got - exp) <= 1e-9 * (np.abs(exp) + sh.mag / np.diff(sh.t))))
            name = "speeds match the model (read between operations)"
        elif vw == "t":
            got = np.array(real.timestamps, dtype=float)
            ok = got.shape == sh.t.shape and core.bits_equal(got, sh.t)
            name = "timestamps match the model"
        elif vw == "n":
            ok = real.num_poses == sh.n
            name = "pose count matches the model"
        else:
            raise KeyError(vw)
        run.counters[name] += 1
        run.extra.setdefault("op_then_read", {})
        run.extra["op_then_read"][opname + " -> " + vw] = \
            run.extra["op_then_read"].get(opname + " -> " + vw, 0) + 1
        if not ok:
            run.violation("view-disagrees:" + vw, "after step %d (%s) the %s read from the object "
                          "disagree with the documented effect of the operations so far" %
                          (step, opname, {"p": "positions", "q": "quaternions", "T": "pose matrices",
                                          "e": "euler angles", "t": "timestamps", "n": "pose count",
                                          "d": "accumulated distances / path length", "s": "speeds"}[vw]),
                          case, step=step, op=opname)
            raise Mismatch()


def final_checks(run, case, real, sh, stamped, step, opname):
    read_and_compare(run, case, real, sh, ["n", "p", "q", "T", "e"] + (["t"] if stamped else []),
                     step, opname)
    contracts.views_consistent(run, case, real, scale=sh.mag, pfx="class invariant")
    tol = 1e-9 * sh.mag * max(1, sh.n)
    if sh.n >= 1:
        pl = real.path_length
        run.check(abs(pl - sh.path_length()) <= tol, "path length follows from the poses", case,
                  "path_length %r but the poses give %r" % (pl, sh.path_length()),
                  key="derived:path-length")
        d = np.array(real.distances, dtype=float)
        run.check(d.shape == (sh.n, ) and float(np.max(np.abs(d - sh.distances()))) <= tol,
                  "accumulated distances follow from the poses", case,
                  "distances do not follow from the poses", key="derived:distances")
        info = real.get_infos()
        ok = info["nr. of poses"] == sh.n and abs(info["path length (m)"] - sh.path_length()) <= tol \
            and float(np.max(np.abs(np.asarray(info["pos_start (m)"]) - sh.p[0]))) <= tol \
            and float(np.max(np.abs(np.asarray(info["pos_end (m)"]) - sh.p[-1]))) <= tol
        if stamped:
            ok = ok and info["duration (s)"] == sh.t[-1] - sh.t[0] and info["t_start (s)"] == sh.t[0] \
                and info["t_end (s)"] == sh.t[-1]
        run.check(ok, "infos (count, path length, start/end, duration) follow from the poses", case,
                  "get_infos() does not follow from the poses: %r" % (info, ), key="derived:infos")
    if stamped and sh.n >= 2:
        sp = np.array(real.speeds, dtype=float)
        exp = sh.speeds()
        run.check(sp.shape == exp.shape and bool(np.all(np.abs(sp - exp) <= 1e-9 * (np.abs(exp) + sh.mag / np.diff(sh.t)))),
                  "speeds follow from poses and stamps", case, "speeds do not follow from the poses",
                  key="derived:speeds")
        st = real.get_statistics()
        run.check(abs(st["v_max (m/s)"] - float(np.max(exp))) <= 1e-9 * (float(np.max(exp)) + 1) * sh.mag and
                  st["dt_max (s)"] == float(np.max(np.diff(sh.t))), "statistics follow from the poses",
                  case, "get_statistics() does not follow from the poses", key="derived:statistics")
    valid, details = real.check()
    run.check(bool(valid), "evo's own check() passes", case,
              "check() reports invalid data: %r" % (details, ), key="check-fails")


# ------------------------------------------------------------------ operations
def rand_T(rng, mag):
    return rm.se3(gen.rot_of_class(rng, ["uniform", "axis_aligned", "small", "near_pi", "quarter_turns"][rng.integers(5)]),
                  rng.normal(size=3) * mag * 10.0**rng.uniform(-2, 1))


def gen_op(rng, sh, stamped, projected):
    """draw one operation (dict of plain data) applicable to the current model state"""
    names = ["tl", "tr", "trp", "sim", "scale", "ids", "align", "origin", "copy", "project"]
    if stamped:
        names += ["down", "mf", "crop"]
    else:
        names += ["down_path"]
    name = names[rng.integers(len(names))]
    if rng.random() < .04:
        name = "degenerate"
    mag = float(np.std(sh.p)) + 1e-2 if sh.n else 1.0
    op = {"op": name}
    if name == "degenerate":
        # a matrix outside SE(3)/Sim(3) (mirror image, singular block) offered to transform()
        T = rand_T(rng, mag)
        k = int(rng.integers(3))
        if k == 0:
            T[:3, :3] = T[:3, :3] @ np.diag([1.0, -1.0, 1.0])
        elif k == 1:
            T = np.diag([1.0, -1.0, 1.0, 1.0])
        else:
            T[:3, 2] = 0.0
        op["T"] = T
        op["right"] = bool(rng.random() < .3)
        return op
    if name in ("tl", "tr", "trp"):
        op["T"] = rand_T(rng, mag)
        if name != "tl" and rng.random() < .25:
            # a similarity multiplied from the right: every pose P becomes P*T with a valid rotation
            # block (the scale has no position to act on), also in the propagating variant
            op["T"][:3, :3] *= float(10.0**rng.uniform(-0.3, 0.3))
    elif name == "sim":
        T = rand_T(rng, mag)
        s = 10.0**rng.uniform(-0.3, 0.3)
        if rng.random() < .3:  # a similarity whose scale is close to, but not, 1
            s = 1.0 + (1 if rng.random() < .5 else -1) * 10.0**rng.uniform(-8, -3)
        T[:3, :3] *= s
        op["T"] = T
        op["flag_propagate"] = bool(rng.random() < .25)
    elif name == "scale":
        op["s"] = float(10.0**rng.uniform(-0.3, 0.3))
        if rng.random() < .15:
            op["s"] = -op["s"]  # any factor multiplies the positions only
    elif name == "ids":
        k = int(rng.integers(1, sh.n + 1))
        op["ids"] = sorted(rng.choice(sh.n, size=k, replace=False).tolist())
        if not stamped and rng.random() < .3:
            # any index list is a legal selection: re-ordered (e.g. an argsort) or with repeats,
            # also of full length with the end points in place
            ids = list(range(sh.n)) if rng.random() < .5 else list(op["ids"])
            if len(ids) > 3 and rng.random() < .5:
                mid = ids[1:-1]
                rng.shuffle(mid)
                ids = [ids[0]] + [int(v) for v in mid] + [ids[-1]]
            else:
                ids = [int(v) for v in rng.choice(ids, size=len(ids), replace=True)]
            op["ids"] = ids
        if rng.random() < .2:
            # from-the-end indices: the last k poses (range(-k, 0)), or any selection spelled that way
            if rng.random() < .5:
                op["ids"] = list(range(-int(rng.integers(1, sh.n + 1)), 0))
            else:
                op["ids"] = [int(i) - sh.n for i in op["ids"]]
        op["as_array"] = bool(rng.random() < .5)
    elif name in ("down", "down_path"):
        op["N"] = int(rng.integers(1, sh.n + 2))
    elif name == "mf":
        op["d"] = float(mag * 10.0**rng.uniform(-2, 0.5)) if rng.random() < .8 else 0.0
        op["a"] = float(rng.uniform(0, 90))
    elif name == "crop":
        i, j = sorted(rng.integers(0, sh.n, size=2).tolist())
        op["start"] = None if rng.random() < .2 else float(sh.t[i])
        op["end"] = None if rng.random() < .2 else float(sh.t[j])
    elif name == "align":
        op["cs"] = bool(rng.random() < .5)
        op["only"] = bool(rng.random() < .25)
        op["n"] = -1 if rng.random() < .6 or sh.n < 4 else int(rng.integers(3, sh.n + 1))
        op["seed"] = int(rng.integers(2**31))
    elif name == "origin":
        op["seed"] = int(rng.integers(2**31))
    elif name == "project":
        op["plane"] = ["xy", "xz", "yz"][rng.integers(3)]
    return op


def make_reference(sh, seed, stamped):
    """a reference trajectory for align / align_origin with as many poses as the model"""
    rng = np.random.default_rng(seed)
    ext = float(np.std(sh.p - sh.p.mean(axis=0))) + 1e-3  # extent of the path, not its distance from the origin
    A = rm.se3(gen.rand_rot(rng), rng.normal(size=3) * (ext + 1.0))
    s = 10.0**rng.uniform(-0.3, 0.3)
    p = (s * (A[:3, :3] @ sh.p.T)).T + A[:3, 3] + rng.normal(size=sh.p.shape) * ext * 0.05
    R = np.array([A[:3, :3] @ Rk for Rk in sh.R])
    t = sh.t if sh.t is not None else np.arange(sh.n, dtype=float)
    return {"p": p, "R": R, "t": np.array(t, dtype=float)}


def apply_op(run, case, real, sh, op, stamped, state, step):
    """apply op to the real object and the model; returns (real, sh) (copy replaces both)"""
    from evo.core.trajectory import Plane, TrajectoryException
    from evo.core.geometry import GeometryException
    name = op["op"]
    if name == "degenerate":
        # tried on a deep copy: if evo refuses the matrix, the refused object must still be the
        # trajectory it was (all views, compared with the unchanged model) and the history goes on
        # with it; if evo accepts it the result is outside the statement and the copy is dropped
        import copy as _copy
        from evo import EvoException
        probe = _copy.deepcopy(real)
        try:
            probe.transform(np.array(op["T"], dtype=float), right_mul=op["right"])
        except EvoException:
            run.hit("degenerate transformation refused")
            read_and_compare(run, case, probe, sh, ["T", "p", "q"] + (["t"] if stamped else []), step,
                             "refused transformation")
            return probe, sh
        except Exception:
            pass  # numpy's own complaint about the degenerate numbers: outside the statement as well
        run.hit("degenerate transformation accepted (copy dropped, not judged)")
        return real, sh
    if name == "tl" or name == "sim":
        if op.get("flag_propagate"):
            # (the propagation flag concerns right-hand-side transformations only; tools pass it along anyway)
            real.transform(np.array(op["T"], dtype=float), right_mul=False, propagate=True)
        else:
            real.transform(np.array(op["T"], dtype=float))
        sh.transform_left(op["T"])
    elif name == "tr":
        real.transform(np.array(op["T"], dtype=float), right_mul=True)
        sh.transform_right(op["T"])
    elif name == "trp":
        real.transform(np.array(op["T"], dtype=float), right_mul=True, propagate=True)
        sh.transform_right_propagate(op["T"])
    elif name == "scale":
        real.scale(op["s"])
        sh.scale(op["s"])
    elif name == "ids":
        ids = [i for i in op["ids"] if -sh.n <= i < sh.n] or [0]
        real.reduce_to_ids(np.array(ids) if op.get("as_array") else list(ids))
        sh.reduce([i % sh.n for i in ids])
    elif name == "down_path":
        before = sh.n
        real.downsample(op["N"])
        if op["N"] < before:
            ids = np.linspace(0, before - 1, op["N"], dtype=int)
            # follow the object's count, the evenly spaced rule itself is C11's business
            sh.reduce(ids)
    elif name in ("down", "mf", "crop"):
        before = {float(t): i for i, t in enumerate(sh.t)}
        if name == "down":
            real.downsample(op["N"])
        elif name == "mf":
            if sh.n < 2:
                return real, sh
            real.motion_filter(op["d"], op["a"], True)
        else:
            if op["start"] is not None and op["end"] is not None and op["start"] > op["end"]:
                return real, sh
            real.reduce_to_time_range(op["start"], op["end"])
        ts = np.array(real.timestamps, dtype=float)
        ids = [before.get(float(t)) for t in ts]
        ok = None not in ids and all(b > a for a, b in zip(ids, ids[1:]))
        run.check(ok, "selection keeps input stamps in order", case,
                  "%s produced timestamps that are not an ordered subset of the input" % name,
                  key="selection:not-subset")
        if not ok:
            raise Mismatch()
        if name == "mf":
            # documented effect: keep a pose exactly if, since the last kept pose, the travelled
            # path reached d or the rotation angle reached a (own selection rule; decisions within
            # rounding distance of a threshold are not judged)
            try:
                want = pipeline.motion_filter_ids(sh, op["d"], op["a"])
                run.check(ids == want, "motion filter keeps exactly the documented poses", case,
                          "motion_filter(%r, %r deg) kept %s.., the documented rule keeps %s.." %
                          (op["d"], op["a"], ids[:8], want[:8]), key="motion_filter:wrong-selection")
            except (pipeline.Ambiguous, pipeline.Refuse):
                run.hit("motion filter decision at a threshold (not judged)")
        if name == "down":
            want = pipeline.downsample_ids(sh.n, op["N"])
            run.check(ids == want, "down-sampling keeps the evenly spaced poses", case,
                      "downsample(%d) kept %s.., expected %s.." % (op["N"], ids[:8], want[:8]), key="downsample:wrong-selection")
        if name == "crop":
            s_eff = sh.t[0] if op["start"] is None else op["start"]
            e_eff = sh.t[-1] if op["end"] is None else op["end"]
            want = [i for i in range(sh.n) if s_eff <= sh.t[i] <= e_eff]
            run.check(ids == want, "crop keeps exactly start <= t <= end", case,
                      "crop kept %s.., expected %s.." % (ids[:5], want[:5]), key="crop:wrong-selection")
        sh.reduce(ids)
    elif name == "align":
        ref = make_reference(sh, op["seed"], stamped)
        ref_obj = gen.make_evo(ref, "se3", stamped)
        state.setdefault("partners", []).append((ref_obj, gen.make_evo(ref, "se3", stamped), "align"))
        out = contracts.outcome_of(real.align, ref_obj, op["cs"], op["only"], op["n"])
        # the alignment's documented effect is the Umeyama least-squares similarity of the
        # current positions onto the reference's (same oracle as C03, at this call site)
        used = sh.n if op["n"] == -1 else min(op["n"], sh.n)
        if step is not None and sh.n >= 3 and used >= 3:
            contracts.umeyama_oracle(run, case, sh.p[:used].T, ref["p"][:used].T, bool(op["cs"] or op["only"]), out,
                                     pfx="align-op")
        if out[0] == "exc":
            run.check(isinstance(out[1], GeometryException), "align refuses only with GeometryException",
                      case, "align raised %r" % (out[1], ), key="align:wrong-exception")
            run.hit("align refused inside a history (degenerate)")
            return real, sh
        r, t, s = out[1]
        sh.similarity(r, t, s, only_scale=op["only"])
    elif name == "origin":
        ref = make_reference(sh, op["seed"], stamped)
        ref_obj = gen.make_evo(ref, ["xyzq", "se3"][op["seed"] % 2], stamped)
        state.setdefault("partners", []).append((ref_obj, gen.make_evo(ref, ["xyzq", "se3"][op["seed"] % 2], stamped), "align_origin"))
        T = real.align_origin(ref_obj)
        sh.transform_left(T)
        run.check(float(np.max(np.abs(sh.p[0] - ref["p"][0]))) <= 1e-9 * (sh.mag + float(np.max(np.abs(ref["p"])))) and
                  float(np.max(np.abs(sh.R[0] - ref["R"][0]))) <= 1e-9,
                  "origin alignment maps the first pose onto the reference's", case,
                  "align_origin's returned transform does not map the first pose onto the "
                  "reference's first pose", key="origin:first-pose")
    elif name == "project":
        nd = {"xy": 2, "xz": 1, "yz": 0}[op["plane"]]
        out = contracts.outcome_of(real.project, Plane(op["plane"]))
        if state["projected"]:
            run.check(out[0] == "exc" and isinstance(out[1], TrajectoryException),
                      "second projection refused", case, "second projection was not refused",
                      key="project:second-accepted")
            return real, sh
        if out[0] == "exc" and state.get("readonly") and isinstance(out[1], ValueError) and "read-only" in str(out[1]):
            # project() works in place on the matrices the object was given: memory that cannot
            # be written is refused by numpy before anything changes (not a clause of C08)
            run.hit("projection of matrices in read-only memory stopped by numpy (not judged)")
            raise Mismatch()
        if out[0] == "exc":
            run.check(False, "project succeeds", case, "project raised %r" % (out[1], ))
            raise Mismatch()
        state["projected"] = True
        sh.project_positions(nd)
        # heading of non-planar poses is not fixed by a statement: adopt it after the C14 clause
        nrm = np.zeros(3)
        nrm[nd] = 1
        Ts = real.poses_se3
        worst = max([0.0] + [max(rm.rot_defect(np.asarray(P)[:3, :3]),
                                 float(np.max(np.abs(np.asarray(P)[:3, :3] @ nrm - nrm)))) for P in Ts])
        run.check(worst <= 1e-9 and len(Ts) == sh.n, "projected orientation is a rotation about the normal",
                  case, "projection left an orientation that is not a rotation about the normal "
                  "(%g)" % worst, key="project:not-about-normal")
        if worst > 1e-9 or len(Ts) != sh.n:
            raise Mismatch()
        sh.R = np.array([np.asarray(P, dtype=float)[:3, :3] for P in Ts])
    elif name == "copy":
        state["parents"].append((real, sh.copy()))
        real = copy.deepcopy(real)
        sh = sh.copy()
    else:
        raise KeyError(name)
    return real, sh


def check_partners(run, case, state, trace):
    """objects that were only read by an operation (alignment targets) still describe their own
    poses at the end of the history, whatever was done to the operated object since"""
    for obj, twin, how in state.get("partners", []):
        # (twin: built from the same arrays in the same way, never handed to anything)
        v, w = gen.read_views(obj), gen.read_views(twin)
        okp = all(core.bits_equal(v[k], w[k]) for k in w)
        run.check(okp, "reference of an alignment is left as it was", case,
                  "the reference handed to %s no longer describes its own poses at the end of the history %s" %
                  (how, list(trace)[-6:]), key="partner-modified:" + how)


def run_history(run, case, arr, mode, stamped, ops, label):
    real = gen.make_evo(arr, mode, stamped)
    sh = ShadowTrajectory(arr["R"], arr["p"], arr["t"] if stamped else None)
    state = {"projected": False, "parents": []}
    step = 0
    opname = "init"
    try:
        for step, op in enumerate(ops, 1):
            opname = op["op"]
            if op.get("pre"):
                read_and_compare(run, case, real, sh, op["pre"], step - 1, "pre-read")
            real, sh = apply_op(run, case, real, sh, op, stamped, state, step)
            run.hit("op:" + opname)
            if op.get("post"):
                read_and_compare(run, case, real, sh, op["post"], step, opname)
        final_checks(run, case, real, sh, stamped, step, opname)
        for parent, psh in state["parents"]:
            read_and_compare(run, case, parent, psh, ["p", "q", "T"] + (["t"] if stamped else []),
                             step, "copy (parent re-inspected)")
        check_partners(run, case, state, [o["op"] for o in ops])
    except Mismatch:
        pass
    except Exception as e:  # an operation of the documented alphabet must not crash
        run.violation("operation-crashed", "history step %d (%s) raised %s: %s" %
                      (step, opname, type(e).__name__, e), case, step=step, op=opname)


def k_random(run, case):
    rng = run.rng(case)
    n = int(rng.integers(1, 8) if rng.random() < .3 else rng.integers(1, {"quick": 60, "thorough": 200}[run.tier] + 1))
    arr = gen.traj_arrays(rng, n, pos_cls=["walk", "utm", "tiny", "circle", "stationary_mix", "grid", "intwalk"][rng.integers(7)],
                          stamp_cls=["epoch", "small", "dyadic", "irregular"][rng.integers(4)])
    for k in range(1, n):
        if arr["t"][k] <= arr["t"][k - 1]:
            arr["t"][k] = np.nextafter(arr["t"][k - 1], np.inf)
    if n >= 3 and rng.random() < .15 and not arr["cls"][0].endswith("+held"):
        gen.hold(rng, arr)  # stationary stretches (identical consecutive poses)
    mode = "se3" if rng.random() < .5 else "xyzq"
    if arr["cls"][0].endswith("+held") and rng.random() < .6:
        mode = "se3"
    stamped = bool(rng.random() < .6)
    L = int(rng.integers(1, 16))
    # ops are drawn against the evolving model size, so generate lazily through a closure
    sh_probe = ShadowTrajectory(arr["R"], arr["p"], arr["t"] if stamped else None)
    ops = LazyOps(rng, sh_probe, stamped, L)
    run.seen(case, core.digest(arr["p"], arr["R"], mode, stamped, case["rs"]),
             cls=["random history", "mode:" + mode, "stamped" if stamped else "path", "len %d" % L],
             sample={"n": n, "mode": mode, "stamped": stamped, "length": L, "classes": arr["cls"]})
    run_history_lazy(run, case, arr, mode, stamped, ops)


class LazyOps:
    def __init__(self, rng, sh, stamped, L):
        self.rng, self.stamped, self.L = rng, stamped, L
        self.amp = 1.0

    def next(self, sh, projected):
        op = gen_op(self.rng, sh, self.stamped, projected)
        rng = self.rng
        if op["op"] == "trp":
            # One propagating transformation multiplies the rounding error of the rotation
            # blocks by about the chain length (products of n relative poses, inverse taken
            # as transpose).  Keep the cumulated amplification <= 1e5 so that the 1e-9 oracle
            # tolerance stays meaningful (see DESIGN.md, C08 bounds); beyond it draw the
            # non-propagating variant instead.
            if self.amp * max(sh.n, 1) > 1e5:
                op["op"] = "tr"
            else:
                self.amp *= max(sh.n, 1)
        op["pre"] = [v for v in VIEWS if rng.random() < .25]
        op["post"] = [v for v in VIEWS if rng.random() < .3]
        return op


def run_history_lazy(run, case, arr, mode, stamped, lazy):
    fl = gen.rand_flavour(lazy.rng)
    if lazy.rng.random() < .12:
        fl = "readonly"  # the caller's arrays live in read-only memory
    if mode == "se3" and str(arr.get("cls", ("", ))[0]).endswith("+held") and lazy.rng.random() < .6:
        fl = "shared"  # identical consecutive poses as one array object
    if gen.all_integer(arr["p"]) and lazy.rng.random() < .5:
        fl = "int" + fl[fl.find("+"):] if "+" in fl else "int"  # whole-number data: half of it as integers
    real = gen.make_evo(arr, mode, stamped, flavour=fl)
    sh = ShadowTrajectory(arr["R"], arr["p"], arr["t"] if stamped else None)
    state = {"projected": False, "parents": [], "readonly": fl == "readonly"}
    step, opname = 0, "init"
    trace = []
    try:
        for step in range(1, lazy.L + 1):
            if sh.n == 0:
                break
            op = lazy.next(sh, state["projected"])
            opname = op["op"]
            trace.append(opname)
            if op["pre"]:
                read_and_compare(run, case, real, sh, op["pre"], step - 1, "pre-read")
            real, sh = apply_op(run, case, real, sh, op, stamped, state, step)
            run.hit("op:" + opname)
            if op["post"]:
                read_and_compare(run, case, real, sh, op["post"], step, opname)
        final_checks(run, case, real, sh, stamped, step, opname)
        for parent, psh in state["parents"]:
            read_and_compare(run, case, parent, psh, ["p", "q", "T"] + (["t"] if stamped else []),
                             step, "copy (parent re-inspected)")
        check_partners(run, case, state, trace)
    except Mismatch:
        pass
    except Exception as e:
        import traceback
        run.violation("operation-crashed", "history %s: step %d (%s) raised %s: %s" %
                      (trace, step, opname, type(e).__name__, e), case, step=step, op=opname,
                      tb=traceback.format_exc()[-800:])


# ------------------------------------------------------------------ bounded-exhaustive histories
def alphabet(stamped):
    T1 = rm.se3(rm.rodrigues([1, 2, 3], 0.7), [1.0, -2.0, 0.5])
    T2 = rm.se3(rm.rodrigues([0, 0, 1], PI / 2), [0.0, 3.0, 0.0])
    S = T1.copy()
    S[:3, :3] *= 2.0
    ops = [
        {"op": "tl", "T": T1}, {"op": "tr", "T": T2}, {"op": "trp", "T": T2}, {"op": "sim", "T": S},
        {"op": "scale", "s": 0.5}, {"op": "ids", "ids": [0, 2, 3]}, {"op": "align", "cs": True, "only": False, "n": -1, "seed": 5},
        {"op": "origin", "seed": 7}, {"op": "project", "plane": "xz"}, {"op": "copy"},
    ]
    if stamped:
        ops += [{"op": "down", "N": 3}, {"op": "mf", "d": 0.5, "a": 20.0}, {"op": "crop", "start": None, "end": None}]
    else:
        ops += [{"op": "down_path", "N": 3}]
    return ops


def k_exhaustive(run, case):
    """one block of the bounded-exhaustive history space"""
    stamped = case["stamped"]
    mode = case["mode"]
    depth = case["depth"]
    A = alphabet(stamped)
    reads = [[], ["p"], ["q"], ["T"], ["e"], ["d"]]
    steps = [(a, r) for a in range(len(A)) for r in range(len(reads))]
    space = itertools.product(range(len(steps)), repeat=depth)
    rng = np.random.default_rng(99)
    n = 5
    arr = gen.traj_arrays(rng, n, pos_cls="walk", rot_cls="uniform", stamp_cls="dyadic")
    for h_i, hist in enumerate(space):
        if h_i % case["nblocks"] != case["block"]:
            continue
        if case.get("only") is not None and h_i != case["only"]:
            continue
        ops = []
        for s_i in hist:
            a, r = steps[s_i]
            op = dict(A[a])
            op["post"] = reads[r]
            ops.append(op)
        sub = dict(case, only=h_i)
        run.seen(sub, core.digest(mode, stamped, hist), cls=["exhaustive depth %d" % depth, "mode:" + mode])
        run_history(run, sub, arr, mode, stamped, ops, "exh")


KINDS = {"random": k_random, "exhaustive": k_exhaustive}


def main(run):
    depth = {"quick": 2, "thorough": 3}[run.tier]
    nblocks = {"quick": 16, "thorough": 64}[run.tier]
    blocks = [{"stamped": st, "mode": m, "depth": depth, "nblocks": nblocks, "block": b}
              for st in (True, False) for m in ("se3", "xyzq") for b in range(nblocks)]
    for i in run.mine(len(blocks)):
        k_exhaustive(run, run.case("exhaustive", i, **blocks[i]))
    run.extra["exhaustive_history_depth"] = depth
    for i in run.mine({"quick": 1500, "thorough": 20000}[run.tier]):
        k_random(run, run.case("random", i))
    run.need("positions match the model", "quaternions match the model",
             "pose matrices match the model", "euler angles match the model",
             "timestamps match the model", "path length follows from the poses",
             "speeds follow from poses and stamps", "evo's own check() passes",
             "class invariant: matrices are rigid-body poses", "op:tl", "op:tr", "op:trp", "op:sim",
             "op:scale", "op:ids", "op:down", "op:mf", "op:crop", "op:align", "op:origin",
             "op:project", "op:copy")
