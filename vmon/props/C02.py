"""
C02 - RPE values equal the definition over exactly the selected pose pairs.
L1: contract on metrics.RPE.process_data with the pairs evo selected recorded at
metrics.id_pairs_from_delta (their correctness is C10's business); metamorphic rigid motions.
L3: evo_rpe in-process on generated files x options; the pair handed to RPE.process_data is
captured at the call boundary and compared with the reference pipeline, the stored values with
the definition over the recorded pairs.
"""
import math
import os

import numpy as np

from vmon import core, gen, contracts, cli, pipeline
from vmon import refmodel as rm
from vmon.shadow import ShadowTrajectory
from vmon.props import C01

ANCHORS = ['evo/core/metrics.py', 'evo/core/filters.py', 'evo/main_rpe.py']
LEVEL = "exploration"
SHARDS = {"quick": 8, "thorough": 16}
RULE = ("L1: pairs of pose sequences (as C01, with stationary stretches) x delta in "
        "frames/meters/radians/degrees x consecutive|all_pairs x pairs_from_reference x 7 "
        "relations; L3: generated file pairs x random evo_rpe option combinations x {tum, kitti, "
        "euroc}; distinct = digest of (inputs, metric parameters / options); non-trivial = at "
        "least one pair selected")
ASSUMPTIONS = ["pair selection itself is judged by C10; here the recorded pairs are the reference",
               "ambiguous threshold decisions of the reference pipeline are counted, not judged"]
PI = math.pi
RELS = C01.RELS
UNITS = ["frames", "meters", "radians", "degrees"]
UNIT_OF = dict(C01.UNIT_OF, point_distance_error_ratio="%")
CLI_REL = dict(C01.CLI_REL, point_distance_error_ratio="point_distance_error_ratio")
CLI_REL = {"full": "full_transformation", "trans_part": "translation_part",
           "rot_part": "rotation_part", "angle_deg": "rotation_angle_deg",
           "angle_rad": "rotation_angle_rad", "point_distance": "point_distance",
           "point_distance_error_ratio": "point_distance_error_ratio"}


class PairRecorder:
    """wraps metrics.id_pairs_from_delta to record what evo selected"""

    def __init__(self):
        self.calls = []

    def __enter__(self):
        from evo.core import metrics
        self._m = metrics
        self._orig = metrics.id_pairs_from_delta
        rec = self

        def w(poses, delta, delta_unit, rel_tol=0.1, all_pairs=False):
            call = {"pairs": [], "n": len(poses), "first_T": np.array(poses[0], dtype=float).copy(),
                    "args": {"delta": float(delta), "unit": getattr(delta_unit, "value", str(delta_unit)),
                             "rel_tol": float(rel_tol), "all_pairs": bool(all_pairs)}}
            rec.calls.append(call)
            out = rec._orig(poses, delta, delta_unit, rel_tol, all_pairs)
            call["pairs"] = [(int(i), int(j)) for i, j in out]
            return out

        metrics.id_pairs_from_delta = w
        return self

    def __exit__(self, *a):
        self._m.id_pairs_from_delta = self._orig


def tol_rel(relation, p_ref, p_est, defect=0.0):
    mag = 1.0 + float(np.max(np.abs(p_ref))) + float(np.max(np.abs(p_est)))
    if relation in ("rotation_part", "rotation_angle_rad"):
        return 1e-9 + 16 * defect
    if relation == "rotation_angle_deg":
        return 1e-7 + 16 * defect * 57.3
    if relation in ("full_transformation", "translation_part"):
        return 1e-9 * mag + 16 * defect * mag
    return 1e-9 * mag


def judge_values(run, case, relation, e, delta_ids, pairs, ref, est, factor, what, key_pfx):
    """error values / delta ids vs the definition over the recorded pairs; ref/est have .R .p"""
    want, kept = rm.rpe_definition(relation, ref.R, ref.p, est.R, est.p, pairs)
    surv = [pr for pr, k in zip(pairs, kept) if k]
    ok = run.check(len(e) == len(surv), what + ": one value per selected pair", case,
                   "%s: %d values for %d selected pairs (%d skipped for zero reference distance)" %
                   (what, len(e), len(surv), len(pairs) - len(surv)), key=key_pfx + ":length")
    ok &= run.check(list(delta_ids) == [j for i, j in surv],
                    what + ": pair end indices match the values in length and order", case,
                    "%s: delta ids %s.. do not match the selected pairs' end indices %s.." %
                    (what, list(delta_ids)[:6], [j for i, j in surv][:6]), key=key_pfx + ":delta-ids")
    if not ok:
        return False
    if len(pairs) != len(surv):
        run.hit("zero reference distances skipped (ratio)")
    if not len(e):
        return True
    if relation == "point_distance_error_ratio":
        # percent of the reference distance: relative tolerance, inflated by cancellation
        dr = np.array([np.linalg.norm(ref.p[j] - ref.p[i]) for i, j in surv])
        mag = 1.0 + float(np.max(np.abs(ref.p))) + float(np.max(np.abs(est.p)))
        tol = 1e-9 * 100.0 * mag / dr + 1e-9 * np.abs(want)
    else:
        tol = tol_rel(relation, ref.p, est.p, C01.rotation_defect(ref.R, est.R)) * abs(factor)
    dev = np.abs(np.asarray(e, dtype=float) - want * factor)
    run.note_max("max_deviation_over_tolerance", float(np.max(dev / tol)))
    return run.check(bool(np.all(dev <= tol)), what + ": value == definition on its pair", case,
                     "%s(%s): value deviates from the definition by %g at pair %s" %
                     (what, relation, float(np.max(dev)), surv[int(np.argmax(dev / tol))]),
                     key=key_pfx + ":not-definition")


class Arr:
    def __init__(self, a):
        self.R, self.p = a["R"], a["p"]


def k_direct(run, case):
    from evo.core import metrics
    from evo.core.filters import FilterException
    from evo.core.units import Unit
    rng = run.rng(case)
    nmax = {"quick": 120, "thorough": 800}[run.tier]
    n = int(case.get("n") or (rng.integers(2, 10) if rng.random() < .3 else rng.integers(2, nmax + 1)))
    relation = case.get("relation") or RELS[rng.integers(len(RELS))]
    unit = case.get("unit") or UNITS[rng.integers(4)]
    all_pairs = bool(rng.random() < .4)
    from_ref = bool(rng.random() < .4)
    if "all_pairs" in case:
        all_pairs = bool(case["all_pairs"])
    if unit in ("radians", "degrees") and all_pairs:
        n = min(n, 150)
    if case.get("big"):
        n = int(rng.integers(1030, 1400))  # beyond typical block / chunk sizes
    ref = gen.traj_arrays(rng, n, pos_cls=["walk", "utm", "stationary_mix", "grid", "circle", "tiny"][rng.integers(6)],
                          rot_cls=["smooth", "uniform"][rng.integers(2)] if case.get("big") else None)
    est = gen.perturbed_estimate(rng, ref, hostile=True)
    if rng.random() < .5 and not case.get("quarter"):
        A = gen.rand_se3(rng, tscale=float(np.std(ref["p"])) + 1)
        est["p"] = (A[:3, :3] @ est["p"].T).T + A[:3, 3]
        est["R"] = np.array([A[:3, :3] @ R for R in est["R"]])
    quarter = bool(case.get("quarter"))
    if quarter:
        # grid-world attitudes: both trajectories turn by exact quarter turns only (matrices of
        # 0 / +-1), independently of each other - the relative rotation errors are exact elements of
        # the cube group (0, 90, 120, 180 degrees)
        ref["R"] = np.array([gen.rot_of_class(rng, "quarter_turns") for _ in range(n)])
        est = dict(est, R=np.array([gen.rot_of_class(rng, "quarter_turns") for _ in range(n)]))
    sel = ref if from_ref else est
    seg = np.linalg.norm(np.diff(sel["p"], axis=0), axis=1)
    if unit == "frames":
        delta = int(rng.integers(1, n + 1))
        if rng.random() < .12:
            delta = int(rng.integers(n, 2 * n + 3))  # more frames than the trajectory has: no pair, refused
    elif unit == "meters":
        delta = float(np.sum(seg)) * 10.0**rng.uniform(-2, 0.1) + 1e-9
        if gen.all_integer(seg) and rng.random() < .7:
            delta = float(rng.integers(1, 7))  # grid data: the travelled path hits delta exactly
    else:
        delta = rng.uniform(0.05, PI) * (180 / PI if unit == "degrees" else 1)
    rel_tol = [0.01, 0.1, 0.5][rng.integers(3)]
    if case.get("big") and unit in ("radians", "degrees"):
        delta, rel_tol = rng.uniform(0.2, 2.5) * (180 / PI if unit == "degrees" else 1), 0.02
    m1 = "se3" if rng.random() < .5 else "xyzq"
    m2 = "se3" if rng.random() < .5 else "xyzq"
    if quarter:
        m1 = m2 = "se3"  # (the exact matrices themselves)
    t_ref = gen.make_evo(ref, m1, False, flavour=gen.rand_flavour(rng))
    t_est = gen.make_evo(est, m2, False, flavour=gen.rand_flavour(rng))
    gen.age(rng, t_ref), gen.age(rng, t_est)
    s1, s2 = contracts.field_snapshot(t_ref), contracts.field_snapshot(t_est)
    U = {"frames": Unit.frames, "meters": Unit.meters, "radians": Unit.radians, "degrees": Unit.degrees}[unit]
    metric = metrics.RPE(metrics.PoseRelation[relation], delta, U, rel_tol, all_pairs, from_ref)
    with core.quiet(), PairRecorder() as rec:
        out = contracts.outcome_of(metric.process_data, (t_ref, t_est))
    pairs = rec.calls[0]["pairs"] if rec.calls else []
    run.seen(case, core.digest(ref["p"], ref["R"], est["p"], est["R"], relation, unit, delta, all_pairs, from_ref),
             nontrivial=bool(pairs),
             cls=["L1 relation:" + relation, "L1 %s %s" % (unit, "all_pairs" if all_pairs else "consecutive"),
                  "pairs_from_reference" if from_ref else "pairs_from_estimate"],
             sample={"n": n, "relation": relation, "unit": unit, "delta": delta, "all_pairs": all_pairs,
                     "pairs_from_reference": from_ref, "outcome": out[0], "pairs_head": pairs[:4]})
    if out[0] == "exc":
        run.check(isinstance(out[1], FilterException) and not pairs, "RPE refuses only with FilterException "
                  "when no pair exists", case, "RPE.process_data raised %r" % (out[1], ), key="rpe:unexpected-exception")
        run.hit("L1 refusals (no pair for delta)")
        # a refusal is right only if the rule selects no pair at all (C10's oracles on an empty selection)
        from vmon.props import C10
        if unit == "meters" and all_pairs and len(seg):
            C10.check_all_pairs_path(run, case, [], seg, delta, delta * rel_tol, 1e-9 * (float(np.sum(seg)) + 1e-300))
        elif unit == "frames":
            run.check(delta >= n, "refusal in frame mode only when delta >= number of poses", case,
                      "RPE refused delta %r frames for %d poses" % (delta, n), key="rpe:refused-although-pairs-exist")
        return
    run.check(len(rec.calls) == 1, "pairs recorded at id_pairs_from_delta", case,
              "id_pairs_from_delta was reached %d times" % len(rec.calls))
    if unit == "meters" and not all_pairs and gen.all_integer(seg) and delta == int(delta) and pairs:
        # exact grid: the selected pairs themselves are decided without rounding (C10's chain oracle)
        from vmon.props import C10
        C10.check_consecutive(run, case, pairs, seg, delta, 0.0, "meters consecutive", "consec-path")
    if unit == "frames" and pairs:
        # frame deltas are decided without rounding: the evaluated pairs are exactly the delta-frame pairs (C10's rule)
        from vmon.props import C10
        C10.check_frames(run, case, pairs, n, int(delta), all_pairs)
    fwd = [(i, j) for (i, j) in pairs if not 0 <= i < j < n]
    if not run.check(not fwd, "RPE: every evaluated pair is a relative motion i -> j with 0 <= i < j < N", case,
                     "values were computed for %d pairs that are no forward pairs, e.g. %s" % (len(fwd), fwd[:3]),
                     key="rpe:pair-not-forward"):
        return
    if rec.calls:
        exp_first = rm.se3((ref if from_ref else est)["R"][0], (ref if from_ref else est)["p"][0])
        run.check(float(np.max(np.abs(rec.calls[0]["first_T"] - exp_first))) <= 1e-9 * (1 + float(np.max(np.abs(exp_first)))),
                  "pairs selected on the requested trajectory", case,
                  "pairs were selected on the %s although pairs_from_reference=%s" %
                  ("other trajectory", from_ref), key="rpe:pairs-from-wrong-trajectory")
    bad = contracts.snapshot_diff(s1, contracts.field_snapshot(t_ref)) + \
        contracts.snapshot_diff(s2, contracts.field_snapshot(t_est))
    run.check(not bad, "RPE leaves its inputs unchanged", case, "process_data modified %s" % bad,
              key="rpe:inputs-modified")
    e = np.asarray(metric.error, dtype=float)
    if not judge_values(run, case, relation, e, metric.delta_ids, pairs, Arr(ref), Arr(est), 1.0,
                        "RPE", "rpe"):
        return
    if relation.startswith("rotation_angle") and len(e):
        top = PI if relation.endswith("rad") else 180.0
        run.check(bool(np.all(e >= 0)) and bool(np.all(e <= top * (1 + 1e-12))), "RPE angle in [0, pi]", case,
                  "angle outside [0, pi]")
    # metamorphic 1: independent rigid motions of reference and estimate
    A, B = gen.rand_se3(rng, tscale=100.0), gen.rand_se3(rng, tscale=100.0)

    def moved(arr, T):
        return {"p": (T[:3, :3] @ arr["p"].T).T + T[:3, 3], "R": np.array([T[:3, :3] @ R for R in arr["R"]]),
                "t": arr["t"]}

    r2, e2 = moved(ref, A), moved(est, B)
    m2_ = metrics.RPE(metrics.PoseRelation[relation], delta, U, rel_tol, all_pairs, from_ref)
    with core.quiet(), PairRecorder() as rec2:
        o2 = contracts.outcome_of(m2_.process_data, (gen.make_evo(r2, m1, False), gen.make_evo(e2, m2, False)))
    if o2[0] == "ok" and rec2.calls and rec2.calls[0]["pairs"] == pairs:
        ee = np.asarray(m2_.error, dtype=float)
        if relation == "point_distance_error_ratio":
            tol = 1e-6 * (np.abs(e) + 1) * (1 + 1e3 / (np.abs(e) + 1e-300) * 0)  # ratio: relative
            mag = 1.0 + float(np.max(np.abs(r2["p"]))) + float(np.max(np.abs(e2["p"])))
            surv_dr = np.array([np.linalg.norm(ref["p"][j] - ref["p"][i]) for (i, j) in pairs
                                if np.linalg.norm(ref["p"][j] - ref["p"][i]) != 0])
            tol = 4e-9 * 100 * mag / surv_dr + 1e-9 * np.abs(e) if len(surv_dr) == len(e) else None
        else:
            tol = 4 * (tol_rel(relation, r2["p"], e2["p"]) + tol_rel(relation, ref["p"], est["p"]))
        if tol is not None and ee.shape == e.shape and len(e):
            run.check(bool(np.all(np.abs(ee - e) <= tol)), "RPE invariant under independent rigid motions",
                      case, "moving reference and estimate by different rigid motions changed the "
                      "values by %g" % float(np.max(np.abs(ee - e))), key="rpe:not-invariant")
    else:
        run.hit("invariance: selection moved by rounding (not compared)")
    # metamorphic 2: estimate performs the same relative motions -> zero
    if relation != "point_distance_error_ratio" or True:
        e3 = moved(ref, B)
        m3 = metrics.RPE(metrics.PoseRelation[relation], delta, U, rel_tol, all_pairs, from_ref)
        with core.quiet():
            o3 = contracts.outcome_of(m3.process_data, (gen.make_evo(ref, m1, False), gen.make_evo(e3, m2, False)))
        if o3[0] == "ok" and len(m3.error):
            ez = np.asarray(m3.error, dtype=float)
            if relation == "point_distance_error_ratio":
                good = bool(np.all(ez <= 1e-4))
            else:
                good = bool(np.all(ez <= 4 * tol_rel(relation, ref["p"], e3["p"]) * (57.3 if relation.endswith("deg") else 1)))
            run.check(good, "RPE zero for equal relative motions", case,
                      "RPE of a rigidly moved copy is not zero (max %g)" % float(np.max(ez)),
                      key="rpe:not-zero")


def k_unequal(run, case):
    from evo.core import metrics
    from evo.core.units import Unit
    rng = run.rng(case)
    n = int(rng.integers(3, 60))
    k = int(rng.integers(2, n))
    ref = gen.traj_arrays(rng, n)
    est = {kk: (v[:k] if isinstance(v, np.ndarray) else v) for kk, v in gen.perturbed_estimate(rng, ref).items()}
    if rng.random() < .5:
        ref, est = est, ref
    relation = RELS[rng.integers(7)]
    metric = metrics.RPE(metrics.PoseRelation[relation], 1, Unit.frames)
    with core.quiet():
        out = contracts.outcome_of(metric.process_data, (gen.make_evo(ref, "se3", False), gen.make_evo(est, "xyzq", False)))
    run.seen(case, core.digest(ref["p"], est["p"], relation), cls=["L1 unequal lengths"],
             sample={"n_ref": len(ref["p"]), "n_est": len(est["p"]), "outcome": out[0]})
    run.check(out[0] == "exc" and isinstance(out[1], metrics.MetricsException),
              "RPE: unequal lengths refused", case, "sequences of %d and %d poses were not refused: %r" %
              (len(ref["p"]), len(est["p"]), out[1]), key="rpe:unequal-accepted")


# ------------------------------------------------------------------ L3
class ProcessDataRecorder:
    """captures the pair handed to RPE.process_data (all views, copies) at the call boundary"""

    def __init__(self):
        self.data = []

    def __enter__(self):
        from evo.core import metrics
        self._m = metrics
        self._orig = metrics.RPE.process_data
        rec = self

        def w(self_, data):
            tr, te = data
            snap = []
            for t in (tr, te):
                T = np.array([np.array(P, dtype=float) for P in t.poses_se3])
                st = np.array(t.timestamps, dtype=float).copy() if hasattr(t, "timestamps") else None
                snap.append(ShadowTrajectory(T[:, :3, :3], T[:, :3, 3], st))
            rec.data.append(snap)
            try:
                return rec._orig(self_, data)
            finally:
                rec.delta_ids = [int(j) for j in self_.delta_ids]

        metrics.RPE.process_data = w
        return self

    def __exit__(self, *a):
        self._m.RPE.process_data = self._orig


def rpe_cli(run, case, rng, work):
    from evo.tools import settings
    fmt = case.get("fmt") or ["tum", "tum", "kitti", "euroc"][rng.integers(4)]
    rel_cli = list(CLI_REL)[rng.integers(len(CLI_REL))]
    relation = CLI_REL[rel_cli]
    # stand-still stretches make zero reference distances likely for the ratio variant
    still = relation == "point_distance_error_ratio" and rng.random() < .6
    if case.get("real"):
        fp = C01.real_file_pair(rng, work)
        fmt = fp["fmt"]
    else:
        fp = C01.make_file_pair(rng, fmt, work, pos_cls="stationary_mix" if still else None,
                                still_start=bool(case.get("still_start")),
                                stamp_cls="small" if "tmax_boundary" in case.get("force_options", ()) else None,
                                small_est=bool(case.get("small_est")))
    argv_o, o = C01.draw_common_options(rng, fp, force=case.get("force_options", ()))
    du = "fmrd"[rng.integers(4)] if rng.random() < .6 else "f"
    all_pairs = bool(rng.random() < .3)
    if "force_all_pairs" in case:
        all_pairs = bool(case["force_all_pairs"])
    if case.get("force_unit"):
        du = case["force_unit"]
    if case.get("real") and du in "rd":
        all_pairs = False  # the all-pairs angle search is O(n^2) on thousands of poses
    if du == "f":
        delta = float(rng.integers(1, 6))
    elif du == "m":
        delta = float(fp["ext"] * 10.0**rng.uniform(-1.5, 0))
        if o["correct_scale"] and (rng.random() < .6 or case.get("small_est")):
            # an estimate at a smaller metric scale (monocular): a delta longer than its raw path
            # but well inside the scale-corrected one
            try:
                parse = rm.parse_kitti if fmt == "kitti" else rm.parse_tum
                pe = parse(open(fp["est_path"]).read())[0 if fmt == "kitti" else 1]
                pr = (rm.parse_kitti if fmt == "kitti" else rm.parse_euroc if fmt == "euroc" else rm.parse_tum)(
                    open(fp["ref_path"]).read())[0 if fmt == "kitti" else 1]
                L_raw = float(np.sum(np.linalg.norm(np.diff(pe, axis=0), axis=1)))
                L_ref = float(np.sum(np.linalg.norm(np.diff(pr, axis=0), axis=1)))
                if 0 < L_raw * 1.05 < 0.4 * L_ref:
                    delta = float(rng.uniform(L_raw * 1.05, 0.4 * L_ref))
            except Exception:
                pass
    elif du == "r":
        delta = float(rng.uniform(0.1, 2.5))
    else:
        delta = float(rng.uniform(5, 150))
    argv = [fmt, os.path.basename(fp["ref_path"]), os.path.basename(fp["est_path"]),
            "-r", rel_cli, "--delta", repr(delta) if du != "f" else str(int(delta)),
            "--delta_unit", du] + argv_o
    tol = 0.1
    if rng.random() < .35 or "force_tol" in case:
        tol = float([0.0, 0.05, 0.3][rng.integers(3)])  # (0 is a legal tolerance: exact hits only)
        tol = float(case.get("force_tol", tol))
        argv += ["--delta_tol", ["0", "0.0"][rng.integers(2)] if tol == 0 else repr(tol)]
    if all_pairs:
        argv.append("--all_pairs")
    from_ref = bool(rng.random() < .3)
    if from_ref:
        argv.append("--pairs_from_reference")
    unit = None
    if rng.random() < .25:
        unit = ["mm", "cm", "m", "km", "deg", "rad"][rng.integers(6)]
        if C01.UNIT_OF.get(relation) in ("deg", "rad") and rng.random() < .5:
            unit = C01.UNIT_OF.get(relation)  # a conversion to the unit the values already have
        argv += ["--change_unit", unit]
    argv += ["--save_results", "out.zip", "--no_warnings"]
    argv = C01.group_short_flags(rng, argv, o, force=case.get("group"))
    if rng.random() < .2:
        argv = C01.move_to_config(rng, argv, work, 3)
    dict.__setitem__(settings.SETTINGS, "save_traj_in_zip", True)
    try:
        with PairRecorder() as prec, ProcessDataRecorder() as drec:
            res = cli.run_cli("rpe", argv, cwd=work)
    finally:
        dict.__setitem__(settings.SETTINGS, "save_traj_in_zip", False)
    got = C01.outcome_class(res)
    run.seen(case, core.digest(open(fp["ref_path"]).read(), open(fp["est_path"]).read(), argv),
             cls=["L3 fmt:" + fmt, "L3 relation:" + rel_cli, "L3 delta_unit:" + du,
                  "L3 all_pairs" if all_pairs else "L3 consecutive"] +
             (["L3 real dataset: %s / %s" % fp["real"]] if "real" in fp else []) +
             ["opt:" + k for k, v in o.items() if v and v != -1 and k not in ("t_max_diff", )] +
             (["opt:change_unit"] if unit else []) + (["opt:pairs_from_reference"] if from_ref else []),
             sample={"argv": argv, "outcome": got or "ok"})
    try:
        P = C01.reference_processing(fp, o)
        if P.ref.n != P.est.n:
            raise pipeline.Refuse("MetricsException", "unequal lengths")
    except pipeline.Ambiguous as a:
        run.hit("L3 ambiguous (not judged): " + str(a))
        return None
    except pipeline.Refuse as r:
        run.check(got == r.kind, "evo_rpe refuses what the documentation refuses", case,
                  "expected %s (%s) but evo_rpe gave %s" % (r.kind, r, got or "a result"),
                  key="cli:refusal-mismatch", argv=argv)
        run.hit("L3 refusals agreed" if got == r.kind else "L3 refusal mismatch")
        return None
    if prec.calls:
        a = prec.calls[0]["args"]
        want_unit = {"f": "frames", "m": "m", "r": "rad", "d": "deg"}[du]
        run.check(a["rel_tol"] == tol and a["delta"] == delta and a["all_pairs"] == all_pairs and a["unit"] == want_unit,
                  "the pair selection receives the requested delta, unit, tolerance and mode", case,
                  "evo_rpe was asked for delta=%r %s tol=%r all_pairs=%r but selected pairs with %r" %
                  (delta, want_unit, tol, all_pairs, a), key="cli:selection-options", argv=argv)
    # the metric stage itself may legitimately refuse: no pair for delta, angle delta range, unit
    if got == "FilterException" and (not prec.calls or not prec.calls[0]["pairs"]):
        run.hit("L3 refusals agreed (no pair for this delta - selection is C10's business)")
        # ... but a refusal is right only when the processed trajectory really has no pair
        sel_p = (P.ref if from_ref else P.est).p
        seg_p = np.linalg.norm(np.diff(sel_p, axis=0), axis=1) if len(sel_p) > 1 else np.zeros(0)
        if du == "m" and len(seg_p) and P.cond < 1e3:
            from vmon.props import C10
            band = 1e-6 * (float(np.sum(seg_p)) + 1e-300)
            if all_pairs:
                C10.check_all_pairs_path(run, case, [], seg_p, delta, delta * tol, band)
            else:
                marks, acc = 0, 0.0
                for sgm in seg_p:
                    acc += float(sgm)
                    if acc >= delta * (1 + 1e-6):
                        marks, acc = marks + 1, 0.0
                run.check(marks < 2, "a metre delta is refused only when the processed path has no pair", case,
                          "evo_rpe refused delta %r m although the processed %s reaches it %d times in a row" %
                          (delta, "reference" if from_ref else "estimate", marks), key="cli:refused-although-pairs-exist", argv=argv)
        elif du == "f":
            run.check(int(delta) >= len(sel_p), "a frame delta is refused only when it is not smaller than the pose count", case,
                      "evo_rpe refused delta %d frames for %d processed poses" % (int(delta), len(sel_p)),
                      key="cli:refused-although-pairs-exist", argv=argv)
        return None
    try:
        factor = C01.unit_factor(UNIT_OF[relation] if UNIT_OF[relation] != "%" else None, unit)
    except pipeline.Refuse as r:
        run.check(got == r.kind, "evo_rpe refuses what the documentation refuses", case,
                  "expected %s (%s) but evo_rpe gave %s" % (r.kind, r, got or "a result"),
                  key="cli:refusal-mismatch", argv=argv)
        run.hit("L3 refusals agreed" if got == r.kind else "L3 refusal mismatch")
        return None
    if relation == "point_distance_error_ratio" and prec.calls and drec.data:
        rs_, es_ = drec.data[0]
        if all(np.array_equal(rs_.p[i], rs_.p[j]) for i, j in prec.calls[0]["pairs"]):
            # every selected pair has a zero reference distance: no value survives; what evo does
            # with an empty value list (it fails in the statistics) is outside the statement
            run.hit("L3 all pairs skipped for zero reference distance (outcome not judged)")
            return None
    if got is not None and o.get("plot") and not os.path.exists(os.path.join(work, "out.zip")) and \
            ("minvalue must be less than or equal to maxvalue" in str(res.exc) or case.get("exe")):
        # a colour-map limit on the wrong side of the value range makes the plot fail before
        # anything is stored: no values, nothing to judge
        run.hit("L3 plot refused inconsistent colour-map limits before storing (not judged)")
        return None
    if not run.check(got is None, "evo_rpe succeeds on valid input", case,
                     "evo_rpe failed with %s: %s (argv %s)" % (got, res.exc, argv),
                     key="cli:unexpected-failure", argv=argv):
        return None
    if not run.check(len(drec.data) == 1 and len(prec.calls) == 1, "metric stage observed once", case,
                     "RPE.process_data / id_pairs_from_delta reached %d / %d times" %
                     (len(drec.data), len(prec.calls))):
        return None
    processed = drec.data[0]
    if not C01.compare_processed(run, case, P, processed, o, "evo_rpe"):
        return None
    ref_s, est_s = processed
    pairs = prec.calls[0]["pairs"]
    sel = ref_s if from_ref else est_s
    run.check(prec.calls[0]["n"] == sel.n and
              float(np.max(np.abs(prec.calls[0]["first_T"][:3, 3] - sel.p[0]))) <= 1e-9 * (1 + float(np.max(np.abs(sel.p)))),
              "pairs chosen on the processed trajectory", case,
              "the pairs were not selected on the processed %s" % ("reference" if from_ref else "estimate"),
              key="cli:pairs-from-wrong-trajectory")
    z = C01.read_result_zip(os.path.join(work, "out.zip"))
    e = np.asarray(z["arrays"]["error_array"], dtype=float)
    want, kept = rm.rpe_definition(relation, ref_s.R, ref_s.p, est_s.R, est_s.p, pairs)
    surv = [pr for pr, k in zip(pairs, kept) if k]
    judge_values(run, case, relation, e, drec.delta_ids, pairs, ref_s, est_s, factor, "evo_rpe", "cli")
    return {"z": z, "processed": processed, "pairs": pairs, "surv": surv, "P": P, "o": o, "from_ref": from_ref,
            "selection": {"delta": delta, "unit": du, "tol": tol, "all_pairs": all_pairs},
            "relation": relation, "unit": unit, "factor": factor, "fp": fp, "argv": argv, "tool": "rpe",
            "want": np.asarray(want, dtype=float) * factor,
            "stored": C01.stored_pair(z, fp)}


k_cli = C01.with_workdir(rpe_cli)
from vmon import threads as _threads
k_threads = _threads.k_evaluation('rpe', 'RPE evaluation', 'threads:rpe-not-reentrant')


def k_pair_ends(run, case):
    """
    main_rpe.rpe() reports, next to the values, the pose every value belongs to (the end pose of
    its pair): timestamps[k] is the estimate's stamp at the end of pair k - also when several pairs
    share an end pose, and when there happen to be exactly as many pairs as poses minus one.
    Small trajectories, all-pairs mode with an angle delta; the delta is searched so that the
    number of pairs equals the number of poses minus one whenever such a delta exists.
    """
    from evo import main_rpe
    from evo.core import metrics
    from evo.core.units import Unit
    from evo.core.filters import FilterException
    rng = run.rng(case)
    n = int(rng.integers(4, 10))
    ref = gen.traj_arrays(rng, n, rot_cls="uniform", stamp_cls="small")
    for k in range(1, n):
        if ref["t"][k] <= ref["t"][k - 1]:
            ref["t"][k] = ref["t"][k - 1] + 1e-3
    est = gen.perturbed_estimate(rng, ref, hostile=False)
    poses = [rm.se3(Rk, pk) for Rk, pk in zip(est["R"], est["p"])]
    chosen = None
    for _ in range(60):
        delta, tol = float(rng.uniform(0.2, 2.8)), float(rng.uniform(0.05, 0.6))
        try:
            with core.quiet():
                pr = [tuple(map(int, x)) for x in metrics.id_pairs_from_delta(poses, delta, Unit.radians, tol, True)]
        except FilterException:
            continue
        if chosen is None:
            chosen = (delta, tol, pr)
        if len(pr) == n - 1 and [j for _, j in pr] != list(range(1, n)):
            chosen = (delta, tol, pr)
            break
    if chosen is None:
        run.hit("pair ends: no delta with pairs found (not judged)")
        return
    delta, tol, pr = chosen
    t_ref, t_est = gen.make_evo(ref, "xyzq", True), gen.make_evo(est, "se3" if rng.random() < .5 else "xyzq", True)
    with core.quiet():
        out = contracts.outcome_of(main_rpe.rpe, t_ref, t_est, metrics.PoseRelation.translation_part, delta, Unit.radians,
                                   rel_delta_tol=tol, all_pairs=True)
    coincide = len(pr) == n - 1
    run.seen(case, core.digest(est["p"], est["R"], delta, tol), cls=["pair ends reported by rpe()", "pairs == poses - 1" if coincide else "other pair count"],
             sample={"n": n, "delta": delta, "tol": tol, "pairs": pr[:6]})
    if not run.check(out[0] == "ok", "rpe() returns", case, "rpe() raised %r" % (out[1], ), key="pair-ends:raised"):
        return
    A = out[1].np_arrays
    e = np.asarray(A["error_array"], dtype=float)
    ends = [j for _, j in pr]
    ts = np.asarray(A.get("timestamps", []), dtype=float)
    run.check(len(e) == len(pr) and ts.shape == e.shape and core.bits_equal(ts, est["t"][ends]),
              "reported timestamps are the stamps of the pair end poses, one per value", case,
              "rpe() selected the pairs %s but reports the stamps %s (pair ends have stamps %s)" %
              (pr[:6], ts[:6].tolist(), est["t"][ends][:6].tolist()), key="pair-ends:wrong-timestamps")


KINDS = {"pair_ends": k_pair_ends, "threads": k_threads, "direct": k_direct, "unequal": k_unequal, "cli": k_cli}


def main(run):
    corpus = [{"relation": r, "unit": u, "n": n} for r in RELS for u in UNITS for n in (2, 9)]
    for i in run.mine(len(corpus)):
        k_direct(run, run.case("direct", 10**6 + i, **corpus[i]))
    for i in run.mine({"quick": 1200, "thorough": 30000}[run.tier]):
        k_direct(run, run.case("direct", i))
    for i in run.mine({"quick": 4, "thorough": 32}[run.tier]):
        k_direct(run, run.case("direct", 2 * 10**6 + i, big=True, unit=["degrees", "radians", "meters", "frames"][i % 4],
                               all_pairs=True))
    for i in run.mine({"quick": 40, "thorough": 800}[run.tier]):
        k_direct(run, run.case("direct", 3 * 10**6 + i, quarter=True, n=int(6 + i % 20), unit="frames",
                               relation=["rotation_angle_rad", "rotation_angle_deg", "full_transformation", "rotation_part"][i % 4]))
    for i in run.mine({"quick": 12, "thorough": 200}[run.tier]):
        k_threads(run, run.case("threads", i))
    for i in run.mine({"quick": 120, "thorough": 3000}[run.tier]):
        k_pair_ends(run, run.case("pair_ends", i))
    for i in run.mine({"quick": 100, "thorough": 2000}[run.tier]):
        k_unequal(run, run.case("unequal", i))
    for i in run.mine({"quick": 400, "thorough": 8000}[run.tier]):
        k_cli(run, run.case("cli", i))
    for i in run.mine({"quick": 8, "thorough": 160}[run.tier]):
        k_cli(run, run.case("cli", 10**6 + i, real=True))
    for i in run.mine({"quick": 36, "thorough": 360}[run.tier]):
        g = C01.GROUPS[i % len(C01.GROUPS)]
        k_cli(run, run.case("cli", 3 * 10**6 + i, group=g, force_all_pairs=False, force_unit="fm"[(i // len(C01.GROUPS)) % 2],
                            force_options=(["align"] if "a" in g else []) + (["scale"] if "s" in g else [])))
    run.need("reported timestamps are the stamps of the pair end poses, one per value", "concurrent rounds: RPE evaluation", "RPE: value == definition on its pair", "RPE: one value per selected pair",
             "RPE: pair end indices match the values in length and order",
             "RPE: unequal lengths refused", "RPE invariant under independent rigid motions",
             "RPE zero for equal relative motions", "zero reference distances skipped (ratio)",
             "evo_rpe: value == definition on its pair",
             "evo_rpe: processed positions follow the documented order",
             "pairs chosen on the processed trajectory", "L3 refusals agreed")
