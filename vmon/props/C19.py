"""
C19 - The settings file stays loadable across crashes and concurrent starts.
Level: fault_enumeration.
 (1) crash-point enumeration with kill semantics: vmon/failpoint.py kills a real child process
     (os._exit) at EVERY Python-level call boundary (sys.monitoring CALL / C_RETURN) of
     evo/tools/settings.py and evo/main_config.py in seven scenarios, plus torn-write variants
     (1 byte / half / all-but-one of the data of every write() call); after each death the
     disk state is classified and a real fresh evo process must start and see every default key.
 (2) racing starts: N real processes released together on an empty HOME, each with seeded yield
     injection at the settings module's call boundaries; a polling watcher process parses
     settings.json in a tight loop for the whole round.
"""
import hashlib
import json
import os
import shutil
import subprocess
import sys
import time

from vmon import core

ANCHORS = ['evo/tools/settings.py', 'evo/main_config.py']
LEVEL = "fault_enumeration"
SHARDS = {"quick": 8, "thorough": 16}
RULE = ("crash points = every CALL/C_RETURN event of the settings code in scenarios {import on empty "
        "HOME, version upgrade, evo_config reset -y, reset subset, set, set -m (hard), set -m --soft} "
        "(quick: every point of import/upgrade/set + every 3rd of the others; thorough: all) plus "
        "torn-write variants; racing rounds with N in {2,4,8,12,16} processes; distinct = (scenario, "
        "crash point, variant) / interleaving signature; non-trivial = the crash point lies after "
        "the first file-system step / round has >= 2 racers")
ASSUMPTIONS = ["every state-changing system call is issued by its own Python-level call and is "
               "therefore bracketed by a before- and an after-crash-point",
               "os._exit leaves on disk what kill -9 would (no buffer flush, no finally blocks)",
               "rename(2) is atomic; CLOCK_MONOTONIC is system wide"]
SCENARIOS = ["import", "upgrade", "set", "reset_all", "reset_subset", "merge_hard", "merge_soft",
             "set_rel", "merge_soft_rel", "set_dotdot",
             # the first command after a package upgrade (outdated assets_version) edits the settings
             "upgrade_reset_all", "upgrade_reset_subset", "upgrade_set"]
PY = sys.executable


ZONES = [None, "UTC0", "PST8PDT", "CET-1CEST", "NZST-12NZDT", "HST10", "IST-5:30"]


def env_for(home, variant=0):
    """environment of a child; `variant` selects ambient settings the outcome must not depend on
    (time zone west / east of UTC, locale)"""
    env = dict(os.environ)
    env["HOME"] = home
    env["PYTHONPATH"] = os.pathsep.join([str(core.VERIF), str(core.REPO)])
    tz = ZONES[variant % len(ZONES)]
    env.pop("TZ", None)
    if tz:
        env["TZ"] = tz
    if variant % 3 == 1:
        env["LC_ALL"] = "C"
    elif variant % 3 == 2:
        env["LC_ALL"] = "C.UTF-8"
    # a desktop session (DISPLAY names an X server) selects another default plot backend
    env.pop("DISPLAY", None)
    if variant % 2 == 1:
        env["DISPLAY"] = ":0"
    return env


def child(home, args, timeout=60, variant=0, extra_env=None):
    env = env_for(home, variant)
    env.update(extra_env or {})
    p = subprocess.run([PY, "-m", "vmon.failpoint"] + [str(a) for a in args], env=env,
                       capture_output=True, text=True, timeout=timeout, cwd=os.path.dirname(home))
    info = None
    for line in p.stdout.splitlines()[::-1]:
        if line.startswith("{"):
            try:
                info = json.loads(line)
                break
            except Exception:
                pass
    return p.returncode, info, p.stderr[-500:]


def apply_layout(base, home, layout):
    """dot-file manager layouts: ~/.evo/settings.json or ~/.evo itself is a symbolic link"""
    evo = os.path.join(home, ".evo")
    store = os.path.join(base, "dotfiles")
    os.makedirs(store, exist_ok=True)
    if layout == "symlink_file":
        os.makedirs(evo, exist_ok=True)
        target = os.path.join(store, "settings.json")
        src = os.path.join(evo, "settings.json")
        if os.path.exists(src) and not os.path.islink(src):
            shutil.move(src, target)
        if not os.path.lexists(src):
            os.symlink(target, src)  # (dangling for a first start)
    elif layout == "symlink_dir":
        real = os.path.join(store, "evo")
        if os.path.isdir(evo) and not os.path.islink(evo):
            shutil.move(evo, real)
        else:
            os.makedirs(real, exist_ok=True)
        if not os.path.lexists(evo):
            os.symlink(real, evo)


OLD_STAMPS = ["v0.0.1-old", "v1.4.0", "v1.9.2", "v1.12.0", "v1.30.5", "v1.5.1", "v1.31.0", "1.13.5", "v1.8.0", "v2.0.0",
              "v1.31.1\n", "v0.9"]


def prepare_home(base, scenario, layout="plain", stamp=None):
    """returns a HOME path prepared for the scenario (fresh directory)"""
    home = _prepare_home(base, scenario, stamp)
    if layout != "plain":
        apply_layout(base, home, layout)
    return home


def _prepare_home(base, scenario, stamp=None):
    home = os.path.join(base, "home")
    if os.path.exists(home):
        shutil.rmtree(home)
    if os.path.exists(os.path.join(base, "dotfiles")):
        shutil.rmtree(os.path.join(base, "dotfiles"))
    os.makedirs(home)
    if scenario == "import":
        return home
    # initialised installation
    rc, info, err = child(home, ["import", "count"])
    assert rc == 0, (rc, err)
    evo = os.path.join(home, ".evo")
    if scenario.startswith("upgrade"):
        cfg = json.load(open(os.path.join(evo, "settings.json")))
        for k in ("plot_split", "save_traj_in_zip", "ros_map_alpha_value"):
            cfg.pop(k)
        cfg["plot_linewidth"] = 7.5  # a user value
        import zlib as _z
        for k in range([0, 3, 5, 2][_z.crc32((base + "legacy").encode()) % 4]):
            cfg["setting_removed_in_a_later_release_%d" % k] = k  # (as many / more obsolete keys as new ones are missing)
        open(os.path.join(evo, "settings.json"), "w").write(json.dumps(cfg, indent=4, sort_keys=True))
        # the stamp of the release that wrote the home (varies with the cell: older and newer
        # releases, one- and two-digit components, a stamp without the leading "v", a newer one
        # as left behind by another environment sharing the home)
        import zlib
        stamp = stamp or OLD_STAMPS[zlib.crc32(base.encode()) % len(OLD_STAMPS)]
        open(os.path.join(evo, "assets_version"), "w").write(stamp)
    if scenario.startswith("merge"):
        open(os.path.join(base, "other.json"), "w").write(json.dumps({"plot_split": True, "plot_linewidth": 4.0,
                                                                       "extra_key": "x"}))
    return home


def classify(home):
    evo = os.path.join(home, ".evo")
    if not os.path.isdir(evo):
        return "no-dir", None
    p = os.path.join(evo, "settings.json")
    ver = "version:" + ("absent" if not os.path.exists(os.path.join(evo, "assets_version")) else
                        ("empty" if os.path.getsize(os.path.join(evo, "assets_version")) == 0 else "present"))
    others = sorted(f for f in os.listdir(evo) if f not in ("settings.json", "assets_version", "evo.log"))
    extra = "+tmp" if others else ""
    if not os.path.exists(p):
        return "settings:absent," + ver + extra, None
    data = open(p, "rb").read()
    if len(data) == 0:
        return "settings:EMPTY," + ver + extra, data
    try:
        obj = json.loads(data.decode("utf-8"))
        if isinstance(obj, dict):
            return "settings:complete," + ver + extra, data
        return "settings:OTHER," + ver + extra, data
    except Exception:
        return "settings:PARTIAL," + ver + extra, data


def fresh_start(home, variant=0):
    rc, info, err = child(home, ["import", "count"], variant=variant)
    return rc, (info or {}).get("err", "") + err[-200:]


def k_crash(run, case):
    scenario, K, variant = case["scenario"], case["K"], case["variant"]
    layout = case.get("layout", "plain")
    base = os.path.join(os.environ.get("VMON_WORK", "."), "crash_%s_%s_%d_%s" % (scenario, layout, K, variant))
    os.makedirs(base, exist_ok=True)
    try:
        home = prepare_home(base, scenario, layout)
        rc, info, err = child(home, [scenario, "crash", K, variant], variant=K)
        state, data = classify(home)
        run.seen(case, core.digest(scenario, K, variant, layout), nontrivial=state != "no-dir",
                 cls=["scenario:" + scenario, "variant:" + variant, "layout:" + layout, "state after death: " + state],
                 sample={"scenario": scenario, "crash_point": K, "variant": variant, "child_rc": rc,
                         "disk_state": state})
        run.extra.setdefault("disk_states_seen", [])
        if state not in run.extra["disk_states_seen"]:
            run.extra["disk_states_seen"].append(state)
        if rc != 77:
            run.hit("crash point beyond the end of the scenario (child finished, rc=%s)" % rc)
        else:
            run.hit("children killed at a crash point")
        run.check("EMPTY" not in state and "PARTIAL" not in state and "OTHER" not in state,
                  "settings file is absent or a complete JSON document after a kill", case,
                  "%s killed at call boundary %d (%s): settings.json is left %s (%d bytes)" %
                  (scenario, K, variant, state, len(data or b"")), key="crash:%s-leaves-incomplete-file" % scenario,
                  head=(data or b"")[:80])
        rc2, err2 = fresh_start(home, variant=K)
        run.check(rc2 == 0, "a fresh start after the kill loads its settings with every default key", case,
                  "%s killed at call boundary %d (%s, disk: %s): the next evo start fails (rc=%s): %s" %
                  (scenario, K, variant, state, rc2, err2[-300:]), key="crash:%s-bricks-next-start" % scenario)
        state2, _ = classify(home)
        run.check(state2.startswith("settings:complete"), "settings complete after the fresh start", case,
                  "after the fresh start the settings file is %s" % state2, key="crash:not-repaired")
        if scenario == "upgrade" and rc2 == 0:
            cfg = json.load(open(os.path.join(home, ".evo", "settings.json")))
            run.check(cfg.get("plot_linewidth") == 7.5, "user value survives crash + restart during an upgrade",
                      case, "user value lost: plot_linewidth=%r" % cfg.get("plot_linewidth"),
                      key="crash:user-value-lost")
    finally:
        shutil.rmtree(base, ignore_errors=True)


WATCHER = r'''
import json, os, sys, time
path, stop = sys.argv[1], sys.argv[2]
t = {"absent": 0, "complete": 0, "empty": 0, "partial": 0}
while not os.path.exists(stop):
    try:
        with open(path, "rb") as f:
            d = f.read()
    except FileNotFoundError:
        t["absent"] += 1
        continue
    except OSError:
        continue
    if not d:
        t["empty"] += 1
        continue
    try:
        json.loads(d.decode("utf-8")); t["complete"] += 1
    except Exception:
        t["partial"] += 1
print(json.dumps(t))
'''


def k_race(run, case):
    N, seed = case["N"], case["rs"][-1]
    lead = case.get("lead", "import")  # what racer 0 does; the others start evo (import)
    base = os.path.join(os.environ.get("VMON_WORK", "."), "race_%d_%d" % (N, seed))
    os.makedirs(base, exist_ok=True)
    try:
        home = prepare_home(base, lead)
        if case.get("after_crash") is not None:
            # debris of an earlier start that was killed, a few seconds old (whatever it left
            # behind: a partial ~/.evo, a temporary file, a lock a later version may use)
            child(home, ["import", "crash", int(case["after_crash"]), "kill"], variant=int(case["after_crash"]))
            time.sleep(2.6)
        go = os.path.join(base, "go")
        stop = os.path.join(base, "stop")
        w = subprocess.Popen([PY, "-c", WATCHER, os.path.join(home, ".evo", "settings.json"), stop],
                             stdout=subprocess.PIPE, text=True)
        procs = []
        held = case.get("held")
        for i in range(N):
            log = os.path.join(base, "log%d.json" % i)
            what, var = (lead if i == 0 else "import"), "kill"
            if case.get("after_crash") is not None:
                var = "jitter:%d" % [12, 25, 6][seed % 3]
            if held:
                # A is held between write and rename, B completes a write of its own meanwhile, C starts after B
                what = [lead, held, "import", "import"][min(i, 3)]
                var = ["hold:700", "delay:250", "delay:520", "delay:600"][min(i, 3)]
            p = subprocess.Popen([PY, "-m", "vmon.failpoint", what, "race", "-1", var,
                                  str(seed * 1000 + i), log, go], env=env_for(home, seed), cwd=base,
                                 stdout=subprocess.PIPE, stderr=subprocess.PIPE, text=True)
            procs.append((p, log))
        t0 = time.time()
        while len([f for f in os.listdir(base) if f.startswith("go.ready.")]) < N and time.time() - t0 < 30:
            time.sleep(0.002)
        open(go, "w").close()
        results = []
        for p, log in procs:
            try:
                out, err = p.communicate(timeout=60)
            except subprocess.TimeoutExpired:
                p.kill()
                out, err = p.communicate()
            results.append((p.returncode, err[-300:]))
        open(stop, "w").close()
        wout, _ = w.communicate(timeout=30)
        tally = json.loads(wout.strip().splitlines()[-1])
        merged = []
        for i, (p, log) in enumerate(procs):
            if os.path.exists(log):
                for (ts, kind, name) in json.load(open(log))["log"]:
                    merged.append((ts, i, kind, name))
        merged.sort()
        # interleaving signature: order of write-ish steps with racer ids renamed by first appearance
        ren = {}
        sig = []
        for ts, i, kind, name in merged:
            if kind == "open-r":
                continue
            ren.setdefault(i, len(ren))
            sig.append("%d:%s:%s" % (ren[i], kind, "tmp" if name not in ("settings.json", "assets_version", ".evo") else name))
        sig_h = hashlib.sha1("|".join(sig).encode()).hexdigest()[:16]
        run.seen(case, int(sig_h, 16) % (2**62), cls=["race N=%d" % N, "race lead:" + lead, "race TZ:%s" % ZONES[seed % len(ZONES)]],
                 sample={"N": N, "lead": lead, "exit_codes": [r[0] for r in results], "watcher": tally, "fs_steps": len(sig),
                         "interleaving_head": sig[:14]})
        run.extra.setdefault("sum_watcher_polls", 0)
        run.extra["sum_watcher_polls"] += sum(tally.values())
        run.extra.setdefault("sum_fs_steps_logged", 0)
        run.extra["sum_fs_steps_logged"] += len(sig)
        failed = [(i, rc, err) for i, (rc, err) in enumerate(results) if rc != 0]
        run.check(not failed, "no started process fails because of another one's initialisation", case,
                  "%d of %d concurrently started processes failed, e.g. rc=%s: %s" %
                  (len(failed), N, failed[0][1] if failed else None, (failed[0][2] if failed else "")[-250:]),
                  key="race:process-failed")
        run.check(tally["empty"] == 0 and tally["partial"] == 0,
                  "a polling observer never reads an empty or partial settings file", case,
                  "watcher observed %d empty and %d partial reads of settings.json (of %d polls)" %
                  (tally["empty"], tally["partial"], sum(tally.values())), key="race:partial-observed")
        state, _ = classify(home)
        run.check(state.startswith("settings:complete"), "settings complete after the round", case,
                  "after the round the file is %s" % state, key="race:final-state")
    finally:
        shutil.rmtree(base, ignore_errors=True)


def k_nocrash(run, case):
    """
    The scenario run to completion (no kill, nobody else): it succeeds, the process itself sees
    every default key, and so does the next start - for homes written by any earlier release.
    """
    scenario, stamp = case["scenario"], case["stamp"]
    base = os.path.join(os.environ.get("VMON_WORK", "."), "nocrash_%s_%d" % (scenario, case["rs"][-1]))
    os.makedirs(base, exist_ok=True)
    try:
        home = prepare_home(base, scenario, stamp=stamp)
        ev = case["rs"][-1]
        # the start after a package upgrade may be the shell's tab completion (argcomplete starts
        # the program with _ARGCOMPLETE set): it loads the settings like any other start
        completion = {"_ARGCOMPLETE": "1"} if scenario == "upgrade" and case.get("completion") else None
        rc, info, err = child(home, [scenario, "count"], variant=ev, extra_env=completion)
        if completion:
            run.hit("upgrade performed by a start in tab-completion mode")
        run.seen(case, core.digest(scenario, stamp), cls=["uninterrupted:" + scenario, "home written by release %r" % stamp.strip(),
                                                         "desktop session (DISPLAY set)" if ev % 2 else "headless"],
                 sample={"scenario": scenario, "stamp": stamp, "rc": rc})
        run.check(rc == 0, "the uninterrupted command succeeds and sees every default key", case,
                  "%s on a home stamped %r: exit %s %s %s" % (scenario, stamp, rc, (info or {}).get("err", ""), err[-200:]),
                  key="upgrade:process-misses-default-keys" if rc == 3 else "nocrash:command-failed")
        rc2, msg = fresh_start(home, variant=ev + 1)
        run.check(rc2 == 0, "the next start after an upgrade sees every default key", case,
                  "start after %s on a home stamped %r fails: %s" % (scenario, stamp, msg), key="upgrade:next-start-fails")
        rc3, msg3 = fresh_start(home)
        run.check(rc3 == 0, "the start after the next start succeeds as well", case,
                  "second start after %s fails: %s" % (scenario, msg3), key="nocrash:second-start-fails")
        state, data = classify(home)
        run.check(state.startswith("settings:complete"), "settings file complete after the command", case,
                  "settings file is %s after %s" % (state, scenario), key="nocrash:file-not-complete")
    finally:
        shutil.rmtree(base, ignore_errors=True)


KINDS = {"crash": k_crash, "race": k_race, "nocrash": k_nocrash}


def count_events(run, scenario, layout="plain"):
    base = os.path.join(os.environ.get("VMON_WORK", "."), "count_%s_%s" % (scenario, layout))
    os.makedirs(base, exist_ok=True)
    try:
        home = prepare_home(base, scenario, layout, stamp=OLD_STAMPS[0])
        rc, info, err = child(home, [scenario, "count"])
        if info and rc in (1, 3):
            # the scenario itself, run to completion on a prepared home, fails (rc 3: the process
            # does not see every default key; rc 1: evo raised): that is the property, not the harness
            run.violation("uninterrupted:%s-fails" % scenario,
                          "scenario %s [%s] run to completion without any interference exits with %d: %s" %
                          (scenario, layout, rc, (info.get("err") or "")[:200]), run.case("nocrash", 10**6, scenario=scenario, stamp=OLD_STAMPS[0]))
            return None, []
        if rc != 0 or not info:
            raise core.Inconclusive("cannot count the events of scenario %s (rc=%s %s)" % (scenario, rc, err))
        writes = [i for i, t in enumerate(info["trace"]) if t.startswith("CALL") and t.endswith(".write")]
        lh = getattr(run, "_lh", None)
        if lh is not None:
            for fname, lines in info.get("line_hits", {}).items():
                for rel in lh.hits:
                    if fname.endswith(rel):
                        lh.hits[rel].update(lines)
        return info["events"], writes
    finally:
        shutil.rmtree(base, ignore_errors=True)


def main(run):
    cells = []
    counts = {}
    for sc in SCENARIOS:
        n, writes = count_events(run, sc)
        if n is None:
            continue
        counts[sc] = n
        dense = run.tier == "thorough" or sc in ("import", "upgrade", "set")
        for K in range(n + 1):
            if dense or K % 3 == 0 or any(abs(K - w) <= 2 for w in writes):
                cells.append({"scenario": sc, "K": K, "variant": "kill"})
        for wk in writes:
            for v in ("torn1", "tornhalf", "tornlast"):
                cells.append({"scenario": sc, "K": wk, "variant": v})
    # dot-file manager layouts (settings.json / ~/.evo are symbolic links)
    for layout in ("symlink_file", "symlink_dir"):
        for sc in (SCENARIOS if run.tier == "thorough" else ["import", "set", "upgrade", "reset_subset"]):
            if layout == "symlink_dir" and sc == "set_dotdot":
                continue  # '..' from inside a symlinked ~/.evo is the link target's parent: no such file
            n, writes = count_events(run, sc, layout)
            if n is None:
                continue
            counts["%s [%s]" % (sc, layout)] = n
            for K in range(n + 1):
                if run.tier == "thorough" or K % 2 == 0 or any(abs(K - w) <= 2 for w in writes):
                    cells.append({"scenario": sc, "K": K, "variant": "kill", "layout": layout})
            for wk in writes:
                cells.append({"scenario": sc, "K": wk, "variant": "tornhalf", "layout": layout})
    nocrash = [{"scenario": sc, "stamp": st} for sc in SCENARIOS if sc.startswith("upgrade") for st in OLD_STAMPS]
    nocrash += [{"scenario": "upgrade", "stamp": st, "completion": True} for st in OLD_STAMPS[:4]]
    nocrash += [{"scenario": "set_backend", "stamp": OLD_STAMPS[0]}, {"scenario": "set", "stamp": OLD_STAMPS[0]},
                {"scenario": "reset_subset", "stamp": OLD_STAMPS[0]}]
    for i in run.mine(len(nocrash)):
        k_nocrash(run, run.case("nocrash", i, **nocrash[i]))
    run.extra["call_boundaries_per_scenario"] = counts
    run.extra["crash_cells"] = len(cells)
    for i in run.mine(len(cells)):
        k_crash(run, run.case("crash", i, **cells[i]))
    if run.tier == "thorough":
        run.exhaustive = True
    rounds = {"quick": [2, 3, 4, 6, 8, 12, 16, 8] * 5, "thorough": [2, 3, 4, 6, 8, 12, 16] * 40}[run.tier]
    for i in run.mine(len(rounds)):
        k_race(run, run.case("race", i, N=rounds[i]))
    # concurrent starts while another process upgrades / edits / resets the settings
    leads = ["upgrade", "set", "reset_all", "reset_subset", "merge_hard", "merge_soft"]
    mixed = [(l, n) for l in leads for n in ((3, 8) if run.tier == "quick" else (2, 3, 4, 8, 12, 16) * 4)]
    for i in run.mine(len(mixed)):
        k_race(run, run.case("race", 10**5 + i, N=mixed[i][1], lead=mixed[i][0]))
    # three actors: a writer held between writing its temporary file and renaming it, a second
    # writer that completes meanwhile, and processes that start afterwards
    held = [(a, b, n) for a in ("set", "reset_subset", "import", "upgrade") for b in ("set", "reset_all", "reset_subset")
            for n in ((3, ) if run.tier == "quick" else (3, 4))]
    for i in run.mine(len(held)):
        k_race(run, run.case("race", 2 * 10**5 + i, N=held[i][2], lead=held[i][0], held=held[i][1]))
    # concurrent starts on the debris of a start that was killed a few seconds earlier
    n_imp = counts.get("import") or 12
    after = [(int(k), n) for k in range(1, n_imp + 6, 2 if run.tier == "quick" else 1) for n in ((3, 6) if run.tier == "quick" else (2, 3, 4, 8))]
    for i in run.mine(len(after)):
        k_race(run, run.case("race", 3 * 10**5 + i, N=after[i][1], lead="import", after_crash=after[i][0]))
    run.need("settings file is absent or a complete JSON document after a kill",
             "a fresh start after the kill loads its settings with every default key",
             "no started process fails because of another one's initialisation",
             "a polling observer never reads an empty or partial settings file",
             "children killed at a crash point")
