"""
C03 - Umeyama alignment returns a proper rotation that is least-squares optimal.
Contract on the real geometry.umeyama_alignment: proper rotation, positive / unit scale,
optimality against Horn's closed-form quaternion solution (a different algorithm) and a
perturbation cloud, noise-free reproduction, equivariance, refusal of degenerate input.
"""
import math

import numpy as np

from vmon import core, gen, contracts
from vmon import refmodel as rm

ANCHORS = ['evo/core/geometry.py']
LEVEL = "exploration"
SHARDS = {"quick": 8, "thorough": 16}
RULE = ("point-set pairs y = s0*R0*x + t0 + noise from seeded class generators (generic, planar, "
        "near-collinear, noisy, mirrored, planar-mirrored, antipodal, offset, degenerate, "
        "unequal); distinct = content digest of (x, y, with_scale); non-trivial = n >= 3 and "
        "not refused")
ASSUMPTIONS = ["Horn's quaternion solution via numpy.linalg.eigh is a correct optimum",
               "numpy.linalg.svd singular values are used only to classify the input"]
PI = math.pi
CLASSES = ["generic", "planar", "near_collinear", "noisy", "mirrored", "planar_mirrored",
           "antipodal", "offset", "tiny_scale", "huge_scale", "symmetric"]
DEGENERATE = ["coincident", "one_axis_x", "one_axis_both", "n1", "unequal", "unequal_dim"]


def geo():
    from evo.core import geometry
    return geometry


def make_points(rng, cls, n):
    scale = 10.0**rng.uniform(-3, 6)
    if cls == "tiny_scale":
        scale = 10.0**rng.uniform(-3, -2)
    if cls == "huge_scale":
        scale = 10.0**rng.uniform(5, 6)
    x = rng.normal(size=(3, n)) * scale
    noise_rel = 0.0
    M = np.eye(3)
    if cls == "planar" or cls == "planar_mirrored":
        x[2, :] = 0.0
        x = gen.rand_rot(rng) @ x if rng.random() < .5 else x
    if cls == "near_collinear":
        dirv = gen.rand_axis(rng)
        lam = rng.normal(size=n) * scale
        x = dirv[:, None] * lam[None, :] + rng.normal(size=(3, n)) * scale * 10.0**rng.uniform(-9, -3)
    if cls == "noisy":
        noise_rel = 10.0**rng.uniform(-4, 0)
    if cls == "mirrored":
        M = np.diag([1.0, 1.0, -1.0])
        noise_rel = 10.0**rng.uniform(-6, -1) if rng.random() < .7 else 0.0
    if cls == "planar_mirrored":
        M = np.diag([1.0, -1.0, 1.0])
    if cls == "antipodal":
        M = -np.eye(3)
        noise_rel = 10.0**rng.uniform(-6, -1)
    if cls == "offset":
        x = x + (rng.normal(size=3) * scale * 10.0**rng.uniform(1, 3))[:, None]
    if cls == "symmetric":
        # corners of a cube / box with two equal edges / regular octahedron / tetrahedron (calibration
        # targets, synthetic tests): singular values of the covariance tie, the rotation is still unique
        k = int(rng.integers(4))
        a, b = (1.0, 1.0) if k == 0 else (float(rng.uniform(1.5, 4)), 1.0)
        if k in (0, 1):
            pts = np.array([[sx * a, sy * b, sz * b] for sx in (-1, 1) for sy in (-1, 1) for sz in (-1, 1)], dtype=float)
        elif k == 2:
            pts = np.array([[1, 0, 0], [-1, 0, 0], [0, 1, 0], [0, -1, 0], [0, 0, 1], [0, 0, -1]], dtype=float)
        else:
            pts = np.array([[1, 1, 1], [1, -1, -1], [-1, 1, -1], [-1, -1, 1]], dtype=float)
        x = (pts * scale).T
        if rng.random() < .5:
            x = gen.rand_rot(rng) @ x + (rng.normal(size=3) * scale)[:, None]
    R0 = gen.rand_rot(rng)
    s0 = 10.0**rng.uniform(-2, 2)
    t0 = rng.normal(size=3) * scale * 10.0**rng.uniform(-1, 2)
    y = s0 * (R0 @ (M @ x)) + t0[:, None]
    if noise_rel:
        y = y + rng.normal(size=(3, n)) * noise_rel * s0 * scale
    exact = (noise_rel == 0.0) and cls not in ("mirrored", "antipodal", "planar_mirrored")
    return x, y, (R0, t0, s0), exact, scale


def call_umeyama(rng, G, x, y, with_scale):
    """the documented signature umeyama_alignment(x, y, with_scale=False), arguments by position or by name"""
    u = rng.integers(4)
    if u == 0:
        return contracts.outcome_of(G.umeyama_alignment, x, y, with_scale)
    if u == 1:
        return contracts.outcome_of(G.umeyama_alignment, x, y, with_scale=with_scale)
    if u == 2:
        return contracts.outcome_of(G.umeyama_alignment, x, y=y, with_scale=with_scale)
    return contracts.outcome_of(G.umeyama_alignment, x=x, y=y, with_scale=with_scale)


def k_align(run, case):
    G = geo()
    rng = run.rng(case)
    cls = case.get("cls") or CLASSES[rng.integers(len(CLASSES))]
    nmax = {"quick": 300, "thorough": 2000}[run.tier]
    n = int(case.get("n") or (rng.integers(3, 12) if rng.random() < .4 else rng.integers(3, nmax + 1)))
    with_scale = bool(case["with_scale"]) if "with_scale" in case else bool(rng.random() < .5)
    x, y, (R0, t0, s0), exact, scale = make_points(rng, cls, n)
    n = x.shape[1]  # (classes with a fixed point count)
    if not with_scale and exact:
        y = (R0 @ x) + t0[:, None]  # generating transform is rigid
        s0 = 1.0
    # memory layout as callers produce it: C-contiguous, Fortran order, or the transposed view of an
    # n x 3 array (what PosePath3D.align passes)
    lay = rng.integers(3)
    if lay == 1:
        x, y = np.asfortranarray(x), np.asfortranarray(y)
    elif lay == 2:
        x, y = np.ascontiguousarray(x.T).T, np.ascontiguousarray(y.T).T
    with contracts.numeric_env(run.rng(case, 31)):
        out = call_umeyama(run.rng(case, 32), G, x, y, with_scale)
    info = contracts.umeyama_oracle(run, case, x, y, with_scale, out, cloud_rng=run.rng(case, 7))
    run.seen(case, core.digest(x, y, with_scale), nontrivial=info is not None,
             cls=["align:" + cls, "with_scale" if with_scale else "rigid",
                  "n<=10" if n <= 10 else ("n<=300" if n <= 300 else "n<=2000")],
             sample={"cls": cls, "n": n, "with_scale": with_scale,
                     "outcome": out[0], "x_head": x[:, :3], "y_head": y[:, :3]})
    if info is None:
        return
    r, t, c = info["r"], info["t"], info["c"]
    gap = info["gap"]
    d = info["d"]
    unique = gap > 1e-3 and d[1] > 1e-3 * d[0]
    offrel = 1.0 + float(np.max(np.abs(x.mean(axis=1)))) / (float(np.std(x)) + 1e-300)
    tolrel = 1e-9 * offrel / max(gap, 1e-3)
    if exact and unique:
        run.check(float(np.max(np.abs(r - R0))) <= tolrel * 10, "noise-free: rotation reproduced",
                  case, "noise-free data: rotation differs from the generating one by %g" %
                  float(np.max(np.abs(r - R0))), x=x, y=y)
        run.check(abs(c - s0) <= tolrel * 10 * s0, "noise-free: scale reproduced", case,
                  "noise-free data: scale %r vs generating %r" % (c, s0), x=x, y=y)
        ymag = float(np.max(np.abs(y))) + 1e-300
        run.check(float(np.max(np.abs(t - t0))) <= tolrel * 10 * ymag,
                  "noise-free: translation reproduced", case,
                  "noise-free data: translation off by %g" % float(np.max(np.abs(t - t0))),
                  x=x, y=y)
    if unique:
        # equivariance under rigid motions of both sets, common permutation and scaling
        Ra, Rb = gen.rand_rot(rng), gen.rand_rot(rng)
        ta = rng.normal(size=3) * scale
        tb = rng.normal(size=3) * scale
        x2 = Ra @ x + ta[:, None]
        y2 = Rb @ y + tb[:, None]
        perm = rng.permutation(n)
        x2, y2 = x2[:, perm], y2[:, perm]
        alpha = 10.0**rng.uniform(-2, 2)
        beta = 10.0**rng.uniform(-2, 2)
        if not with_scale:
            alpha = beta = 1.0
        x2, y2 = alpha * x2, beta * y2
        o2 = contracts.outcome_of(G.umeyama_alignment, x2, y2, with_scale)
        if o2[0] == "ok":
            r2, t2, c2 = o2[1]
            r_exp = Rb @ r @ Ra.T
            c_exp = c * beta / alpha
            # y2 = beta*(Rb y + tb), y ~ c r x + t, x = Ra^T (x2/alpha - ta)
            t_exp = beta * (Rb @ (t - c * (r @ (Ra.T @ ta))) + tb)
            tol2 = 1e-7 * offrel / max(gap, 1e-3)
            run.check(float(np.max(np.abs(r2 - r_exp))) <= tol2, "equivariance: rotation", case,
                      "moving/permuting/scaling the inputs changed the rotation by %g beyond the "
                      "composition" % float(np.max(np.abs(r2 - r_exp))), x=x, y=y)
            run.check(abs(c2 - c_exp) <= tol2 * c_exp, "equivariance: scale", case,
                      "scale %r vs expected %r" % (c2, c_exp), x=x, y=y)
            mag = float(np.max(np.abs(y2))) + float(np.max(np.abs(c_exp * x2))) + 1e-300
            run.check(float(np.max(np.abs(t2 - t_exp))) <= tol2 * mag, "equivariance: translation",
                      case, "translation off by %g" % float(np.max(np.abs(t2 - t_exp))), x=x, y=y)
        else:
            run.check(False, "equivariance: moved input accepted", case,
                      "rigidly moved well-conditioned input was refused: %r" % (o2[1], ),
                      x=x, y=y)


def k_degenerate(run, case):
    G = geo()
    rng = run.rng(case)
    cls = case.get("cls") or DEGENERATE[rng.integers(len(DEGENERATE))]
    n = int(rng.integers(2, 40))
    with_scale = bool(rng.random() < .5)
    scale = 10.0**rng.uniform(-3, 6)
    if cls == "coincident":
        p = rng.normal(size=3) * scale
        if rng.random() < .5:
            p = np.round(p * 8) / 8 if rng.random() < .7 else np.zeros(3)  # the mean is exact: covariance exactly 0
        x = np.repeat(p[:, None], n, axis=1)
        y = rng.normal(size=(3, n)) * scale if rng.random() < .5 else \
            np.repeat((rng.normal(size=3) * scale)[:, None], n, axis=1)
        if rng.random() < .5:
            x, y = y, x
    elif cls == "one_axis_x":
        k = rng.integers(3)
        x = np.zeros((3, n))
        x[k] = rng.normal(size=n) * scale
        y = rng.normal(size=(3, n)) * scale
        if rng.random() < .5:
            x, y = y, x
    elif cls == "one_axis_both":
        k, m = rng.integers(3), rng.integers(3)
        x = np.zeros((3, n))
        y = np.zeros((3, n))
        lam = rng.normal(size=n) * scale
        x[k] = lam
        y[m] = lam * 10.0**rng.uniform(-1, 1)
    elif cls == "n1":
        x = rng.normal(size=(3, 1)) * scale
        y = rng.normal(size=(3, 1)) * scale
    elif cls == "unequal":
        x = rng.normal(size=(3, n)) * scale
        y = rng.normal(size=(3, n + int(rng.integers(1, 5)))) * scale
        if rng.random() < .5:
            x, y = y, x
    else:  # unequal_dim
        x = rng.normal(size=(3, n)) * scale
        y = rng.normal(size=(2, n)) * scale
    env = contracts.numeric_env(rng)
    with env:
        out = call_umeyama(rng, G, x, y, with_scale)
    run.seen(case, core.digest(x, y, with_scale), cls=["degenerate:" + cls, "numeric environment: " + env.kind],
             sample={"cls": cls, "outcome": out[0], "x_head": x[:, :3]})
    if cls == "unequal_dim":
        from evo.core.geometry import GeometryException
        run.check(out[0] == "exc" and isinstance(out[1], GeometryException),
                  "umeyama: unequal shapes refused", case, "unequal shapes not refused: %r" % (out[1], ),
                  key="umeyama:shape-not-refused")
        return
    contracts.umeyama_oracle(run, case, x, y, with_scale, out)
    if cls != "unequal":
        from evo.core.geometry import GeometryException
        run.check(out[0] == "exc" and isinstance(out[1], GeometryException),
                  "exactly degenerate set refused", case,
                  "exactly degenerate input (%s) was not refused with GeometryException: %r" %
                  (cls, out[1] if out[0] == "exc" else "returned a result"),
                  key="umeyama:degenerate-accepted", x=x, y=y)


def k_via_align(run, case):
    """the same contract, observed at the real call site inside PosePath3D.align"""
    from evo.core import geometry
    rng = run.rng(case)
    n = int(rng.integers(3, 120))
    ref = gen.traj_arrays(rng, n, stamp_cls="index")
    est = gen.perturbed_estimate(rng, ref, hostile=False)
    A = gen.rand_se3(rng, tscale=float(np.std(ref["p"])) + 1e-3)
    s = 10.0**rng.uniform(-1, 1)
    est["p"] = (s * (A[:3, :3] @ est["p"].T)).T + A[:3, 3]
    est["R"] = np.array([A[:3, :3] @ R for R in est["R"]])
    mode = "se3" if rng.random() < .5 else "xyzq"
    t_ref = gen.make_evo(ref, mode, stamped=False, flavour=gen.rand_flavour(rng))
    t_est = gen.make_evo(est, mode, stamped=False, flavour=gen.rand_flavour(rng))
    gen.age(rng, t_ref), gen.age(rng, t_est)
    seen = []

    def mk(orig):
        def w(x, y, with_scale=False):
            xs, ys = np.array(x, copy=True), np.array(y, copy=True)
            out = contracts.outcome_of(orig, x, y, with_scale)
            seen.append((xs, ys, with_scale, out))
            if out[0] == "exc":
                raise out[1]
            return out[1]
        return w

    cs, only = bool(rng.random() < .5), bool(rng.random() < .3)
    nn = -1 if rng.random() < .5 else int(rng.integers(3, n + 1))
    if rng.random() < .2:
        # point sets of unequal size through the trajectory API: must be refused, estimate untouched
        from evo.core.geometry import GeometryException
        k = int(rng.integers(1, 6))
        longer = bool(rng.random() < .5)
        big = gen.traj_arrays(rng, n + k, stamp_cls="index")
        a_ref, a_est = (big, est) if longer else (ref, {kk: (v[:max(1, n - k)] if isinstance(v, np.ndarray) else v) for kk, v in est.items()})
        o_ref = gen.make_evo(a_ref, mode, stamped=False)
        o_est = gen.make_evo(a_est, mode, stamped=False)
        before = gen.read_views(gen.make_evo(a_est, mode, stamped=False))
        ne, nr = len(a_est["p"]), len(a_ref["p"])
        # n = -1 (all poses) or an explicit n lying between / beyond the two lengths: the point
        # sets handed to the alignment are the first n poses of each - unequal whenever n exceeds
        # the shorter one
        n_arg = -1 if rng.random() < .5 else int(rng.integers(min(ne, nr) + 1, max(ne, nr) + 4))
        out = contracts.outcome_of(o_est.align, o_ref, cs, only, gen.spell_int(rng, n_arg))
        after = gen.read_views(o_est)
        run.seen(case, core.digest(a_ref["p"], a_est["p"], "unequal", n_arg), cls=["via PosePath3D.align: unequal sizes"],
                 sample={"n_est": ne, "n_ref": nr, "n": n_arg, "outcome": out[0]})
        run.check(out[0] == "exc" and isinstance(out[1], GeometryException),
                  "align refuses point sets of unequal size", case,
                  "align(n=%d) of %d poses to %d poses was not refused with GeometryException: %r" %
                  (n_arg, ne, nr, out[1] if out[0] == "exc" else "returned a result"),
                  key="umeyama@align:shape-not-refused")
        run.check(core.bits_equal(after["p"], before["p"]) and core.bits_equal(after["T"], before["T"]),
                  "refused alignment leaves the estimate untouched", case, "estimate changed by a refused alignment",
                  key="umeyama@align:refusal-not-clean")
        return
    projected = None
    if rng.random() < .25:
        # both trajectories were projected into a plane before (2-D evaluation); the estimate is
        # the reference seen upside down (a half turn about an in-plane axis) in half of the cases:
        # the best fit is then no rotation about the plane normal
        from evo.core.trajectory import Plane
        projected = ["xy", "xz", "yz"][rng.integers(3)]
        nd = {"xy": 2, "xz": 1, "yz": 0}[projected]
        pr = ref["p"].copy()
        pr[:, nd] = 0.0
        axis = np.zeros(3)
        axis[(nd + 1) % 3] = 1.0
        F = rm.rodrigues(axis, PI) if rng.random() < .5 else np.eye(3)
        spin = rm.rodrigues(np.eye(3)[nd], rng.uniform(-PI, PI))
        shift = rng.normal(size=3) * (float(np.std(pr)) + 1e-3)
        shift[nd] = 0.0
        pe = (s * (spin @ F @ pr.T)).T + shift + rng.normal(size=pr.shape) * 1e-3 * (float(np.std(pr)) + 1e-3) * (np.arange(3) != nd)
        est2 = {"p": pe, "R": np.array([spin @ F @ Rk for Rk in ref["R"]]), "t": ref["t"]}
        t_ref = gen.make_evo(ref, mode, stamped=False)
        t_est = gen.make_evo(est2, mode, stamped=False)
        t_ref.project(Plane(projected)), t_est.project(Plane(projected))
    x3 = np.array(t_est.positions_xyz, dtype=float).T.copy()
    y3 = np.array(t_ref.positions_xyz, dtype=float).T.copy()
    with contracts.wrapped(geometry, "umeyama_alignment", mk):
        out_align = contracts.outcome_of(t_est.align, t_ref, cs, only, nn)
    run.seen(case, core.digest(ref["p"], est["p"], cs, only, nn, projected), cls=["via PosePath3D.align"] +
             (["via PosePath3D.align: both trajectories projected before"] if projected else []),
             sample={"n": n, "correct_scale": cs, "only_scale": only, "n_to_align": nn, "projected": projected})
    # what align() returns is the least-squares similarity of the first n positions of the two objects
    m_used = n if nn == -1 else nn
    contracts.umeyama_oracle(run, case, x3[:, :m_used], y3[:, :m_used], cs or only, out_align, pfx="align-returns",
                             cloud_rng=run.rng(case, 11))
    run.check(len(seen) == 1, "align calls umeyama once", case,
              "PosePath3D.align reached umeyama_alignment %d times" % len(seen))
    for xs, ys, ws, out in seen:
        contracts.umeyama_oracle(run, case, xs, ys, ws, out, pfx="umeyama@align")
        run.check(ws == (cs or only), "align passes with_scale", case,
                  "align passed with_scale=%r for correct_scale=%r only=%r" % (ws, cs, only))


def k_via_api(run, case):
    """
    The same contract at the call sites above PosePath3D.align: main_ape.ape / main_rpe.rpe with
    alignment requested.  Whatever the two trajectories look like - far apart, or almost (or
    exactly) identical at large distance from the origin - a requested alignment is computed:
    umeyama_alignment is reached exactly once with the two position sets, its result passes
    the oracle, and degenerate sets are refused there too.
    """
    from evo import main_ape, main_rpe
    from evo.core import geometry, metrics
    from evo.core.geometry import GeometryException
    from evo.core.units import Unit
    rng = run.rng(case)
    n = int(rng.integers(3, 80))
    ref = gen.traj_arrays(rng, n, pos_cls=["walk", "utm", "utm", "circle", "huge"][rng.integers(5)],
                          rot_cls=["smooth", "uniform", "identity"][rng.integers(3)], stamp_cls="index")
    cls = ["generic", "near-identical", "identical", "coincident"][rng.integers(4)]
    ext = float(np.max(np.abs(ref["p"] - ref["p"].mean(axis=0)))) + 1e-3
    if cls == "generic":
        est = gen.perturbed_estimate(rng, ref, hostile=False)
        A = gen.rand_se3(rng, tscale=ext)
        est["p"] = ((A[:3, :3] @ est["p"].T).T + A[:3, 3]) / 10.0**rng.uniform(-0.5, 0.5)
        est["R"] = np.array([A[:3, :3] @ R for R in est["R"]])
    elif cls == "near-identical":
        # a small rigid offset: tiny compared with the distance from the origin, not with the path
        A = rm.se3(rm.rodrigues(gen.rand_axis(rng), 10.0**rng.uniform(-9, -6)), rng.normal(size=3) * ext * 10.0**rng.uniform(-3, -0.5))
        c = ref["p"].mean(axis=0)
        est = {"p": (A[:3, :3] @ (ref["p"] - c).T).T + c + A[:3, 3], "R": np.array([A[:3, :3] @ R for R in ref["R"]]),
               "t": ref["t"].copy(), "cls": ref["cls"]}
    elif cls == "identical":
        est = {k: (np.array(v, copy=True) if isinstance(v, np.ndarray) else v) for k, v in ref.items()}
    else:
        ref["p"][:] = ref["p"][0]
        est = {k: (np.array(v, copy=True) if isinstance(v, np.ndarray) else v) for k, v in ref.items()}
    stamped = bool(rng.random() < .5)
    t_ref = gen.make_evo(ref, "se3" if rng.random() < .5 else "xyzq", stamped)
    t_est = gen.make_evo(est, "se3" if rng.random() < .5 else "xyzq", stamped)
    align = bool(rng.random() < .7)
    cs = bool(rng.random() < .4) or not align
    tool = "ape" if rng.random() < .5 else "rpe"
    seen = []

    def mk(orig):
        def w(x, y, with_scale=False):
            xs, ys = np.array(x, copy=True), np.array(y, copy=True)
            out = contracts.outcome_of(orig, x, y, with_scale)
            seen.append((xs, ys, with_scale, out))
            if out[0] == "exc":
                raise out[1]
            return out[1]
        return w

    with core.quiet(), contracts.wrapped(geometry, "umeyama_alignment", mk):
        if tool == "ape":
            out = contracts.outcome_of(main_ape.ape, t_ref, t_est, metrics.PoseRelation.translation_part, align=align, correct_scale=cs)
        else:
            out = contracts.outcome_of(main_rpe.rpe, t_ref, t_est, metrics.PoseRelation.translation_part, 1.0, Unit.frames,
                                       align=align, correct_scale=cs)
    run.seen(case, core.digest(ref["p"], est["p"], align, cs, tool, cls), cls=["via main_%s: %s pair" % (tool, cls)],
             sample={"n": n, "tool": tool, "pair": cls, "align": align, "correct_scale": cs, "outcome": out[0],
                     "position_class": ref["cls"][0]})
    run.check(len(seen) == 1, "requested alignment reaches umeyama_alignment exactly once", case,
              "main_%s.%s(align=%s, correct_scale=%s) on a %s pair reached umeyama_alignment %d times" %
              (tool, tool, align, cs, cls, len(seen)), key="umeyama@api:not-computed")
    for xs, ys, ws, o in seen:
        run.check(xs.shape == (3, n) and core.bits_equal(xs, est["p"].T) and core.bits_equal(ys, ref["p"].T),
                  "the position sets of estimate and reference are aligned", case,
                  "umeyama_alignment received other point sets than the two trajectories' positions",
                  key="umeyama@api:wrong-sets")
        contracts.umeyama_oracle(run, case, xs, ys, ws, o, pfx="umeyama@api")
    if cls == "coincident":
        run.check(out[0] == "exc" and isinstance(out[1], GeometryException), "degenerate sets refused at the API level", case,
                  "all-coincident positions were not refused with GeometryException by main_%s: %r" % (tool, out[1] if out[0] == "exc" else "a result"),
                  key="umeyama@api:degenerate-accepted")


def k_cli(run, case):
    """
    A fourth call site: evo_traj --ref ... --align / --correct_scale on several trajectories of
    different lengths.  The exported trajectories must be the least-squares aligned inputs (C15's
    workload executor: own parsers, Horn alignment of every trajectory on its own registered
    pairs, export oracle).
    """
    if case.get("tool") in ("ape", "rpe"):
        # evo_ape / evo_rpe with -a / -s / --n_to_align in every admitted combination
        from vmon.props import C01, C02
        (C01.k_cli if case["tool"] == "ape" else C02.k_cli)(run, case)
        run.hit("evo_ape / evo_rpe runs with alignment options judged")
        return
    from vmon.props import C15
    C15.k_cli(run, case)
    run.hit("evo_traj runs with alignment to a reference judged")


from vmon import threads as _threads
k_threads = _threads.k_evaluation('umeyama', 'Umeyama alignment', 'threads:umeyama-not-reentrant')


KINDS = {"threads": k_threads, "align": k_align, "degenerate": k_degenerate, "via_align": k_via_align, "via_api": k_via_api, "cli": k_cli}


def main(run):
    n = {"quick": 2600, "thorough": 90000}[run.tier]
    # regression corpus: every class x with/without scale at tiny n
    corpus = [{"cls": c, "with_scale": w, "n": m} for c in CLASSES for w in (False, True)
              for m in (3, 4, 50)]
    for i in run.mine(len(corpus)):
        k_align(run, run.case("align", 10**6 + i, **corpus[i]))
    dcorp = [{"cls": c} for c in DEGENERATE for _ in range(6)]
    for i in run.mine(len(dcorp)):
        k_degenerate(run, run.case("degenerate", 10**6 + i, **dcorp[i]))
    for i in run.mine(n):
        k_align(run, run.case("align", i))
    for i in run.mine({"quick": 12, "thorough": 200}[run.tier]):
        k_threads(run, run.case("threads", i))
    for i in run.mine(n // 8):
        k_degenerate(run, run.case("degenerate", i))
    for i in run.mine(n // 8):
        k_via_align(run, run.case("via_align", i))
    for i in run.mine(n // 8):
        k_via_api(run, run.case("via_api", i))
    for i in run.mine({"quick": 60, "thorough": 1500}[run.tier]):
        k_cli(run, run.case("cli", i, force={"use_ref": True, "align": i % 3 != 2, "correct_scale": i % 3 != 0,
                                             "merge": False, "plane": False}))
    for i in run.mine({"quick": 60, "thorough": 1500}[run.tier]):
        k_cli(run, run.case("cli", 10**6 + i, tool=["ape", "rpe"][i % 2],
                            force_options=[["n_to_align"], ["n_to_align", "scale_only"]][(i // 2) % 2]))
    for i in run.mine({"quick": 24, "thorough": 240}[run.tier]):
        # the first poses, on which --n_to_align works, are coincident / collinear: refused
        k_cli(run, run.case("cli", 2 * 10**6 + i, tool=["ape", "rpe"][i % 2], still_start=True, fmt=["tum", "kitti", "euroc"][(i // 2) % 3],
                            force_options=["n_to_align", "n_small"] + (["scale_only"] if (i // 6) % 2 else ["align"])))
    run.need("concurrent rounds: Umeyama alignment", "evo_ape / evo_rpe runs with alignment options judged", "evo_traj runs with alignment to a reference judged", "requested alignment reaches umeyama_alignment exactly once", "umeyama: proper rotation", "umeyama: optimal vs Horn",
             "umeyama: optimal vs perturbation", "noise-free: rotation reproduced",
             "equivariance: rotation", "exactly degenerate set refused",
             "umeyama: unequal shapes refused", "umeyama@align: optimal vs Horn",
             "umeyama: reflection branch (det cov < 0) observed",
             "umeyama: scale exactly 1 without scale estimation", "align refuses point sets of unequal size")
