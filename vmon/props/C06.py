"""
C06 - Writing and re-reading any supported format is lossless.
Bit-pattern comparison (view as uint64) of what each writer was given with what the matching
reader returns: TUM, KITTI, result archives (with/without trajectories), DataFrame conversion,
ROS1 bag export (positions/orientations exact, frame id, stamps within 1 ns - also judged on
the raw integer (sec, nanosec) header of the written messages).
"""
import io
import math
import os
from fractions import Fraction
from pathlib import Path

import numpy as np

from vmon import core, gen, contracts
from vmon import refmodel as rm

ANCHORS = ['evo/tools/file_interface.py', 'evo/tools/pandas_bridge.py']
LEVEL = "exploration"
SHARDS = {"quick": 8, "thorough": 16}
RULE = ("trajectories/results whose values need all 17 significant digits (random bit patterns), "
        "magnitudes 1e-300..1e+300, epoch stamps with nanosecond fractions, -0.0, subnormals, 1..200 "
        "(quick) / 1e5 (thorough) poses, unicode info; path (str, pathlib.Path) and handle variants; "
        "distinct = digest of the written data + format + variant; non-trivial = data not all zero")
ASSUMPTIONS = ["rosbags' own reader decodes the header stamps correctly"]
VALUE_CLASSES = ["random17", "extreme", "epoch", "negzero", "subnormal", "integers", "ordinary"]


def bits(a):
    return np.ascontiguousarray(np.asarray(a, dtype=np.float64)).view(np.uint64)


def same_bits(a, b):
    a, b = np.asarray(a, dtype=np.float64), np.asarray(b, dtype=np.float64)
    return a.shape == b.shape and bool(np.array_equal(bits(a), bits(b)))


def values(rng, shape, cls):
    n = int(np.prod(shape))
    if cls == "random17":
        v = rng.random(n) * 10.0**rng.integers(-5, 6, size=n) * rng.choice([-1, 1], size=n)
    elif cls == "extreme":
        v = rng.random(n) * 10.0**rng.uniform(-300, 300, size=n) * rng.choice([-1, 1], size=n)
    elif cls == "epoch":
        v = 1.5e9 + rng.integers(0, 10**8, size=n) + rng.integers(0, 10**9, size=n) * 1e-9
    elif cls == "negzero":
        v = np.where(rng.random(n) < .5, -0.0, rng.normal(size=n))
    elif cls == "subnormal":
        v = rng.random(n) * 1e-310
    elif cls == "integers":
        v = rng.integers(-10**6, 10**6, size=n).astype(float)
    else:
        v = rng.normal(size=n) * 100
    return v.reshape(shape)


def unit_quats(rng, n):
    q = rng.normal(size=(n, 4))
    return q / np.linalg.norm(q, axis=1)[:, None]


def stamps(rng, n, cls):
    u = rng.random()
    if u < .06:
        return np.arange(n, dtype=float)  # frame counters used as stamps: exactly 0.0, 1.0, ...
    if u < .1:
        return float(rng.integers(0, 1000)) + np.arange(n) * float(rng.integers(1, 5))  # whole seconds
    if u < .13:
        return np.concatenate([[0.0], np.cumsum(rng.random(n - 1) * 0.1 + 1e-6)]) if n > 1 else np.array([0.0])
    if cls == "epoch":
        t0 = 1.5e9 + float(rng.integers(0, 10**8))
        dt = rng.integers(1, 10**9, size=n) * 1e-9 + rng.integers(0, 3, size=n)
        t = t0 + np.cumsum(dt)
    elif cls == "extreme":
        t = np.cumsum(rng.random(n) * 10.0**rng.uniform(-3, 8))
    elif cls == "subnormal":
        t = np.cumsum(rng.random(n) + 1e-3) * 1e-3
    else:
        t = rng.uniform(0, 1e4) + np.cumsum(rng.random(n) * 0.1 + 1e-6)
    for k in range(1, n):
        if t[k] <= t[k - 1]:
            t[k] = np.nextafter(t[k - 1], np.inf)
    return t


def make_traj(rng, n, cls, mode, stamped=True, twin=False):
    """twin=True: returns (object, identically built twin) - the twin serves as the record of
    what the writer was given, so that the object itself keeps its (partial) cache state"""
    from evo.core.trajectory import PosePath3D, PoseTrajectory3D
    p = values(rng, (n, 3), cls if cls != "epoch" else "random17")
    q = unit_quats(rng, n)
    t = stamps(rng, n, cls)

    def build():
        if mode == "xyzq":
            return PoseTrajectory3D(p.copy(), q.copy(), t.copy()) if stamped else PosePath3D(p.copy(), q.copy())
        if mode == "all3":
            # every representation handed over (positions, quaternions and the pose matrices that
            # the caller computed with its own conversion): each one is kept as given
            poses = [rm.se3(rm.rot_from_quat_wxyz(qq), pp) for qq, pp in zip(q, p)]
            obj = PoseTrajectory3D(p.copy(), q.copy(), t.copy(), poses_se3=poses) if stamped else \
                PosePath3D(p.copy(), q.copy(), poses_se3=poses)
            obj._vmon_supplied_T = np.array([P.copy() for P in poses])
            return obj
        poses = [rm.se3(rm.rot_from_quat_wxyz(qq), pp) for qq, pp in zip(q, p)]
        return PoseTrajectory3D(poses_se3=poses, timestamps=t.copy()) if stamped else PosePath3D(poses_se3=poses)

    return (build(), build()) if twin else build()


def path_variant(rng, work, name):
    """returns (target for writer, target for reader, label, closer)"""
    p = os.path.join(work, name)
    u = rng.integers(4)
    if u == 0:
        return p, p, "str", None
    if u == 1:
        return Path(p), Path(p), "pathlib.Path", None
    if u == 2:
        sio = io.StringIO()
        return sio, sio, "StringIO", None
    return p, p, "file handle", "handle"


def k_text(run, case, rng, work):
    from evo.tools import file_interface as fi
    fmt = case.get("fmt") or ["tum", "kitti"][rng.integers(2)]
    cls = case.get("cls") or VALUE_CLASSES[rng.integers(len(VALUE_CLASSES))]
    nmax = {"quick": 200, "thorough": 3000}[run.tier]
    n = int(case.get("n") or (rng.integers(1, 6) if rng.random() < .3 else rng.integers(1, nmax + 1)))
    mode = ["se3", "xyzq", "se3", "xyzq", "all3"][rng.integers(5)]
    tr, tw = make_traj(rng, n, cls, mode, stamped=(fmt == "tum"), twin=True)
    gen.age(rng, tr)  # the written object has an arbitrary (partial) cache state
    wt, rt, label, special = path_variant(rng, work, "t.%s" % fmt)
    given = {"p": np.array(tw.positions_xyz, dtype=float).copy()}
    if fmt == "tum":
        given["t"] = np.array(tw.timestamps, dtype=float).copy()
        given["q"] = np.array(tw.orientations_quat_wxyz, dtype=float).copy()
    else:
        given["T"] = np.array([np.array(P, dtype=float)[:3, :] for P in tw.poses_se3])
        if hasattr(tw, "_vmon_supplied_T"):
            given["T"] = tw._vmon_supplied_T[:, :3, :]  # the matrices as handed to the constructor
    writer = fi.write_tum_trajectory_file if fmt == "tum" else fi.write_kitti_poses_file
    reader = fi.read_tum_trajectory_file if fmt == "tum" else fi.read_kitti_poses_file
    history = "fresh path"
    if isinstance(wt, (str, Path)) and rng.random() < .35:
        # the path has a history in this process: another (BOM-prefixed / longer / comment-only
        # headed) file was read from it before
        history = "path read before (BOM file)"
        other = make_traj(rng, int(rng.integers(1, 30)), "ordinary", "xyzq", stamped=(fmt == "tum"))
        buf = io.StringIO()
        writer(buf, other)
        with open(wt, "wb") as fh:
            fh.write(b"\xef\xbb\xbf" + b"# earlier content\n" + buf.getvalue().encode())
        o_b = contracts.outcome_of(reader, wt)
        run.check(o_b[0] == "ok" and o_b[1].num_poses == other.num_poses,
                  "a file with a byte order mark (written through a utf-8-sig handle) is read back by path", case,
                  "BOM-prefixed %s file of %d poses: %r" % (fmt, other.num_poses, o_b[1] if o_b[0] == "exc" else o_b[1].num_poses),
                  key="bom-file:not-read")
        contracts.outcome_of(fi.has_utf8_bom, wt)
    # handles need not be at offset 0: several trajectories in one stream, or a title line that
    # the caller consumed itself
    lead = ["none", "none", "trajectory", "title"][rng.integers(4)] if (special == "handle" or
                                                                        isinstance(wt, io.StringIO)) else "none"

    def write_lead(fh):
        if lead == "trajectory":
            writer(fh, make_traj(rng, int(rng.integers(1, 9)), "ordinary", "xyzq", stamped=(fmt == "tum")))
        elif lead == "title":
            fh.write("recorded by vmon; run 17\n")
        return fh.tell()

    def position(fh, offset):
        if lead == "title":
            fh.seek(0)
            fh.readline()
        else:
            fh.seek(offset)

    if lead != "none":
        history = "handle positioned after a leading " + lead
    if special == "handle":
        with open(wt, "w") as fh:
            offset = write_lead(fh)
            writer(fh, tr)
        with open(rt) as fh:
            position(fh, offset)
            back = reader(fh)
    else:
        if isinstance(wt, io.StringIO):
            offset = write_lead(wt)
        writer(wt, tr)
        if isinstance(rt, io.StringIO):
            position(rt, offset)
        back = reader(rt)
    run.seen(case, core.digest(given, fmt, label), nontrivial=bool(np.any(given["p"] != 0)),
             cls=["%s via %s" % (fmt, label), "values:" + cls, "storage:" + mode, history],
             sample={"fmt": fmt, "n": n, "values": cls, "variant": label, "first_row": given["p"][0]})
    ok = run.check(back.num_poses == n, fmt + ": same number of poses", case,
                   "%s round trip changed the pose count %d -> %d" % (fmt, n, back.num_poses),
                   key=fmt + ":count")
    if not ok:
        return
    if fmt == "tum":
        run.check(same_bits(back.timestamps, given["t"]), "tum: timestamps identical float64", case,
                  "TUM round trip changed a timestamp (e.g. %r -> %r)" %
                  _first_diff(given["t"], back.timestamps), key="tum:stamps-lossy")
        run.check(same_bits(back.positions_xyz, given["p"]), "tum: positions identical float64", case,
                  "TUM round trip changed a coordinate (e.g. %r -> %r)" %
                  _first_diff(given["p"], back.positions_xyz), key="tum:positions-lossy")
        run.check(same_bits(back.orientations_quat_wxyz, given["q"]), "tum: quaternions identical float64",
                  case, "TUM round trip changed a quaternion component (e.g. %r -> %r)" %
                  _first_diff(given["q"], back.orientations_quat_wxyz), key="tum:quaternions-lossy")
    else:
        T = np.array([np.array(P, dtype=float)[:3, :] for P in back.poses_se3])
        run.check(same_bits(T, given["T"]), "kitti: matrix entries identical float64", case,
                  "KITTI round trip changed a matrix entry (e.g. %r -> %r)" % _first_diff(given["T"], T),
                  key="kitti:lossy")
        run.check(all(np.array_equal(np.asarray(P)[3], [0, 0, 0, 1]) for P in back.poses_se3),
                  "kitti: bottom row restored", case, "bottom row is not 0 0 0 1", key="kitti:bottom")
        if mode in ("xyzq", "all3"):
            # the translation column is the position the object was given (negative zeros included)
            run.check(same_bits(T[:, :, 3], given["p"]), "kitti: translation column == the positions given to the constructor", case,
                      "KITTI file of an object built from positions + quaternions: a coordinate changed (e.g. %r -> %r)" %
                      _first_diff(given["p"], T[:, :, 3]), key="kitti:position-lossy")


def _first_diff(a, b):
    a, b = np.asarray(a, dtype=float).ravel(), np.asarray(b, dtype=float).ravel()
    if a.shape != b.shape:
        return (a.shape, b.shape)
    idx = np.nonzero(bits(a) != bits(b))[0]
    if not len(idx):
        return (None, None)
    return (float(a[idx[0]]), float(b[idx[0]]))


def k_result(run, case, rng, work):
    from evo.core.result import Result
    from evo.tools import file_interface as fi
    cls = VALUE_CLASSES[rng.integers(len(VALUE_CLASSES))]
    r = Result()
    given_info = {"title": "APE w.r.t. translation part (m)\n(π ≈ 3.14159…, ünïcödé ✓ 路径)", "label": "APE (m)",
                  "est_name": "est ü.txt", "number": int(rng.integers(10**9)), "nested": {"a": [1, 2.5, "x"]}}
    if rng.random() < .4:
        # strings in decomposed form (macOS file names), compatibility characters, conjoining jamo
        given_info["est_name"] = "re\u0301sume\u0301_\u1112\u1161\u11ab_\u212b\u2126.txt"
        given_info["ref_name"] = "gt_A\u030a.txt"
    if rng.random() < .5:
        r.info = dict(given_info)
    else:
        r.add_info(dict(given_info))  # (the documented way to fill a result)
    for k in ("rmse", "mean", "median", "std", "min", "max", "sse"):
        v = float(values(rng, (1, ), cls)[0])
        r.stats[k] = v if rng.random() < .5 else np.float64(v)
    if rng.random() < .15:
        # (a statistic that is not a number: values computed from a trajectory with a NaN pose)
        for k in (["rmse", "mean", "std", "sse"] if rng.random() < .5 else ["max"]):
            r.stats[k] = float("nan")
    arrays = {"error_array": values(rng, (int(rng.integers(0, 300)), ), cls),
              "timestamps": stamps(rng, int(rng.integers(1, 300)), "epoch"),
              "alignment_transformation_sim3": values(rng, (4, 4), cls)}
    for k, v in arrays.items():
        r.add_np_array(k, v.copy())
    with_traj = bool(rng.random() < .6)
    trajs = {}
    if with_traj:
        trajs["ref_traj"] = make_traj(rng, int(rng.integers(1, 60)), cls, "xyzq" if rng.random() < .5 else "se3", True)
        trajs["est.kitti.path"] = make_traj(rng, int(rng.integers(1, 60)), cls, "se3", False)
        for k, v in trajs.items():
            r.add_trajectory(k, v)
    given_t = {k: gen.read_views(v) for k, v in trajs.items()}
    u = rng.integers(3)
    label = ["str", "pathlib.Path", "BytesIO"][u]
    target = os.path.join(work, "r.zip") if u == 0 else Path(os.path.join(work, "r.zip")) if u == 1 else io.BytesIO()
    fi.save_res_file(target, r)
    if u == 2:
        target.seek(0)
    back = fi.load_res_file(target, load_trajectories=with_traj)
    run.seen(case, core.digest(arrays, dict(r.stats), label, with_traj), cls=["result zip via " + label,
                                                                             "values:" + cls,
                                                                             "with trajectories" if with_traj else "without trajectories"],
             sample={"variant": label, "values": cls, "with_trajectories": with_traj,
                     "stats_head": {k: float(v) for k, v in list(r.stats.items())[:2]}})
    run.check(back.info == given_info and all(isinstance(v, str) and back.info[k].encode("utf-8") == v.encode("utf-8")
                                               for k, v in given_info.items() if isinstance(v, str)),
              "result: info identical (unicode)", case,
              "info changed in the round trip: %r" % (back.info, ), key="result:info")
    okk = set(back.stats) == set(r.stats) and all(same_bits([back.stats[k]], [float(r.stats[k])]) for k in r.stats)
    run.check(okk, "result: statistics identical float64", case,
              "a statistic changed in the round trip: %r vs %r" % (dict(back.stats), dict(r.stats)),
              key="result:stats-lossy")
    if u != 2:
        # the loader evo_res uses: result files -> one DataFrame; every stored statistic is there with its value
        from evo.tools import pandas_bridge as pb
        dfo = contracts.outcome_of(pb.load_results_as_dataframe, [str(target)])
        if run.check(dfo[0] == "ok", "result -> DataFrame loader returns", case, "load_results_as_dataframe raised %r" % (dfo[1], ),
                     key="result:df-loader-raised"):
            df = dfo[1]
            lost = []
            for k, v in r.stats.items():
                try:
                    cell = np.asarray(df.loc[("stats", k)], dtype=float).reshape(-1)
                except KeyError:
                    lost.append(k)
                    continue
                if cell.size != 1 or not same_bits(cell, [float(v)]):
                    lost.append(k)
            run.check(not lost, "result -> DataFrame: every statistic identical float64", case,
                      "statistics %s are missing / changed in the DataFrame built from the saved file" % lost,
                      key="result:df-stats-lossy")
    oka = set(back.np_arrays) == set(arrays) and all(same_bits(back.np_arrays[k], arrays[k]) for k in arrays)
    run.check(oka, "result: arrays identical float64", case, "an array changed in the round trip",
              key="result:arrays-lossy")
    if with_traj:
        for name, v in given_t.items():
            stem = Path(name).stem
            got = back.trajectories.get(stem) or back.trajectories.get(name)
            if not run.check(got is not None, "result: embedded trajectory present", case,
                             "embedded trajectory %r missing (have %s)" % (name, list(back.trajectories)),
                             key="result:traj-missing"):
                continue
            w = gen.read_views(got)
            if "t" in v:
                good = same_bits(w["p"], v["p"]) and same_bits(w["q"], v["q"]) and same_bits(w.get("t"), v["t"])
            else:
                good = same_bits(w["T"][:, :3, :], v["T"][:, :3, :])
            run.check(good, "result: embedded trajectory identical float64", case,
                      "embedded trajectory %r changed in the round trip" % name, key="result:traj-lossy")
    else:
        run.check(not back.trajectories, "result: no trajectories unless requested", case,
                  "trajectories loaded although not requested")


def k_df(run, case, rng, work):
    from evo.tools import pandas_bridge as pb
    from evo.core.trajectory import PosePath3D, PoseTrajectory3D
    cls = VALUE_CLASSES[rng.integers(len(VALUE_CLASSES))]
    stamped = bool(rng.random() < .6)
    n = int(rng.integers(1, 200))
    tr = make_traj(rng, n, cls, "xyzq" if rng.random() < .5 else "se3", stamped)
    given = gen.read_views(tr)
    df = pb.trajectory_to_df(tr)
    explicit = rng.random() < .3
    back = pb.df_to_trajectory(df, as_type=(PoseTrajectory3D if stamped else PosePath3D) if explicit else None)
    run.seen(case, core.digest(given["p"], given["q"], stamped, "df"), cls=["dataframe", "values:" + cls,
                                                                           "stamped" if stamped else "path"],
             sample={"n": n, "values": cls, "stamped": stamped})
    run.check(isinstance(back, PoseTrajectory3D) == stamped, "dataframe: type preserved", case,
              "round trip returned %s" % type(back).__name__, key="df:type")
    w = gen.read_views(back)
    good = same_bits(w["p"], given["p"]) and same_bits(w["q"], given["q"])
    if stamped and "t" in w:
        good = good and same_bits(w["t"], given["t"])
    run.check(good, "dataframe: identical float64", case, "DataFrame round trip changed a value",
              key="df:lossy")


def k_bag(run, case, rng, work):
    from rosbags.rosbag1 import Reader, Writer
    from rosbags.typesys import get_typestore, Stores
    from evo.tools import file_interface as fi
    cls = ["epoch", "ordinary", "random17", "extreme"][rng.integers(4)]
    n = int(rng.integers(1, 120))
    tr = make_traj(rng, n, cls if cls != "extreme" else "random17", "xyzq" if rng.random() < .5 else "se3", True)
    if cls == "extreme":
        tr.timestamps = np.cumsum(rng.random(n) * 10.0**rng.uniform(-3, 6)) + 1.0
    given = gen.read_views(tr)
    frame = ["map", "", "odom_ü", "base link"][rng.integers(4)]
    path = os.path.join(work, "b%d.bag" % case["rs"][-1])
    # further trajectories exported to other topics of the same bag, with other frame ids and
    # other (earlier / later) time spans: each topic must be read back on its own
    others = []
    if rng.random() < .5:
        for k in range(int(rng.integers(1, 3))):
            o_tr = make_traj(rng, int(rng.integers(1, 30)), "ordinary", "xyzq", True)
            o_tr.timestamps = o_tr.timestamps - o_tr.timestamps[0] + max(1.0, float(given["t"][0]) + float(rng.uniform(-50, 50)))
            others.append(("/other_%d" % k, ["world", "odom", "cam0"][k], o_tr, gen.read_views(o_tr)))
    w = Writer(path)
    w.open()
    try:
        order = [("/traj", frame, tr)] + [(t, f, o) for t, f, o, _ in others]
        for topic, fr, obj in (order if rng.random() < .5 else order[::-1]):
            fi.write_bag_trajectory(w, obj, topic, frame_id=fr)
    finally:
        w.close()
    r = Reader(path)
    r.open()
    try:
        back = fi.read_bag_trajectory(r, "/traj")
        for topic, fr, _, ov in others:
            ob = fi.read_bag_trajectory(r, topic)
            obv = gen.read_views(ob)
            run.check(ob.meta.get("frame_id") == fr and same_bits(obv["p"], ov["p"]) and same_bits(obv["q"], ov["q"]),
                      "bag: every topic of a multi-topic bag is read back on its own", case,
                      "topic %s of a bag with %d topics: frame id %r -> %r / poses changed" %
                      (topic, 1 + len(others), fr, ob.meta.get("frame_id")), key="bag:multi-topic")
        ts = get_typestore(Stores.ROS1_NOETIC)
        raw = []
        for conn, _, data in r.messages(connections=[c for c in r.connections if c.topic == "/traj"]):
            msg = ts.deserialize_ros1(data, conn.msgtype)
            raw.append((int(msg.header.stamp.sec), int(msg.header.stamp.nanosec)))
    finally:
        r.close()
    run.seen(case, core.digest(given["p"], given["t"], frame, len(others)), cls=["ros1 bag", "stamps:" + cls, "bag topics: %d" % (1 + len(others))],
             sample={"n": n, "stamps": cls, "frame_id": frame, "t_head": given["t"][:3]})
    b = gen.read_views(back)
    run.check(same_bits(b["p"], given["p"]), "bag: positions exact", case, "bag export changed a position",
              key="bag:positions")
    run.check(same_bits(b["q"], given["q"]), "bag: orientations exact", case,
              "bag export changed an orientation", key="bag:orientations")
    run.check(back.meta.get("frame_id") == frame, "bag: frame id preserved", case,
              "frame id %r -> %r" % (frame, back.meta.get("frame_id")), key="bag:frame")
    tol = 1e-9 + 2 * np.spacing(np.abs(given["t"]))
    run.check(b["t"].shape == given["t"].shape and bool(np.all(np.abs(b["t"] - given["t"]) <= tol)),
              "bag: re-read timestamps within 1 ns", case, "re-read bag timestamps are off by %g s" %
              (float(np.max(np.abs(b["t"] - given["t"]))) if b["t"].shape == given["t"].shape else -1),
              key="bag:stamps-reread")
    worst = Fraction(0)
    for (sec, nsec), t in zip(raw, given["t"]):
        worst = max(worst, abs(Fraction(sec) + Fraction(nsec, 10**9) - Fraction(float(t))))
    run.note_max("max_header_stamp_error_ns", float(worst * 10**9))
    run.check(len(raw) == n and worst <= Fraction(1, 10**9) and all(0 <= ns < 10**9 for _, ns in raw),
              "bag: written (sec, nanosec) within 1 ns of the timestamp", case,
              "the integer header stamp written to the bag is %.1f ns away from the trajectory's "
              "timestamp" % float(worst * 10**9), key="bag:stamps-header")


def k_text_cli(run, case, rng, work):
    """
    File to file through the command line without any processing option (evo_traj tum|kitti f
    [-v] [--full_check] [--ref g] --save_as_tum / --save_as_kitti): the exports hold exactly the
    float64 values of the inputs - informational options included.
    """
    from vmon import cli
    fmt = ["tum", "kitti"][rng.integers(2)]
    cls = ["negzero", "random17", "epoch", "ordinary"][rng.integers(4)]
    n = int(rng.integers(1, 40))
    files = {}
    for name in (["a.txt", "gt.txt"] if rng.random() < .5 else ["a.txt"]):
        tr = make_traj(rng, n if fmt == "kitti" else int(rng.integers(1, 40)), cls, "xyzq", fmt == "tum")
        v = gen.read_views(tr)
        if cls == "negzero" or rng.random() < .3:
            # (negative zeros also in the first and the last pose)
            for row in (0, -1):
                v["p"][row, int(rng.integers(3))] = -0.0
        text = rm.write_tum_text(v["t"], v["p"], v["q"]) if fmt == "tum" else \
            rm.write_kitti_text(v["p"], np.array([P[:3, :3] for P in v["T"]]))
        open(os.path.join(work, name), "w").write(text)
        files[name] = rm.parse_tum(text) if fmt == "tum" else rm.parse_kitti(text)
    out = os.path.join(work, "out")
    os.makedirs(out)
    info = [[], ["-v"], ["--full_check"], ["-v", "--full_check"], ["--debug"], ["--silent"]][rng.integers(6)]
    argv = [fmt, os.path.join(work, "a.txt")] + (["--ref", os.path.join(work, "gt.txt")] if "gt.txt" in files else []) + \
        info + ["--save_as_" + fmt, "--no_warnings"]
    res = cli.run_cli("traj", argv, cwd=out)
    run.seen(case, core.digest(fmt, cls, info, [f[1] for f in files.values()]), cls=["text file through evo_traj --save_as_" + fmt,
                                                                                 "values:" + cls, "informational options: " + (" ".join(info) or "none")],
             sample={"fmt": fmt, "values": cls, "options": info, "exit": res.exit})
    if res.exc is not None or res.exit != 0:
        # (e.g. --full_check on stamps that are not ascending: refused, nothing to compare)
        run.hit("text export through evo_traj refused (not judged)")
        return
    for name, parsed in files.items():
        path = os.path.join(out, name.replace(".txt", "." + fmt))
        if not run.check(os.path.exists(path), "evo_traj writes the export", case, "export %s missing" % path, key="textcli:missing"):
            continue
        back = rm.parse_tum(open(path).read()) if fmt == "tum" else rm.parse_kitti(open(path).read())
        if fmt == "tum":
            ok = same_bits(back[0], parsed[0]) and same_bits(back[1], parsed[1])
            okq = back[3].shape == parsed[3].shape and bool(np.all(np.abs(np.abs(np.sum(back[3] * parsed[3], axis=1)) - 1) < 1e-12))
        else:
            ok, okq = same_bits(back[0], parsed[0]), True
        run.check(ok, "text export through evo_traj: stamps and positions identical float64", case,
                  "%s -> %s: a stamp / coordinate changed (e.g. %r -> %r)" %
                  ((name, os.path.basename(path)) + _first_diff(parsed[1] if fmt == "tum" else parsed[0], back[1] if fmt == "tum" else back[0])),
                  key="textcli:lossy")
        run.check(okq, "text export through evo_traj: orientations kept", case, "orientations changed", key="textcli:orientations")


def k_bag_cli(run, case, rng, work):
    """
    Bag to bag through the command line (evo_traj bag in.bag <topics> [--ref T] --save_as_bag): every
    exported topic holds the poses, the frame id and (to the nanosecond) the stamps of its source.
    """
    import glob
    from rosbags.rosbag1 import Reader, Writer
    from evo.tools import file_interface as fi
    from vmon import cli
    k = int(rng.integers(1, 5))
    topics = ["/traj", "/groundtruth", "/cam0/pose", "/odom"][:k]
    frames = [["map", "/world", "/vicon/world", "", "robot_1/odom", "odom_ü"][rng.integers(6)] for _ in topics]
    src = os.path.join(work, "in.bag")
    given = {}
    sync = k >= 2 and bool(rng.random() < .4)  # synchronised to the reference topic (all topics stamped alike: nothing is dropped)
    n_common, t_common = int(rng.integers(2, 30)), None
    w = Writer(src)
    w.open()
    try:
        for topic, fr in zip(topics, frames):
            tr = make_traj(rng, n_common if sync else int(rng.integers(1, 40)), ["epoch", "ordinary", "random17"][rng.integers(3)],
                           "xyzq" if rng.random() < .5 else "se3", True)
            if sync:
                t_common = np.array(tr.timestamps) if t_common is None else t_common
                tr.timestamps = t_common.copy()
            fi.write_bag_trajectory(w, tr, topic, frame_id=fr)
    finally:
        w.close()
    r = Reader(src)
    r.open()
    try:
        for topic, fr in zip(topics, frames):
            # (what evo reads from the source bag is the input of the export)
            back = fi.read_bag_trajectory(r, topic)
            given[topic] = (gen.read_views(back), back.meta.get("frame_id"))
            if back.meta.get("frame_id") != fr:
                raise core.Inconclusive("source bag not readable as written")
    finally:
        r.close()
    out = os.path.join(work, "out")
    os.makedirs(out)
    use_ref = sync or (k >= 2 and rng.random() < .5)
    argv = ["bag", src] + (topics[1:] + ["--ref", topics[0]] if use_ref else topics) + ["--save_as_bag", "--no_warnings"] + \
        (["--sync", "--t_max_diff", "0.001"] if sync else [])
    res = cli.run_cli("traj", argv, cwd=out)
    run.seen(case, core.digest([v[0]["p"] for v in given.values()], frames, use_ref), cls=["ros1 bag through evo_traj --save_as_bag",
                                                                                       "bag topics: %d" % k],
             sample={"topics": topics, "frame_ids": frames, "ref": use_ref, "exit": res.exit})
    bags = glob.glob(os.path.join(out, "*.bag"))
    if not run.check(res.exc is None and res.exit == 0 and len(bags) == 1, "evo_traj exports the bag", case,
                     "evo_traj %s: exit %r exception %r, %d bag(s) written" % (argv[2:], res.exit, res.exc, len(bags)),
                     key="bagcli:export-failed"):
        return
    r = Reader(bags[0])
    r.open()
    try:
        for topic in topics:
            want, fr = given[topic]
            try:
                back = fi.read_bag_trajectory(r, topic)
            except Exception as e:
                run.violation("bagcli:topic-missing", "exported bag has no readable topic %s: %r" % (topic, e), case)
                continue
            b = gen.read_views(back)
            run.check(b["p"].shape == want["p"].shape and same_bits(b["p"], want["p"]) and same_bits(b["q"], want["q"]),
                      "bag export through evo_traj: poses exact", case, "topic %s: poses changed" % topic, key="bagcli:poses")
            run.check(back.meta.get("frame_id") == fr, "bag export through evo_traj: frame id preserved", case,
                      "topic %s: frame id %r -> %r" % (topic, fr, back.meta.get("frame_id")), key="bagcli:frame")
            tol = 1e-9 + 2 * np.spacing(np.abs(want["t"]))
            run.check(b["t"].shape == want["t"].shape and bool(np.all(np.abs(b["t"] - want["t"]) <= tol)),
                      "bag export through evo_traj: stamps within 1 ns", case, "topic %s: stamps changed" % topic,
                      key="bagcli:stamps")
    finally:
        r.close()


def with_work(fn):
    def k(run, case):
        import shutil
        work = os.path.join(os.environ.get("VMON_WORK", "."), "c%d" % case["rs"][-1])
        os.makedirs(work, exist_ok=True)
        try:
            with core.quiet():
                return fn(run, case, run.rng(case), work)
        finally:
            shutil.rmtree(work, ignore_errors=True)
    return k


KINDS = {"text": with_work(k_text), "result": with_work(k_result), "df": with_work(k_df),
         "bag": with_work(k_bag), "bag_cli": with_work(k_bag_cli), "text_cli": with_work(k_text_cli)}


def main(run):
    corpus = [{"fmt": f, "cls": c, "n": n} for f in ("tum", "kitti") for c in VALUE_CLASSES for n in (1, 7)]
    for i in run.mine(len(corpus)):
        KINDS["text"](run, run.case("text", 10**6 + i, **corpus[i]))
    for i in run.mine({"quick": 500, "thorough": 12000}[run.tier]):
        KINDS["text"](run, run.case("text", i))
    if run.tier == "thorough":
        for i in run.mine(16):
            KINDS["text"](run, run.case("text", 2 * 10**6 + i, n=100000))
    for i in run.mine({"quick": 150, "thorough": 3000}[run.tier]):
        KINDS["result"](run, run.case("result", i))
    for i in run.mine({"quick": 150, "thorough": 3000}[run.tier]):
        KINDS["df"](run, run.case("df", i))
    for i in run.mine({"quick": 80, "thorough": 1500}[run.tier]):
        KINDS["bag"](run, run.case("bag", i))
    for i in run.mine({"quick": 32, "thorough": 600}[run.tier]):
        KINDS["bag_cli"](run, run.case("bag_cli", i))
    for i in run.mine({"quick": 64, "thorough": 1200}[run.tier]):
        KINDS["text_cli"](run, run.case("text_cli", i))
    run.need("text export through evo_traj: stamps and positions identical float64", "bag export through evo_traj: frame id preserved", "tum: timestamps identical float64", "tum: positions identical float64",
             "tum: quaternions identical float64", "kitti: matrix entries identical float64",
             "result: statistics identical float64", "result: arrays identical float64",
             "result: embedded trajectory identical float64", "result: info identical (unicode)",
             "dataframe: identical float64", "bag: positions exact", "bag: orientations exact",
             "bag: frame id preserved", "bag: re-read timestamps within 1 ns",
             "bag: written (sec, nanosec) within 1 ns of the timestamp")
