"""
C17 - Existing output files are never overwritten without confirmation.
Trace specification over the event log recorded by vmon/fsmon.py (sys.addaudithook: open for
write / rename / remove / truncate; scripted builtins.input for the prompts) plus ground truth
(SHA-256 of every pre-existing file before/after, directory listing before/after), over the
matrix {writer function | CLI output option} x {target exists | not} x {answers} x
{warnings on | off} x {str | pathlib.Path}.
"""
import io
import itertools
import os
import shutil
from pathlib import Path

import numpy as np

from vmon import core, gen, contracts, cli, fsmon
from vmon import refmodel as rm

ANCHORS = ['evo/tools/user.py', 'evo/tools/file_interface.py', 'evo/tools/pandas_bridge.py', 'evo/tools/plot.py', 'evo/main_ape.py', 'evo/main_rpe.py', 'evo/main_traj.py', 'evo/main_res.py', 'evo/main_config.py', 'evo/common_ape_rpe.py']
LEVEL = "exploration"
SHARDS = {"quick": 8, "thorough": 16}
RULE = ("matrix of output scenarios (writer functions with str/Path targets; evo_ape, evo_rpe, "
        "evo_traj, evo_res, evo_config generate output options incl. multi-file plot exports) x "
        "subsets of pre-existing targets x answers {'y','n','','Y','yes',' y'} x warnings on/off; "
        "quick = all non-plot cells + one plot cell per command and answer class, thorough = full "
        "matrix; distinct = (scenario, pre-existing subset, answer, warnings); non-trivial = at "
        "least one target pre-exists")
ASSUMPTIONS = ["audit events are delivered for every open/rename/remove/truncate issued from Python",
               "the appended --logfile is not an output kind of the statement"]
# <EOF>: the prompt gets no answer (stdin at end of file); <INT>: Ctrl+C while the question is pending
# <ERR>: reading the answer fails (undecodable bytes)
# <NOSTDIN>: the process has no standard input at all (input() raises RuntimeError)
ANSWERS = ["y", "n", "", "Y", "yes", " y", "<EOF>", "<INT>", "<ERR>", "<NOSTDIN>"]


# ------------------------------------------------------------------ input data
def make_inputs(work, seed=1):
    rng = np.random.default_rng(seed)
    d = os.path.join(work, "in")
    os.makedirs(d, exist_ok=True)
    n = 25
    arr = gen.traj_arrays(rng, n, pos_cls="circle", rot_cls="smooth", stamp_cls="small")
    arr["t"] = 100.0 + np.arange(n) * 0.1
    est = {"p": arr["p"] + rng.normal(size=(n, 3)) * 0.05, "R": arr["R"], "t": arr["t"]}
    open(os.path.join(d, "ref.txt"), "w").write(rm.write_tum_text(arr["t"], arr["p"], gen.quats_of(arr["R"])))
    open(os.path.join(d, "est.txt"), "w").write(rm.write_tum_text(est["t"], est["p"], gen.quats_of(est["R"])))
    open(os.path.join(d, "est2.txt"), "w").write(rm.write_tum_text(est["t"], est["p"] + 0.1, gen.quats_of(est["R"])))
    return d, arr, est


def make_res_zips(work, ind):
    """two result archives for evo_res"""
    out = []
    for i, name in enumerate(("est.txt", "est2.txt")):
        z = os.path.join(ind, "res%d.zip" % i)
        r = cli.run_cli("ape", ["tum", os.path.join(ind, "ref.txt"), os.path.join(ind, name),
                                "--save_results", z, "--no_warnings"], cwd=work)
        assert r.ok, r
        out.append(z)
    return out


# ------------------------------------------------------------------ scenarios
class Scenario:
    def __init__(self, name, plot, run, confirm_switch=True, collision=False):
        self.name, self.plot, self.run, self.confirm_switch = name, plot, run, confirm_switch
        self.collision = collision  # two outputs of one command share a target path


OUT_OPTS = ("--save_results", "--save_plot", "--serialize_plot", "--save_table", "-o", "--out")


def respell(argv, spelling, outdir):
    """the same output targets, spelled differently on the command line"""
    if spelling in (None, "plain"):
        return argv
    out = list(argv)
    for i in range(1, len(out)):
        if out[i - 1] in OUT_OPTS:
            if spelling == "dot":
                out[i] = "./" + out[i]
            elif spelling == "abs":
                out[i] = os.path.join(outdir, out[i])
            elif spelling == "dotdot":
                os.makedirs(os.path.join(outdir, "sub"), exist_ok=True)
                out[i] = "sub/../" + out[i]
            elif spelling == "envvar":
                # a '$NAME' inside the file name is part of the name (no shell is involved); the
                # variable is set in the process environment
                os.environ["EVO_SEQ"] = "07"
                st, ex = os.path.splitext(out[i])
                out[i] = st + "_$EVO_SEQ" + ex
            elif spelling == "noext":
                # a name without extension (writers that add a default extension must check the
                # name they really write to); plot exports derive the format from the extension
                if out[i - 1] not in ("--save_plot", "--serialize_plot"):
                    out[i] = os.path.splitext(out[i])[0]
            elif spelling == "blank":
                # a name that ends in a blank (pasted with the trailing space, quoted on the shell):
                # a different file than the name without it; plot exports derive the format from
                # the extension and are left alone
                if out[i - 1] not in ("--save_plot", "--serialize_plot"):
                    out[i] = out[i] + " "
            elif spelling == "tilde":
                # an unexpanded '~' (quoted on the shell, or taken from a config file) is an
                # ordinary directory name: ./~/<file>
                os.makedirs(os.path.join(outdir, "~"), exist_ok=True)
                out[i] = "~/" + out[i]
    return out


def cli_scenario(name, tool, argv_fn, plot=False, confirm_switch=True, collision=False):
    def run(outdir, ctx, answers, no_warnings):
        argv = respell(argv_fn(ctx), ctx.get("spelling"), outdir)
        if no_warnings:
            argv = argv + ["--no_warnings"]
        return cli.run_cli(tool, argv, cwd=outdir, answers=answers)
    return Scenario(name, plot, run, confirm_switch, collision)


def writer_scenario(name, fn, plot=False):
    def run(outdir, ctx, answers, no_warnings):
        res = cli.CliResult()
        old = os.getcwd()
        os.chdir(outdir)
        try:
            with cli.scripted_input(answers, res.prompts), core.quiet():
                try:
                    fn(ctx, outdir, confirm=not no_warnings)
                    res.exit = 0
                except BaseException as e:  # noqa
                    res.exc = e
        finally:
            os.chdir(old)
            if plot:
                import matplotlib.pyplot as plt
                plt.close("all")
        return res
    return Scenario(name, plot, run)


def scenarios():
    S = []
    ref = lambda c: os.path.join(c["in"], "ref.txt")  # noqa
    est = lambda c: os.path.join(c["in"], "est.txt")  # noqa
    est2 = lambda c: os.path.join(c["in"], "est2.txt")  # noqa
    for tool in ("ape", "rpe"):
        S.append(cli_scenario("evo_%s --save_results" % tool, tool,
                              lambda c: ["tum", ref(c), est(c), "--save_results", "r.zip"]))
        S.append(cli_scenario("evo_%s --save_plot pdf" % tool, tool,
                              lambda c: ["tum", ref(c), est(c), "--save_plot", "p.pdf"], plot=True))
        S.append(cli_scenario("evo_%s --save_plot png" % tool, tool,
                              lambda c: ["tum", ref(c), est(c), "--save_plot", "p.png"], plot=True))
        S.append(cli_scenario("evo_%s --serialize_plot" % tool, tool,
                              lambda c: ["tum", ref(c), est(c), "--serialize_plot", "s.pkl"], plot=True))
        S.append(cli_scenario("evo_%s all outputs" % tool, tool,
                              lambda c: ["tum", ref(c), est(c), "--save_results", "r.zip", "--save_plot", "p.png",
                                         "--serialize_plot", "s.pkl"], plot=True))
    for tool in ("ape", "rpe"):
        # the plot window requested as well (closed at once under the non-interactive backend);
        # extensions in capitals: one file per figure for everything that is not exactly ".pdf"
        S.append(cli_scenario("evo_%s --plot --save_plot PDF" % tool, tool,
                              lambda c: ["tum", ref(c), est(c), "--plot", "--save_plot", "p.PDF"], plot=True))
    S.append(cli_scenario("evo_ape --plot --save_plot png --serialize_plot", "ape",
                          lambda c: ["tum", ref(c), est(c), "--plot", "--save_plot", "p.PNG", "--serialize_plot", "s.pkl"], plot=True))
    S.append(cli_scenario("evo_traj --plot --save_plot Pdf", "traj",
                          lambda c: ["tum", est(c), "--ref", ref(c), "--plot", "--save_plot", "p.Pdf"], plot=True))
    S.append(cli_scenario("evo_res --plot --save_plot PDF", "res", lambda c: c["zips"] + ["--plot", "--save_plot", "p.PDF"], plot=True))
    for tool in ("ape", "rpe"):
        # one target named for two outputs: the second writer finds a file that the first one has
        # just created - it exists, so it is asked about
        S.append(cli_scenario("evo_%s --serialize_plot X --save_results X" % tool, tool,
                              lambda c: ["tum", ref(c), est(c), "--serialize_plot", "x.out", "--save_results", "x.out"],
                              plot=True, collision=True))
    S.append(cli_scenario("evo_traj --save_as_tum", "traj",
                          lambda c: ["tum", est(c), est2(c), "--ref", ref(c), "--save_as_tum"]))
    S.append(cli_scenario("evo_traj --save_as_kitti", "traj",
                          lambda c: ["tum", est(c), est2(c), "--ref", ref(c), "--save_as_kitti"]))
    S.append(cli_scenario("evo_traj --save_as_tum --save_as_kitti", "traj",
                          lambda c: ["tum", est(c), "--save_as_tum", "--save_as_kitti"]))
    S.append(cli_scenario("evo_traj --save_table", "traj",
                          lambda c: ["tum", est(c), est2(c), "--save_table", "t.csv"]))
    S.append(cli_scenario("evo_traj --save_plot png", "traj",
                          lambda c: ["tum", est(c), "--ref", ref(c), "--save_plot", "p.png"], plot=True))
    S.append(cli_scenario("evo_traj --save_plot pdf", "traj",
                          lambda c: ["tum", est(c), "--save_plot", "p.pdf"], plot=True))
    S.append(cli_scenario("evo_traj --serialize_plot", "traj",
                          lambda c: ["tum", est(c), "--serialize_plot", "s.pkl"], plot=True))
    S.append(cli_scenario("evo_res --save_table", "res", lambda c: c["zips"] + ["--save_table", "t.csv"]))
    S.append(cli_scenario("evo_res --save_plot png", "res", lambda c: c["zips"] + ["--save_plot", "p.png"], plot=True))
    S.append(cli_scenario("evo_res --serialize_plot", "res", lambda c: c["zips"] + ["--serialize_plot", "s.pkl"], plot=True))
    # the same outputs with further (legal, unrelated) options: none of them may switch the
    # confirmation off
    for extra in (["--ignore_title"], ["--use_filenames"], ["--merge"], ["--use_rel_time", "--ignore_title"]):
        S.append(cli_scenario("evo_res --save_table " + " ".join(extra), "res",
                              lambda c, extra=extra: c["zips"] + extra + ["--save_table", "t.csv"]))
    S.append(cli_scenario("evo_res --save_plot png --ignore_title", "res",
                          lambda c: c["zips"] + ["--ignore_title", "--save_plot", "p.png"], plot=True))
    S.append(cli_scenario("evo_res --serialize_plot --ignore_title", "res",
                          lambda c: c["zips"] + ["--ignore_title", "--serialize_plot", "s.pkl"], plot=True))
    for tool in ("ape", "rpe"):
        for extra in (["-a", "-s", "-v"], ["--align_origin", "--silent"], ["--project_to_plane", "xy", "--debug"]):
            S.append(cli_scenario("evo_%s --save_results %s" % (tool, " ".join(extra)), tool,
                                  lambda c, extra=extra: ["tum", ref(c), est(c)] + extra + ["--save_results", "r.zip"]))
    for extra in (["--full_check"], ["-v", "--sync"], ["--silent", "-a"], ["--merge"]):
        S.append(cli_scenario("evo_traj --save_as_tum " + " ".join(extra), "traj",
                              lambda c, extra=extra: ["tum", est(c), est2(c), "--ref", ref(c)] + extra + ["--save_as_tum"]))
    S.append(cli_scenario("evo_traj --save_table --full_check", "traj",
                          lambda c: ["tum", est(c), est2(c), "--full_check", "--save_table", "t.csv"]))
    S.append(cli_scenario("evo_config generate -o", "config",
                          lambda c: ["generate", "--align", "--plot_mode", "xz", "-o", "cfg.json"],
                          confirm_switch=False))

    def traj_of(c):
        return gen.make_evo(c["arr"], "xyzq")

    for kind in ("str", "Path"):
        conv = (lambda p: p) if kind == "str" else (lambda p: Path(p))

        def w_tum(c, d, confirm, conv=conv):
            from evo.tools import file_interface as fi
            fi.write_tum_trajectory_file(conv(os.path.join(d, "w.tum")), traj_of(c), confirm_overwrite=confirm)

        def w_kitti(c, d, confirm, conv=conv):
            from evo.tools import file_interface as fi
            fi.write_kitti_poses_file(conv(os.path.join(d, "w.kitti")), traj_of(c), confirm_overwrite=confirm)

        def w_res(c, d, confirm, conv=conv):
            from evo.tools import file_interface as fi
            from evo.core.result import Result
            r = Result()
            r.add_stats({"rmse": 1.0})
            r.add_np_array("error_array", np.ones(3))
            r.add_trajectory("t", traj_of(c))
            fi.save_res_file(conv(os.path.join(d, "w.zip")), r, confirm_overwrite=confirm)

        def w_table(c, d, confirm, conv=conv):
            from evo.tools import pandas_bridge as pb
            df = pb.trajectories_stats_to_df({"a": traj_of(c)})
            pb.save_df_as_table(df, conv(os.path.join(d, "w.csv")), confirm_overwrite=confirm)

        S.append(writer_scenario("write_tum_trajectory_file(%s)" % kind, w_tum))
        S.append(writer_scenario("write_kitti_poses_file(%s)" % kind, w_kitti))
        S.append(writer_scenario("save_res_file(%s)" % kind, w_res))
        S.append(writer_scenario("save_df_as_table(%s)" % kind, w_table))

    def pc(c):
        import matplotlib
        matplotlib.use("Agg")
        import matplotlib.pyplot as plt
        from evo.tools import plot
        coll = plot.PlotCollection("t")
        for nm in ("one", "two", "three"):
            f = plt.figure()
            f.gca().plot([0, 1], [0, 1])
            coll.add_figure(nm, f)
        return coll

    S.append(writer_scenario("PlotCollection.export(png)", lambda c, d, confirm: pc(c).export(os.path.join(d, "e.png"), confirm_overwrite=confirm), plot=True))
    S.append(writer_scenario("PlotCollection.export(pdf)", lambda c, d, confirm: pc(c).export(os.path.join(d, "e.pdf"), confirm_overwrite=confirm), plot=True))
    S.append(writer_scenario("PlotCollection.serialize", lambda c, d, confirm: pc(c).serialize(os.path.join(d, "e.pkl"), confirm_overwrite=confirm), plot=True))
    return S


HOME_TAG = "HOME:" + os.sep


def digest_roots(outdir):
    """files below the working directory (relative names) and below the home directory
    ('HOME:/name'; evo's own ~/.evo and tool caches excluded) -> sha256"""
    d = dict(fsmon.digest_dir(outdir))
    home = os.environ["HOME"]
    if os.path.abspath(outdir).startswith(os.path.abspath(home) + os.sep):
        return d
    for k, v in fsmon.digest_dir(home).items():
        if k.split(os.sep)[0] in (".evo", ".config", ".cache", ".matplotlib", ".ros"):
            continue
        d[HOME_TAG + k] = v
    return d


def loc(outdir, f):
    return os.path.join(os.environ["HOME"], f[len(HOME_TAG):]) if f.startswith(HOME_TAG) else os.path.join(outdir, f)


def clean_home():
    home = os.environ["HOME"]
    for k in fsmon.digest_dir(home):
        if k.split(os.sep)[0] not in (".evo", ".config", ".cache", ".matplotlib", ".ros"):
            os.remove(os.path.join(home, k))


# ------------------------------------------------------------------ one matrix cell
def k_cell(run, case):
    S = {s.name: s for s in scenarios()}[case["scenario"]]
    work = os.path.join(os.environ.get("VMON_WORK", "."), "c17_%d" % case["rs"][-1])
    os.makedirs(work, exist_ok=True)
    try:
        ind, arr, est = make_inputs(work)
        ctx = {"in": ind, "arr": arr}
        if case["scenario"].startswith("evo_res"):
            ctx["zips"] = make_res_zips(work, ind)
        srng = run.rng(case, stream=6)
        ctx["spelling"] = case.get("spelling") or ["plain", "plain", "dot", "abs", "dotdot", "tilde", "noext", "envvar", "blank"][srng.integers(9)]
        if S.collision and ctx["spelling"] in ("noext", "blank"):
            ctx["spelling"] = "plain"  # (the two outputs must keep naming the same target)
        # A) discover the outputs of this scenario in an empty directory, warnings off
        outA = os.path.join(work, "A")
        os.makedirs(outA)
        rA = S.run(outA, ctx, [], True) if S.confirm_switch else S.run(outA, ctx, [], False)
        OUT = sorted(digest_roots(outA))
        clean_home()
        if not run.check(rA.ok and OUT, "scenario produces its outputs", case,
                         "%s did not produce outputs in an empty directory: %r" % (S.name, rA)):
            return
        # B) the cell
        answer = case["answer"]
        no_warnings = case["no_warnings"]
        mask = case["mask"]
        E = [f for i, f in enumerate(OUT) if (mask >> (i % 16)) & 1] if mask >= 0 else list(OUT)
        outB = os.path.join(work, "B")
        os.makedirs(outB)
        # what the existing targets are: files with content, empty files (touch / mkstemp / an
        # aborted run), or symbolic links to files kept elsewhere
        erng = run.rng(case, stream=5)
        kinds = ["content", "content", "empty", "symlink"]
        if os.geteuid() == 0:
            kinds.append("readonly")  # (a privileged process - containers, CI - writes through missing write bits)
        existing_kind = case.get("existing") or kinds[erng.integers(len(kinds))]
        for f in E:
            dst = loc(outB, f)
            os.makedirs(os.path.dirname(dst) or outB, exist_ok=True)
            if existing_kind == "empty":
                open(dst, "wb").close()
            elif existing_kind == "symlink":
                store = os.path.join(work, "store")
                os.makedirs(store, exist_ok=True)
                real = os.path.join(store, f.replace(os.sep, "_"))
                open(real, "wb").write(b"OLD CONTENT of " + f.encode() + b"\n" * 3)
                os.symlink(real, dst)
            else:
                open(dst, "wb").write(b"OLD CONTENT of " + f.encode() + b"\n" * 3)
                if existing_kind == "readonly":
                    os.chmod(dst, 0o444)
        before = digest_roots(outB)
        with fsmon.Recorder() as rec:
            rB = S.run(outB, ctx, [answer] * 40, no_warnings)
        after = digest_roots(outB)
        confirm_on = (not no_warnings) or not S.confirm_switch
        nprompts = len(rB.prompts)
        run.seen(case, core.digest(S.name, E, answer, no_warnings, existing_kind, ctx["spelling"]), nontrivial=bool(E),
                 cls=["scenario:" + S.name, "answer:%r" % answer, "warnings off" if not confirm_on else "warnings on",
                      "existing targets: " + existing_kind, "target spelling: " + ctx["spelling"],
                      "existing:%d/%d" % (len(E), len(OUT))],
                 sample={"scenario": S.name, "outputs": OUT, "pre_existing": E, "answer": answer,
                         "no_warnings": no_warnings, "prompts": nprompts,
                         "events": [(e[1], os.path.basename(e[2])) for e in rec.events[:12]]})
        label = "%s [existing %s, answer %r, %s]" % (S.name, E, answer, "warnings off" if not confirm_on else "warnings on")
        run.check(rB.exc is None or (answer == "<EOF>" and isinstance(rB.exc, EOFError)) or
                  (answer == "<INT>" and isinstance(rB.exc, KeyboardInterrupt)) or
                  (answer == "<ERR>" and isinstance(rB.exc, UnicodeDecodeError)) or
                  (answer == "<NOSTDIN>" and isinstance(rB.exc, RuntimeError)), "command does not crash", case,
                  "%s crashed: %r" % (label, rB.exc), key="crash")
        # S5: nothing written in place of / besides the expected outputs
        extra = sorted(set(after) - set(before) - set(OUT))
        run.check(not extra, "no unexpected files are written", case,
                  "%s wrote unexpected files %s" % (label, extra), key="unexpected-files:" + S.name)
        if S.collision and confirm_on:
            # the shared target exists when the second output is written, whatever existed before
            run.check(nprompts >= 1, "a target created earlier in the same run is confirmed before it is replaced", case,
                      "%s: the second output replaced the file written by the first one without asking" % label,
                      key="no-prompt:" + S.name)
            if answer != "y" and not E:
                kept = all(open(loc(outB, f), "rb").read(2) != b"PK" for f in OUT if os.path.exists(loc(outB, f)))
                run.check(kept, "a declined second output leaves the first output in place", case,
                          "%s: the shared target holds the result archive although the overwrite was declined" % label,
                          key="overwritten-without-y:" + S.name)
        run.check(nprompts <= len(E) + (1 if S.collision else 0), "only existing targets are asked about", case,
                  "%s asked %d times for %d existing targets" % (label, nprompts, len(E)),
                  key="prompt-count:" + S.name)
        changed = [f for f in E if after.get(f) != before[f]]
        if confirm_on and answer != "y":
            run.counters["declined / not exactly 'y' => existing files byte-identical"] += 1
            if changed:
                run.violation("overwritten-without-y:" + S.name, "%s: existing file(s) %s were modified "
                              "although the answer was not exactly 'y'" % (label, changed), case)
            if E:
                run.check(nprompts >= 1, "confirmation is asked for an existing target", case,
                          "%s: no confirmation prompt although a target exists" % label,
                          key="no-prompt:" + S.name)
            for f in E:
                ev = rec.destructive_on(loc(outB, f))
                run.counters["no destructive file-system event on a declined target"] += 1
                if ev:
                    run.violation("destructive-event-on-declined:" + S.name, "%s: %s on existing %s although "
                                  "not confirmed" % (label, ev[0][1], f), case)
        elif confirm_on and answer == "y":
            run.counters["answer 'y' => every existing target asked and replaced"] += 1
            if sorted(changed) != sorted(E) or any(after.get(f) is None for f in E):
                run.violation("not-replaced-after-y:" + S.name, "%s: after confirming with 'y' the files %s "
                              "were not replaced" % (label, sorted(set(E) - set(changed))), case)
            if nprompts != len(E) + (1 if S.collision else 0):
                run.violation("prompt-count:" + S.name, "%s: %d prompts for %d existing targets" %
                              (label, nprompts, len(E)), case)
            # ordering: no destructive event on an existing target before a 'y' was given
            # (every scripted prompt is also appended to the Recorder's event log, see
            # install_prompt_bridge, so prompts and file-system events share one order)
            for f in E:
                ev = rec.destructive_on(loc(outB, f))
                run.counters["destructive events on a target come after its confirmation"] += 1
                # count prompts answered before the first destructive event
                if ev:
                    n_before = sum(1 for (seq, kind, _, _) in rec.events if kind == "prompt" and seq < ev[0][0])
                    if n_before < 1:
                        run.violation("write-before-confirmation:" + S.name, "%s: %s on existing %s before "
                                      "any confirmation was given" % (label, ev[0][1], f), case)
            missing = sorted(set(OUT) - set(after))
            run.check(not missing, "all outputs are written after 'y'", case, "%s: outputs %s missing" %
                      (label, missing), key="missing-output:" + S.name)
        else:
            run.counters["warnings disabled => replaced without asking"] += 1
            if nprompts:
                run.violation("prompt-with-warnings-off:" + S.name, "%s prompted although warnings are disabled" % label, case)
            if sorted(changed) != sorted(E):
                run.violation("not-replaced-warnings-off:" + S.name, "%s: files %s were not replaced" %
                              (label, sorted(set(E) - set(changed))), case)
        # --- history: the same process saves to the same paths again; an earlier 'y' (or an earlier
        # creation) must not count as a confirmation for the next save
        if confirm_on and E and rB.exc is None:
            again = "n" if answer == "y" else "y"
            before2 = digest_roots(outB)
            existing2 = sorted(f for f in OUT if f in before2)
            r2 = S.run(outB, ctx, [again] * 40, no_warnings)
            after2 = digest_roots(outB)
            changed2 = [f for f in existing2 if after2.get(f) != before2[f]]
            run.counters["repeated save to the same paths is confirmed again"] += 1
            if again != "y":
                if changed2:
                    run.violation("overwritten-on-repeat:" + S.name, "%s: a second save in the same process "
                                  "(first answered %r, now %r) modified %s" % (S.name, answer, again, changed2), case)
                if existing2 and len(r2.prompts) < 1:
                    run.violation("no-prompt-on-repeat:" + S.name, "%s: the second save to existing targets in "
                                  "the same process did not ask" % S.name, case)
            else:
                # (files written by the first run already hold the new output: only those still
                # holding the old dummy content can be seen to change)
                stale = [f for f in existing2 if f in E and before2[f] == before.get(f)]
                if r2.exc is None and any(f not in changed2 for f in stale):
                    run.violation("not-replaced-on-repeat:" + S.name, "%s: second save confirmed with 'y' did not "
                                  "replace %s" % (S.name, sorted(set(stale) - set(changed2))), case)
    finally:
        shutil.rmtree(work, ignore_errors=True)
        clean_home()


def k_exe(run, case):
    """the real executables (fresh interpreter, answers on stdin) on a few representative cells"""
    import hashlib
    tool, answer = case["tool"], case["answer"]
    work = os.path.join(os.environ.get("VMON_WORK", "."), "c17x_%d" % case["rs"][-1])
    os.makedirs(work, exist_ok=True)
    try:
        ind, arr, est = make_inputs(work)
        out = os.path.join(work, "out")
        os.makedirs(out)
        ref, es = os.path.join(ind, "ref.txt"), os.path.join(ind, "est.txt")
        argv = {"ape": ["tum", ref, es, "--save_results", "r.zip"],
                "rpe": ["tum", ref, es, "--save_results", "r.zip"],
                "traj": ["tum", es, "--save_as_tum", "--save_as_kitti"],
                "config": ["generate", "--align", "-o", "cfg.json"]}[tool]
        targets = {"ape": ["r.zip"], "rpe": ["r.zip"], "traj": ["est.tum", "est.kitti"], "config": ["cfg.json"]}[tool]
        for t in targets:
            open(os.path.join(out, t), "wb").write(b"OLD " + t.encode())
        before = fsmon.digest_dir(out)
        typed = (answer + "\n") * 5
        if case.get("pty"):
            typed = "<PTY>" + typed  # typed at a terminal instead of piped in
        p = cli.run_subprocess(tool, argv, out, os.environ["HOME"], stdin_text=typed)
        after = fsmon.digest_dir(out)
        run.seen(case, core.digest(tool, answer, bool(case.get("pty"))), cls=["real executable evo_%s answer %r%s" % (tool, answer, " typed at a terminal" if case.get("pty") else "")],
                 sample={"tool": tool, "argv": argv, "answer": answer, "rc": p.returncode})
        changed = [t for t in targets if after.get(t) != before[t]]
        if answer == "y":
            run.check(sorted(changed) == sorted(targets) and p.returncode == 0,
                      "real executable: 'y' replaces the targets", case,
                      "evo_%s with answer 'y': changed %s of %s (rc %s, stderr %s)" %
                      (tool, changed, targets, p.returncode, p.stderr[-200:]), key="exe:not-replaced:" + tool)
        else:
            run.check(not changed, "real executable: other answers leave the targets byte-identical", case,
                      "evo_%s with answer %r modified %s" % (tool, answer, changed), key="exe:overwritten:" + tool)
        run.check(set(after) <= set(before), "real executable: nothing else written", case,
                  "unexpected files %s" % sorted(set(after) - set(before)), key="exe:extra:" + tool)
    finally:
        shutil.rmtree(work, ignore_errors=True)


def k_refused_input(run, case):
    """
    A writer / command asked for an output it cannot produce from its input (a TUM export of poses
    without timestamps: evo_traj kitti ... --save_as_tum, write_tum_trajectory_file(path)), while a
    file of that name exists: whether evo refuses the input or learns to handle it, the existing
    file is replaced only after a question answered with exactly 'y'.
    """
    from evo.tools import file_interface as fi
    via, answer = case["via"], case["answer"]
    work = os.path.join(os.environ.get("VMON_WORK", "."), "c17r_%d" % case["rs"][-1])
    os.makedirs(os.path.join(work, "out"), exist_ok=True)
    try:
        rng = run.rng(case)
        arr = gen.traj_arrays(rng, 9, stamp_cls="small")
        path_obj = gen.make_evo(arr, "se3" if rng.random() < .5 else "xyzq", stamped=False)
        out = os.path.join(work, "out")
        target = os.path.join(out, "poses.tum")
        old = b"OLD CONTENT of poses.tum\n" * 3
        open(target, "wb").write(old)
        res = cli.CliResult()
        if via == "api":
            cwd = os.getcwd()
            os.chdir(out)
            try:
                with cli.scripted_input([answer] * 5, res.prompts), core.quiet():
                    try:
                        fi.write_tum_trajectory_file(target if rng.random() < .5 else Path(target), path_obj, confirm_overwrite=True)
                    except BaseException as e:  # noqa
                        res.exc = e
            finally:
                os.chdir(cwd)
        else:
            src = os.path.join(work, "poses.txt")
            fi.write_kitti_poses_file(src, path_obj)
            res = cli.run_cli("traj", ["kitti", src, "--save_as_tum"], cwd=out, answers=[answer] * 5)
        now = open(target, "rb").read() if os.path.exists(target) else None
        run.seen(case, core.digest(via, answer), cls=["output the input cannot provide: %s, answer %r" % (via, answer)],
                 sample={"via": via, "answer": answer, "prompts": len(res.prompts), "refused": res.exc is not None or res.exit not in (0, None)})
        confirmed = answer == "y" and len(res.prompts) >= 1
        run.check(now == old or confirmed, "an existing file is only replaced after a question answered with 'y' (unusable input)", case,
                  "%s: the existing poses.tum was %s although %d question(s) were asked and the answer was %r" %
                  (via, "removed" if now is None else "replaced", len(res.prompts), answer), key="refused-input:overwritten:" + via)
    finally:
        shutil.rmtree(work, ignore_errors=True)
        clean_home()


MIXED = {
    "evo_ape --save_results --save_plot": ("ape", lambda c: ["tum", c["ref"], c["est"], "--save_results", "r.zip", "--save_plot", "p.png"], True),
    "evo_rpe --save_plot --save_results --serialize_plot": ("rpe", lambda c: ["tum", c["ref"], c["est"], "--save_plot", "p.pdf", "--save_results", "r.zip", "--serialize_plot", "s.pkl"], True),
    "evo_ape --serialize_plot --save_results": ("ape", lambda c: ["tum", c["ref"], c["est"], "--serialize_plot", "s.pkl", "--save_results", "r.zip"], True),
    "evo_traj --save_table --save_as_tum": ("traj", lambda c: ["tum", c["est"], c["est2"], "--save_table", "t.csv", "--save_as_tum"], False),
    "evo_traj --save_as_tum --save_as_kitti --save_table": ("traj", lambda c: ["tum", c["est"], "--save_as_kitti", "--save_table", "t.csv", "--save_as_tum"], False),
    "evo_traj --save_plot --save_as_tum": ("traj", lambda c: ["tum", c["est"], c["est2"], "--save_plot", "p.png", "--save_as_tum"], True),
    "evo_res --save_table --save_plot": ("res", lambda c: c["zips"] + ["--save_table", "t.csv", "--save_plot", "p.png"], True),
}


def k_mixed(run, case):
    """
    One command with several outputs whose targets all exist, the questions answered differently
    (decided by the file a question names, so neither the order nor the number of questions
    matters): exactly the targets confirmed with 'y' are replaced, every other one stays
    byte-identical - a confirmation given for one file is no confirmation for another one.
    """
    name = case["scenario"]
    tool, argv_fn, plot = MIXED[name]
    work = os.path.join(os.environ.get("VMON_WORK", "."), "c17m_%d" % case["rs"][-1])
    os.makedirs(work, exist_ok=True)
    try:
        ind, arr, est = make_inputs(work)
        ctx = {"ref": os.path.join(ind, "ref.txt"), "est": os.path.join(ind, "est.txt"), "est2": os.path.join(ind, "est2.txt")}
        if tool == "res":
            ctx["zips"] = make_res_zips(work, ind)
        argv = argv_fn(ctx)
        outA = os.path.join(work, "A")
        os.makedirs(outA)
        rA = cli.run_cli(tool, argv + ["--no_warnings"], cwd=outA)
        OUT = sorted(fsmon.digest_dir(outA))
        if plot:
            import matplotlib.pyplot as plt
            plt.close("all")
        if not run.check(rA.ok and len(OUT) >= 2, "scenario produces several outputs", case,
                         "%s did not produce its outputs: %r" % (name, rA)):
            return
        rng = run.rng(case)
        outB = os.path.join(work, "B")
        os.makedirs(outB)
        for f in OUT:
            open(os.path.join(outB, f), "wb").write(b"OLD CONTENT of " + f.encode() + b"\n" * 3)
        pick = case.get("pick", "random")
        if pick == "first":
            yes = {OUT[0]}
        elif pick == "last":
            yes = {OUT[-1]}
        elif pick == "all-but-one":
            yes = set(OUT) - {OUT[int(rng.integers(len(OUT)))]}
        else:
            yes = {f for f in OUT if rng.random() < .5}
        other = ["n", "", "yes", "Y", "<EOF>"][int(rng.integers(4 if case.get("noeof", True) else 5))]
        asked = []

        def decide(prompt):
            # the target a question is about: the argument of evo's check_and_confirm_overwrite()
            # up the stack (its question is logged, not part of the prompt), else a name in the prompt
            import sys as _sys
            subject, fr = prompt, _sys._getframe(1)
            while fr is not None:
                if fr.f_code.co_name == "check_and_confirm_overwrite" and "file_path" in fr.f_locals:
                    subject = str(fr.f_locals["file_path"])
                    break
                fr = fr.f_back
            named = [f for f in OUT if os.path.basename(f) in subject]
            named.sort(key=len)
            asked.append(named[-1] if named else None)
            return "y" if named and named[-1] in yes else other

        before = fsmon.digest_dir(outB)
        res = cli.run_cli(tool, argv, cwd=outB, answers=decide)
        if plot:
            import matplotlib.pyplot as plt
            plt.close("all")
        after = fsmon.digest_dir(outB)
        run.seen(case, core.digest(name, sorted(yes), other), cls=["mixed answers: " + name, "confirmed %d of %d" % (len(yes), len(OUT)),
                                                                 "other answer %r" % other],
                 sample={"scenario": name, "outputs": OUT, "confirmed": sorted(yes), "other_answer": other,
                         "questions_named": asked})
        label = "%s [all of %s exist, 'y' only for %s, %r otherwise]" % (name, OUT, sorted(yes), other)
        run.check(res.exc is None, "command does not crash", case, "%s crashed: %r" % (label, res.exc), key="crash")
        if None in asked:
            run.hit("questions that name none of the targets")
            return  # (cannot be attributed: not judged)
        changed = sorted(f for f in OUT if after.get(f) != before[f])
        run.counters["mixed answers: only the targets confirmed with 'y' change"] += 1
        wrong = sorted(set(changed) - yes)
        if wrong:
            run.violation("mixed:overwritten-without-y", "%s: %s were modified although their own question was "
                          "not answered 'y' (questions asked about: %s)" % (label, wrong, asked), case)
        # (a declined question may end the command: later targets are then never asked about)
        kept = sorted((yes & set(asked)) - set(changed))
        if kept:
            run.violation("mixed:not-replaced-after-y", "%s: %s were confirmed with 'y' but not replaced" % (label, kept), case)
        extra = sorted(set(after) - set(OUT))
        run.check(not extra, "no unexpected files are written", case, "%s wrote unexpected files %s" % (label, extra),
                  key="unexpected-files:" + name)
    finally:
        shutil.rmtree(work, ignore_errors=True)
        clean_home()


KINDS = {"cell": k_cell, "exe": k_exe, "refused_input": k_refused_input, "mixed": k_mixed}


def install_prompt_bridge():
    """make every scripted prompt appear in the active fsmon.Recorder's event log"""
    orig = cli.scripted_input

    import contextlib

    @contextlib.contextmanager
    def bridged(answers, log):
        class L(list):
            def append(self, item):
                list.append(self, item)
                if fsmon._ACTIVE:
                    fsmon._ACTIVE[-1].prompt(item[0], item[1])
        bridge = L()
        with orig(answers, bridge):
            try:
                yield
            finally:
                log.extend(bridge)

    cli.scripted_input = bridged


install_prompt_bridge()


def main(run):
    S = scenarios()
    cells = []
    for s in S:
        answers = ANSWERS
        masks = [-1, 0b01, 0b10, 0]  # all exist / alternating subsets / none
        for ans in answers:
            for nw in ((False, True) if s.confirm_switch else (False, )):
                for m in masks:
                    if nw and ans != "y":
                        continue  # the answer is irrelevant with warnings off
                    if s.plot and run.tier == "quick":
                        # quick: one plot cell per command and answer class
                        if not ((ans == "y" and m == -1 and not nw) or (ans == "n" and m == 0b10) or
                                (ans == "n" and m == -1 and s.name.endswith("png"))):
                            continue
                    cells.append({"scenario": s.name, "answer": ans, "no_warnings": nw, "mask": m})
    for i in run.mine(len(cells)):
        k_cell(run, run.case("cell", i, **cells[i]))
    exe = [{"tool": t, "answer": a} for t in ("ape", "rpe", "traj", "config")
           for a in (("n", "y") if run.tier == "quick" else ANSWERS)]
    exe += [{"tool": t, "answer": a, "pty": True} for t in ("traj", "config") for a in ("yes", "y ", "n", "y", "yn")]
    for i in run.mine(len(exe)):
        k_exe(run, run.case("exe", i, **exe[i]))
    refused = [{"via": v, "answer": a} for v in ("api", "cli") for a in ("n", "y", "", "<EOF>")]
    for i in run.mine(len(refused)):
        k_refused_input(run, run.case("refused_input", i, **refused[i]))
    mixed = [{"scenario": n, "pick": pk} for n in MIXED for pk in ("first", "last", "all-but-one", "random")]
    if run.tier == "thorough":
        mixed = mixed * 4
    for i in run.mine(len(mixed)):
        k_mixed(run, run.case("mixed", i, **mixed[i]))
    run.extra["matrix_cells"] = len(cells)
    run.extra["scenarios"] = [s.name for s in S]
    if run.tier == "thorough":
        run.exhaustive = True
    run.need("declined / not exactly 'y' => existing files byte-identical",
             "answer 'y' => every existing target asked and replaced",
             "warnings disabled => replaced without asking",
             "no destructive file-system event on a declined target",
             "destructive events on a target come after its confirmation",
             "confirmation is asked for an existing target", "no unexpected files are written",
             "repeated save to the same paths is confirmed again",
             "real executable: 'y' replaces the targets", "mixed answers: only the targets confirmed with 'y' change",
             "real executable: other answers leave the targets byte-identical")
