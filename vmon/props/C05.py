"""
C05 - Time association pairs each pose with its nearest counterpart within max_diff.
Contract on sync.associate_trajectories / sync.matching_time_indices against an exact-rational
nearest-neighbour model; output poses are mapped back to input indices through their timestamps
and compared bit for bit in every representation.
"""
import math

import numpy as np

from vmon import core, gen, contracts
from vmon import refmodel as rm

ANCHORS = ['evo/core/sync.py', 'evo/core/trajectory.py']
LEVEL = "exploration"
SHARDS = {"quick": 8, "thorough": 16}
RULE = ("pairs of strictly increasing timestamp vectors from class generators (same/different "
        "rate, jitter, gaps, disjoint, contested, epoch, dyadic-exact) x max_diff in {0, exact "
        "hit, generic} x offsets of both signs x both length orderings and equal lengths; "
        "distinct = digest of (t1, t2, max_diff, offset); non-trivial = at least one pair "
        "produced or refusal expected")
ASSUMPTIONS = ["fractions.Fraction arithmetic is exact", "timestamps are float64 (as loaded from files)"]
STAMP_KINDS = ["same_rate", "diff_rate", "jitter", "gaps", "disjoint", "contested", "epoch",
               "dyadic", "dyadic_contested", "single"]


def make_stamps(rng, kind, nmax):
    """returns t1, t2, max_diff, offset, exact"""
    exact = False
    n1 = int(rng.integers(1, nmax + 1))
    order = rng.integers(3)  # 0: first shorter, 1: second shorter, 2: equal
    if kind == "single":
        n1 = 1
    n2 = n1 if order == 2 else int(rng.integers(1, nmax + 1))
    if order == 0 and n1 > n2:
        n1, n2 = n2, n1
    if order == 1 and n1 < n2:
        n1, n2 = n2, n1
    if kind in ("dyadic", "dyadic_contested"):
        exact = True
        q = 1024.0
        base = float(rng.integers(0, 2**20))
        s1 = rng.integers(1, 40, size=n1)
        t1 = base + np.cumsum(s1) / q
        if kind == "dyadic":
            s2 = rng.integers(1, 40, size=n2)
            t2 = base + np.cumsum(s2) / q + float(rng.integers(-20, 20)) / q
        else:
            # second trajectory is sparse: several stamps of t1 share a nearest counterpart
            t2 = base + np.cumsum(rng.integers(30, 200, size=n2)) / q
        offset = float(rng.integers(-64, 65)) / q if rng.random() < .7 else 0.0
        md_choices = [0.0, float(rng.integers(1, 30)) / q, float(rng.integers(30, 400)) / q]
        max_diff = md_choices[rng.integers(3)]
        t2 = t2 - offset if rng.random() < .5 else t2
        return t1, np.asarray(t2, dtype=float), max_diff, offset, exact
    t0 = 1.5e9 + rng.uniform(0, 1e6) if kind == "epoch" or rng.random() < .3 else rng.uniform(0, 1000)
    dt1 = 10.0**rng.uniform(-3, 0)
    t1 = t0 + np.cumsum(rng.uniform(0.5, 1.5, size=n1) * dt1)
    if kind == "same_rate" or kind == "epoch" or kind == "single":
        t2 = t0 + np.cumsum(rng.uniform(0.5, 1.5, size=n2) * dt1) + rng.normal() * dt1
    elif kind == "diff_rate":
        t2 = t0 + np.cumsum(rng.uniform(0.5, 1.5, size=n2) * dt1 * 10.0**rng.uniform(-1, 1))
    elif kind == "jitter":
        k = np.sort(rng.choice(max(n1, n2) * 2, size=n2, replace=False))
        t2 = t0 + (k + 1) * dt1 * 0.5 + rng.normal(size=n2) * dt1 * 0.05
        t2 = np.sort(t2)
    elif kind == "gaps":
        steps = np.where(rng.random(n2) < .1, rng.uniform(20, 100, size=n2), rng.uniform(0.5, 1.5, size=n2))
        t2 = t0 + np.cumsum(steps * dt1)
    elif kind == "disjoint":
        t2 = t1[-1] + 10.0 * dt1 + np.cumsum(rng.uniform(0.5, 1.5, size=n2) * dt1)
    elif kind == "contested":
        # t1 locally denser than t2: many t1 stamps share the same nearest t2 stamp
        t2 = t0 + np.cumsum(rng.uniform(5, 30, size=n2) * dt1)
    else:
        raise KeyError(kind)
    t2 = np.asarray(t2, dtype=float)
    # strictly increasing guard
    for t in (t1, t2):
        for k in range(1, len(t)):
            if t[k] <= t[k - 1]:
                t[k] = np.nextafter(t[k - 1], np.inf)
    offset = 0.0 if rng.random() < .3 else float(rng.normal() * dt1 * 10.0**rng.uniform(-1, 2))
    t2 = t2 - offset if rng.random() < .6 else t2
    u = rng.random()
    if u < .15:
        max_diff = 0.0
    elif u < .35 and len(t1) and len(t2):
        # exact hit: max_diff equals the float distance of some pair as evo computes it
        i = rng.integers(len(t1))
        j = int(np.argmin(np.abs((t2 + offset) - t1[i])))
        max_diff = float(abs((t2[j] + offset) - t1[i]))
    else:
        max_diff = dt1 * 10.0**rng.uniform(-3, 1)
    return t1, t2, float(max_diff), float(offset), exact


def payload(rng, t):
    n = len(t)
    k = np.arange(n, dtype=float)
    p = np.stack([k + 0.25, 2 * k + rng.random(), -3 * k + rng.random()], axis=1) * rng.uniform(0.5, 2)
    R = np.array([gen.rand_rot(rng) for _ in range(n)])
    return {"p": p, "R": R, "t": np.array(t, dtype=float)}


def k_assoc(run, case):
    from evo.core import sync
    from evo.core.sync import SyncException
    rng = run.rng(case)
    kind = case.get("stamps") or STAMP_KINDS[rng.integers(len(STAMP_KINDS))]
    nmax = {"quick": 120, "thorough": 600}[run.tier]
    if case.get("big"):
        nmax = 5000
    if "t1" in case:
        t1, t2 = np.array(case["t1"], float), np.array(case["t2"], float)
        max_diff, offset, exact = float(case["max_diff"]), float(case["offset"]), bool(case.get("exact"))
    else:
        t1, t2, max_diff, offset, exact = make_stamps(rng, kind, nmax)
    same_object = "t1" not in case and rng.random() < .05
    if same_object:
        t2 = t1  # a trajectory associated with itself (e.g. to look at a time lag)
    a1, a2 = payload(rng, t1), payload(rng, t2)
    m1 = "se3" if rng.random() < .5 else "xyzq"
    m2 = "se3" if rng.random() < .5 else "xyzq"
    f1, f2 = gen.rand_flavour(rng), gen.rand_flavour(rng)
    if same_object:
        a2, m2, f2 = a1, m1, f1
    tr1, tr2 = gen.make_evo(a1, m1, meta={"id": 1}, flavour=f1), gen.make_evo(a2, m2, meta={"id": 2}, flavour=f2)
    if same_object:
        tr2 = tr1
    linked = None
    if rng.random() < .1:
        # book-keeping of an evaluation script in the metadata: the estimate knows its reference and
        # the reference its estimates (a reference cycle), or an object refers to itself
        linked = ["mutual", "self", "one-way"][rng.integers(3)]
        if linked == "mutual":
            tr2.meta["reference"] = tr1
            tr1.meta["estimates"] = [tr2]
        elif linked == "self":
            tr1.meta["self"] = tr1
        else:
            tr2.meta["reference"] = tr1
    gen.age(rng, tr1), gen.age(rng, tr2)
    if rng.random() < .3:
        tr1.poses_se3, tr1.positions_xyz, tr1.orientations_quat_wxyz
    exp1, exp2 = gen.read_views(gen.make_evo(a1, m1, flavour=f1)), gen.read_views(gen.make_evo(a2, m2, flavour=f2))
    s1, s2 = contracts.field_snapshot(tr1), contracts.field_snapshot(tr2)
    use_default_offset = offset == 0.0 and rng.random() < .5
    # optional display names (the command line tools pass file / topic names, any characters)
    names = {}
    if rng.random() < .3:
        names = {"first_name": ["gt 100%.tum", "ref", "/topic_%d"][rng.integers(3)],
                 "snd_name": ["est_%d (v2).txt", "%s", "é{0}"][rng.integers(3)]}
    with gen.logging_state(rng) as log_state:
        if use_default_offset:
            out = contracts.outcome_of(sync.associate_trajectories, tr1, tr2, gen.spell_float(rng, max_diff), **names)
        else:
            out = contracts.outcome_of(sync.associate_trajectories, tr1, tr2, gen.spell_float(rng, max_diff),
                                       gen.spell_float(rng, offset), **names)
    order = "first shorter" if len(t1) < len(t2) else "second shorter" if len(t1) > len(t2) else "equal"
    sign = "offset>0" if offset > 0 else "offset<0" if offset < 0 else "offset=0"
    run.seen(case, core.digest(t1, t2, max_diff, offset), cls=["stamps:" + kind, order + ", " + sign, "evo logger " + log_state,
                                                            "max_diff=0" if max_diff == 0 else "max_diff>0"],
             sample={"stamps": kind, "n1": len(t1), "n2": len(t2), "max_diff": max_diff,
                     "offset": offset, "outcome": out[0], "t1_head": t1[:4], "t2_head": t2[:4]})
    bad = contracts.snapshot_diff(s1, contracts.field_snapshot(tr1)) + \
        contracts.snapshot_diff(s2, contracts.field_snapshot(tr2))
    run.check(not bad, "inputs unmodified", case, "association modified its inputs: %s" % bad,
              key="assoc:inputs-modified")
    if out[0] == "exc":
        contracts.association_oracle(run, case, t1, t2, max_diff, offset, None,
                                     type(out[1]).__name__, exact)
        return
    o1, o2 = out[1]
    v1, v2 = gen.read_views(o1), gen.read_views(o2)
    if not run.check(len(v1["t"]) == len(v2["t"]) == len(v1["p"]) == len(v2["p"]),
                     "outputs equally long", case, "outputs have %d and %d poses" %
                     (len(v1["t"]), len(v2["t"])), key="assoc:unequal-length"):
        return
    run.check(o1 is not tr1 and o2 is not tr2 and o1.meta.get("id") == 1 and o2.meta.get("id") == (1 if same_object else 2),
              "outputs correspond to inputs in argument order", case,
              "first/second output do not derive from the first/second input",
              key="assoc:swapped-outputs")
    # map back to input indices through the stamps and compare bit for bit in all views
    pairs = []
    copies_ok = True
    for k in range(len(v1["t"])):
        i = int(np.searchsorted(t1, v1["t"][k]))
        j = int(np.searchsorted(t2, v2["t"][k]))
        if i >= len(t1) or t1[i] != v1["t"][k] or j >= len(t2) or t2[j] != v2["t"][k]:
            copies_ok = False
            run.check(False, "output stamps are input stamps", case,
                      "output pose %d carries a timestamp that is not an unmodified input "
                      "timestamp (%r / %r)" % (k, v1["t"][k], v2["t"][k]),
                      key="assoc:stamp-modified")
            break
        pairs.append((i, j))
        for v, e, idx, name in ((v1, exp1, i, "first"), (v2, exp2, j, "second")):
            same = core.bits_equal(v["p"][k], e["p"][idx]) and core.bits_equal(v["T"][k], e["T"][idx]) \
                and core.bits_equal(v["q"][k], e["q"][idx])
            run.counters["output pose is an unmodified copy (pose+stamp together)"] += 1
            if not same:
                copies_ok = False
                run.violation("assoc:pose-not-copy", "output pose %d of the %s trajectory is not a "
                              "bit-identical copy of the input pose with the same timestamp" %
                              (k, name), case)
                break
        if not copies_ok:
            break
    if copies_ok:
        contracts.association_oracle(run, case, t1, t2, max_diff, offset, pairs, None, exact)


def k_indices(run, case):
    """the same model on sync.matching_time_indices (first argument drives)"""
    from evo.core import sync
    rng = run.rng(case)
    kind = STAMP_KINDS[rng.integers(len(STAMP_KINDS))]
    t1, t2, max_diff, offset, exact = make_stamps(rng, kind, {"quick": 120, "thorough": 600}[run.tier])
    if rng.random() < .4:
        # column views of a 2-D matrix, which is what the file readers hand over
        m1 = np.column_stack([t1, t1 * 0 + 1.0])
        m2 = np.column_stack([t2, t2 * 0 + 2.0])
        t1, t2 = m1[:, 0], m2[:, 0]
    b1, b2 = t1.copy(), t2.copy()
    out = contracts.outcome_of(sync.matching_time_indices, t1, t2, max_diff, offset)
    run.seen(case, core.digest(t1, t2, max_diff, offset, "idx"), cls=["indices:" + kind],
             sample={"n1": len(t1), "n2": len(t2), "max_diff": max_diff, "offset": offset})
    run.check(core.bits_equal(b1, t1) and core.bits_equal(b2, t2), "inputs unmodified", case,
              "matching_time_indices modified its stamp arrays", key="assoc:inputs-modified")
    if not run.check(out[0] == "ok", "matching_time_indices returns", case, "raised %r" % (out[1], )):
        return
    m1, m2 = out[1]
    if not run.check(len(m1) == len(m2), "index lists equally long", case, "lists differ in length"):
        return
    pairs = list(zip([int(a) for a in m1], [int(b) for b in m2]))
    if not pairs:
        run.hit("indices: empty result")
        # an empty list is legitimate here only if nothing is clearly in range
        contracts.association_oracle(run, case, t1, t2, max_diff, offset, None, "SyncException",
                                     exact, pfx="indices")
        return
    # matching_time_indices always drives from its first argument: emulate 'first shorter'
    _drive_first(run, case, t1, t2, max_diff, offset, pairs, exact)


def _drive_first(run, case, t1, t2, max_diff, offset, pairs, exact):
    # pad the second vector conceptually: the oracle picks the driver by length, so when
    # len(t1) >= len(t2) we check the driver-specific clauses by swapping roles explicitly
    if len(t1) < len(t2):
        contracts.association_oracle(run, case, t1, t2, max_diff, offset, pairs, None, exact,
                                     pfx="indices")
    else:
        # extend t2 with far-away stamps so that t1 is the shorter one without changing nearest
        far = max(float(t1[-1]), float(t2[-1]) + offset) + 1e6 + abs(max_diff) * 10
        k = len(t1) - len(t2) + 1
        t2x = np.concatenate([t2, far + np.arange(1, k + 1) * 1e3 - offset])
        contracts.association_oracle(run, case, t1, t2x, max_diff, offset, pairs, None, exact,
                                     pfx="indices")


def k_cli(run, case):
    """
    Association end to end: evo_ape / evo_rpe with time offsets, --t_max_diff (incl. 0) and time
    cropping - the pose pairs that reach the metric must be the documented association of the
    (cropped) reference with the offset-corrected estimate (C01's / C02's executor and reference
    pipeline, which associates with the exact-rational model of this check).
    """
    if case.get("tool") == "traj":
        # evo_traj --ref ... --sync / --align: trajectories of different density and extent than the reference
        from vmon.props import C15
        C15.k_cli(run, case)
        run.hit("evo_traj runs with synchronisation to a reference judged")
        return
    from vmon.props import C01, C02
    rec = (C01.k_cli if case.get("tool", "ape") == "ape" else C02.k_cli)(run, case)
    run.hit("evo_ape / evo_rpe runs with time offsets and cropping judged" if rec else "run refused / ambiguous (not judged)")


from vmon import threads as _threads
k_threads = _threads.k_evaluation('associate', 'time association', 'threads:association-not-reentrant')


KINDS = {"threads": k_threads, "assoc": k_assoc, "indices": k_indices, "cli": k_cli}

CORPUS = [
    # contested nearest counterpart (design finding F2)
    {"t1": [0.0, 0.001, 0.002], "t2": [0.001, 10.0, 20.0, 30.0], "max_diff": 0.01, "offset": 0.0},
    {"t1": [0.001, 10.0, 20.0, 30.0], "t2": [0.0, 0.001, 0.002], "max_diff": 0.01, "offset": 0.0},
    # boundary hit exactly (dyadic)
    {"t1": [1.0, 2.0, 3.0], "t2": [1.25, 2.5, 3.125, 9.0], "max_diff": 0.25, "offset": 0.0, "exact": True},
    {"t1": [1.0, 2.0, 3.0], "t2": [1.25, 2.5, 3.125, 9.0], "max_diff": 0.125, "offset": 0.0, "exact": True},
    # offsets of both signs in both orderings and equal lengths
    {"t1": [10.0, 11.0, 12.0], "t2": [5.0, 6.0, 7.0, 8.0], "max_diff": 0.0, "offset": 5.0, "exact": True},
    {"t1": [5.0, 6.0, 7.0, 8.0], "t2": [10.0, 11.0, 12.0], "max_diff": 0.0, "offset": -5.0, "exact": True},
    {"t1": [5.0, 6.0, 7.0], "t2": [10.0, 11.0, 12.0], "max_diff": 0.0, "offset": -5.0, "exact": True},
    {"t1": [10.0, 11.0, 12.0], "t2": [5.0, 6.0, 7.0], "max_diff": 0.0, "offset": 5.0, "exact": True},
    {"t1": [10.0, 11.0, 12.0], "t2": [5.0, 6.0, 7.0], "max_diff": 0.5, "offset": -5.0, "exact": True},
    {"t1": [1.0], "t2": [1.0], "max_diff": 0.0, "offset": 0.0, "exact": True},
    {"t1": [1.0], "t2": [2.0], "max_diff": 0.5, "offset": 0.0, "exact": True},
]


def main(run):
    n = {"quick": 2200, "thorough": 50000}[run.tier]
    for i in run.mine(len(CORPUS)):
        k_assoc(run, run.case("assoc", 10**6 + i, **CORPUS[i]))
    for i in run.mine(n):
        k_assoc(run, run.case("assoc", i))
    for i in run.mine({"quick": 12, "thorough": 200}[run.tier]):
        k_threads(run, run.case("threads", i))
    for i in run.mine(n // 3):
        k_indices(run, run.case("indices", i))
    if run.tier == "thorough":
        for i in run.mine(64):
            k_assoc(run, run.case("assoc", 2 * 10**6 + i, big=True))
    for i in run.mine({"quick": 100, "thorough": 2500}[run.tier]):
        k_cli(run, run.case("cli", i, tool=["ape", "rpe"][i % 2], fmt=["tum", "euroc"][(i // 2) % 2],
                            force_options=["crop"] if i % 2 else ["tmax_boundary"]))
    for i in run.mine({"quick": 80, "thorough": 2000}[run.tier]):
        k_cli(run, run.case("cli", 10**6 + i, tool="traj", fmt=["tum", "euroc"][i % 2],
                            force={"use_ref": True, "sync": True, "merge": i % 3 == 0, "downsample": False, "motion_filter": False}))
    run.need("concurrent rounds: time association", "evo_traj runs with synchronisation to a reference judged", "evo_ape / evo_rpe runs with time offsets and cropping judged", "assoc: pair within max_diff", "assoc: paired with a nearest counterpart",
             "assoc: every uncontested in-range pose is paired",
             "assoc: increasing order, no pose used twice", "inputs unmodified",
             "output pose is an unmodified copy (pose+stamp together)",
             "assoc: refusals observed", "assoc: no SyncException when a match exists",
             "assoc: boundary pairs with difference == max_diff (exactly)",
             "indices: paired with a nearest counterpart")
