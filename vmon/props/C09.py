"""
C09 - Lie-group helpers satisfy the group laws on all of SO(3), SE(3) and Sim(3).
Algebraic-law monitors on the real helpers of evo.core.lie_algebra, driven by near-0 / near-pi /
large-magnitude generators.  All products in the oracles are plain numpy matmuls.
"""
import math
import warnings

import numpy as np

from vmon import core, gen, contracts
from vmon import refmodel as rm

ANCHORS = ['evo/core/lie_algebra.py']
LEVEL = "exploration"
SHARDS = {"quick": 4, "thorough": 16}
RULE = ("cases drawn from seeded generators per law family (explog, hatvee, se3, sim3, metric, "
        "member); distinct = content digest of the generated matrices/vectors; non-trivial = "
        "not the identity rotation with zero translation")
ASSUMPTIONS = ["numpy matmul / det / eigh are correct", "tolerance 1e-9 (observed noise <= 5e-15)"]
PI = math.pi
TOL = 1e-9


class _Layouts:
    """evo.core.lie_algebra with every 2-D array argument handed over in a random memory layout
    (C / Fortran order, transposed view, strided window, read-only) - same values"""

    def __init__(self, mod, case):
        self._mod = mod
        self._rng = np.random.default_rng(list(case["rs"]) + [55]) if case is not None and "rs" in case else None

    def __getattr__(self, name):
        f = getattr(self._mod, name)
        if not callable(f) or self._rng is None:
            return f

        def call(*a, **kw):
            a = [gen.relayout(self._rng, x) if isinstance(x, np.ndarray) and x.ndim == 2 and x.dtype == np.float64 else x
                 for x in a]
            out = f(*a, **kw)
            if isinstance(out, np.ndarray):
                _RETURNED.append(out)
            return out
        return call


_RETURNED = []


def lie(case=None):
    """
    Every array a lie-algebra function returned during the previous case is now dead: it is
    overwritten (what callers do when they go on computing in place with a returned matrix).
    A function that hands out a shared object (module-level constant, cached result) instead of
    a fresh array shows up in the cases that follow.
    """
    from evo.core import lie_algebra
    for arr in _RETURNED:
        if arr.flags.writeable:
            arr[...] = np.nan
    del _RETURNED[:]
    return _Layouts(lie_algebra, case)


def _angle_class(th):
    if th == 0:
        return "angle=0"
    if th < 1e-6:
        return "angle<1e-6"
    if th < 1e-3:
        return "angle<1e-3"
    if th > PI - 1e-6:
        return "angle>pi-1e-6"
    if th > PI - 1e-3:
        return "angle>pi-1e-3"
    return "angle generic"


def k_explog(run, case):
    L = lie(case)
    rng = run.rng(case)
    cls = case.get("cls") or gen.ROT_CLASSES[rng.integers(len(gen.ROT_CLASSES))]
    if "theta" in case:
        axis = gen.rand_axis(rng) if case.get("axis") is None else np.array(case["axis"], float)
        R = rm.rodrigues(axis, case["theta"])
    else:
        R = gen.rot_of_class(rng, cls)
    th = rm.rot_angle(R)
    if rng.random() < .3:
        R = rm.se3(R, rng.normal(size=3))[:3, :3]  # a view into a pose matrix, as evo's callers pass it
    run.seen(case, core.digest(R), nontrivial=th > 0, cls=["explog:" + _angle_class(th)],
             sample={"R": R, "angle": th})
    v = L.so3_log(R)
    R2 = L.so3_exp(v)
    err = float(np.max(np.abs(R2 - R)))
    run.note_max("max_err_exp_log", err)
    run.check(err <= TOL, "exp(log(R))==R", case, "exp(log(R)) differs from R by %g" % err, R=R,
              log=v)
    nv = float(np.linalg.norm(v))
    run.check(nv <= PI + 1e-12, "|log(R)|<=pi", case, "|log R| = %r > pi" % nv, R=R)
    run.check(abs(nv - th) <= TOL, "|log(R)|==angle", case,
              "|log R|=%r but geodesic angle=%r" % (nv, th), R=R)
    sk = L.so3_log(R, return_skew=True)
    run.check(np.array_equal(L.vee(sk), v) and np.array_equal(sk, -sk.T), "log skew==hat(log)",
              case, "skew-symmetric log disagrees with rotation-vector log", R=R)
    ang = L.so3_log_angle(R)
    run.check(0.0 <= ang <= PI + 1e-12 and abs(ang - th) <= TOL, "so3_log_angle in [0,pi]", case,
              "so3_log_angle=%r vs %r" % (ang, th), R=R)
    angd = L.so3_log_angle(R, degrees=True)
    run.check(abs(angd - th * 180 / PI) <= 1e-7, "so3_log_angle degrees", case,
              "degrees %r vs %r" % (angd, th * 180 / PI), R=R)
    # log(exp(v)) == v for |v| < pi
    if "theta" in case:
        vv = axis / np.linalg.norm(axis) * case["theta"]
    else:
        tt = gen.HOSTILE_ANGLES[rng.integers(len(gen.HOSTILE_ANGLES))] if rng.random() < .5 \
            else rng.uniform(0, PI)
        vv = gen.rand_axis(rng) * tt
    nvv = float(np.linalg.norm(vv))
    Rv = L.so3_exp(vv)
    run.check(rm.rot_defect(Rv) <= TOL, "exp(v) in SO(3)", case,
              "so3_exp returned a matrix %g away from SO(3)" % rm.rot_defect(Rv), v=vv)
    err = float(np.max(np.abs(Rv - rm.rodrigues(vv, nvv)))) if nvv > 0 else \
        float(np.max(np.abs(Rv - np.eye(3))))
    run.check(err <= TOL, "exp(v)==Rodrigues", case, "so3_exp differs from Rodrigues by %g" % err,
              v=vv)
    back = L.so3_log(Rv)
    if nvv <= PI - 1e-6:
        e = float(np.max(np.abs(back - vv)))
        run.note_max("max_err_log_exp", e)
        run.check(e <= TOL, "log(exp(v))==v", case, "log(exp(v)) differs from v by %g" % e, v=vv,
                  back=back)
    else:
        # antipodal representative accepted near/at pi: compare through exp, bound the norm
        e = float(np.max(np.abs(L.so3_exp(back) - Rv)))
        run.check(e <= TOL and np.linalg.norm(back) <= PI + 1e-12, "log(exp(v))~v at pi", case,
                  "log(exp(v)) is not a logarithm of exp(v) (err %g)" % e, v=vv, back=back)


def k_hatvee(run, case):
    L = lie(case)
    rng = run.rng(case)
    v = rng.normal(size=3) * 10.0**rng.uniform(-12, 9)
    mixed = bool(rng.random() < .3)
    if mixed:
        # components of very different magnitudes (a rotation about an almost principal axis, a
        # residual next to a large component), zeros, subnormal numbers
        v = v * 10.0**rng.uniform(-25, 0, size=3)
        if rng.random() < .3:
            v[int(rng.integers(3))] = [0.0, -0.0, 5e-324][rng.integers(3)]
    w = rng.normal(size=3)
    run.seen(case, core.digest(v), cls=["hatvee"] + (["hatvee: mixed magnitudes"] if mixed else []), sample={"v": v})
    H = L.hat(v)
    run.check(np.array_equal(H, -H.T) and np.all(np.diag(H) == 0), "hat skew", case,
              "hat(v) is not skew symmetric", v=v)
    run.check(np.array_equal(L.vee(H), v), "vee(hat(v))==v", case, "vee(hat(v)) != v", v=v)
    c = np.array([v[1] * w[2] - v[2] * w[1], v[2] * w[0] - v[0] * w[2], v[0] * w[1] - v[1] * w[0]])
    # (a component of the cross product may cancel: rounding is relative to |v| |w|, not to the component)
    run.check(np.allclose(H @ w, c, rtol=1e-12, atol=1e-15 * float(np.linalg.norm(v)) * float(np.linalg.norm(w))), "hat(v)w==v x w", case,
              "hat(v) w differs from the cross product", v=v, w=w)
    M = rm.hat(rng.normal(size=3) * 10.0**rng.uniform(-6, 6) * (10.0**rng.uniform(-25, 0, size=3) if mixed else 1.0))
    run.check(np.array_equal(L.hat(L.vee(M)), M), "hat(vee(M))==M", case, "hat(vee(M)) != M", M=M)


def _mag_class(t):
    n = float(np.linalg.norm(t))
    if n == 0:
        return "t=0"
    return "t~1e%+d" % int(math.floor(math.log10(n)))


def k_se3(run, case):
    L = lie(case)
    rng = run.rng(case)
    cls = gen.ROT_CLASSES[rng.integers(len(gen.ROT_CLASSES))]
    Ra, Rb = gen.rot_of_class(rng, cls), gen.rand_rot(rng)
    ta = rng.normal(size=3) * 10.0**rng.uniform(-6, 9)
    tb = rng.normal(size=3) * 10.0**rng.uniform(-6, 9)
    A, B = L.se3(Ra, ta), L.se3(Rb, tb)
    spelled = None
    if rng.random() < .2:
        # the same numbers in the containers callers have them in: extended precision (kept that
        # way for map coordinates), plain sequences, a 3 x 1 column is not documented and left out
        spelled = ["t:longdouble", "r:longdouble", "t:list", "t:tuple", "r,t:longdouble"][rng.integers(5)]
        r_arg = Ra.astype(np.longdouble) if spelled.startswith("r") else Ra
        t_arg = ta.astype(np.longdouble) if "longdouble" in spelled and "t" in spelled.split(":")[0] else \
            ta.tolist() if spelled == "t:list" else tuple(ta.tolist()) if spelled == "t:tuple" else ta
        A = L.se3(r_arg, t_arg)
        run.check(bool(L.is_se3(A)), "se3 built from other containers is accepted as a group element", case,
                  "se3(%s) gives dtype %s, is_se3 False" % (spelled, np.asarray(A).dtype), key="se3:constructor-container")
    int_a = bool(rng.random() < .15)
    if int_a:
        # a hand-written axis-aligned pose with integer entries (as in evo's own tests), mixed with a float pose
        Ra = gen.rot_of_class(rng, "quarter_turns")
        Ra = np.round(Ra)
        ta = rng.integers(-50, 50, size=3).astype(float)
        A = np.round(rm.se3(Ra, ta)).astype(np.int64)
    run.seen(case, core.digest(A, B), cls=["se3:" + _mag_class(ta)] + (["se3: integer-dtype pose mixed with float pose"] if int_a else []),
             sample={"A": A})
    run.check(int_a or np.array_equal(A, rm.se3(Ra, ta)) and np.array_equal(L.so3_from_se3(A), Ra),
              "se3 constructor", case, "se3(r,t) does not place r,t in the right blocks", A=A)
    Ai = L.se3_inverse(A)
    tolA = TOL * (1 + float(np.linalg.norm(ta)))
    for name, P in (("P*inv(P)", A @ Ai), ("inv(P)*P", Ai @ A)):
        e = float(np.max(np.abs(P - np.eye(4))))
        run.check(e <= tolA, name + "==I", case, "%s differs from I by %g" % (name, e), A=A)
    run.check(np.array_equal(Ai[3], [0, 0, 0, 1]), "inverse bottom row", case,
              "inverse has wrong bottom row", A=A)
    rel = L.relative_se3(A, B)
    own = rm.se3_inv(np.asarray(A, dtype=float)) @ B
    tol = TOL * (1 + float(np.linalg.norm(ta)) + float(np.linalg.norm(tb)))
    e = float(np.max(np.abs(rel - own)))
    run.note_max("max_err_relative_se3_over_scale", e / (tol / TOL))
    run.check(e <= tol, "rel(A,B)==inv(A)B", case, "relative_se3 differs from A^-1 B by %g" % e,
              A=A, B=B)
    e = float(np.max(np.abs(L.relative_se3(A, A) - np.eye(4))))
    run.check(e <= tolA, "rel(A,A)==I", case, "relative_se3(A,A) differs from I by %g" % e, A=A)
    e = float(np.max(np.abs(L.relative_so3(Ra, Rb) - Ra.T @ Rb)))
    run.check(e <= TOL, "rel_so3(A,B)==A^T B", case, "relative_so3 wrong by %g" % e)


def k_sim3(run, case):
    L = lie(case)
    rng = run.rng(case)
    R = gen.rot_of_class(rng, gen.ROT_CLASSES[rng.integers(len(gen.ROT_CLASSES))])
    t = rng.normal(size=3) * 10.0**rng.uniform(-6, 9)
    s = 10.0**rng.uniform(-4, 4)
    if rng.random() < .3:
        # scales close to (but different from) 1: no tolerance-based SE(3) shortcut may apply
        s = 1.0 + (1 if rng.random() < .5 else -1) * 10.0**rng.uniform(-9, -3)
    S = L.sim3(R, t, s)
    run.seen(case, core.digest(S), cls=["sim3:s~1e%+d" % int(math.floor(math.log10(s))) if abs(s - 1) > 1e-2 else
                                        "sim3:|s-1|~1e%+d" % int(math.floor(math.log10(abs(s - 1))))],
             sample={"S": S, "s": s})
    run.check(np.array_equal(S[:3, :3], s * R) and np.array_equal(S[:3, 3], t)
              and np.array_equal(S[3], [0, 0, 0, 1]), "sim3 constructor", case,
              "sim3(r,t,s) is not [[sR,t],[0,1]]", S=S)
    s2 = L.sim3_scale(S)
    run.check(abs(s2 - s) <= 1e-9 * s, "sim3 scale recovered", case,
              "sim3_scale=%r expected %r" % (s2, s), S=S)
    Si = L.sim3_inverse(S)
    tol = TOL * (1 + float(np.linalg.norm(t)) * max(1.0, 1 / s))
    for name, P in (("S*inv(S)", S @ Si), ("inv(S)*S", Si @ S)):
        P = P.copy()
        # translation entries are in the units of the left factor
        e_rot = float(np.max(np.abs(P[:3, :3] - np.eye(3))))
        e_t = float(np.max(np.abs(P[:3, 3])))
        tt = TOL * (1 + float(np.linalg.norm(t))) if name == "S*inv(S)" else \
            TOL * (1 + float(np.linalg.norm(t)) / s)
        run.check(e_rot <= TOL and e_t <= tt and np.array_equal(P[3], [0, 0, 0, 1]),
                  name + "==I", case, "%s differs from I (rot %g, trans %g)" % (name, e_rot, e_t),
                  S=S)
    run.check(abs(L.sim3_scale(Si) * s - 1) <= 1e-9, "inverse scale == 1/s", case,
              "scale of the inverse is not 1/s", S=S)
    run.check(bool(L.is_sim3(S)) and bool(L.is_sim3(S, s)), "is_sim3 accepts genuine", case,
              "is_sim3 rejected a genuine Sim(3) element", S=S)
    run.check(bool(L.is_sim3(Si)), "is_sim3 accepts inverse", case,
              "is_sim3 rejected the inverse of a Sim(3) element", S=S)
    d = 10.0**rng.uniform(-3, 0)
    wrong = s * (1 + d) if rng.random() < .5 else s / (1 + d)
    run.check(not L.is_sim3(S, wrong), "is_sim3 rejects wrong expected scale", case,
              "is_sim3(S, s_wrong) accepted although scale is off by %g" % d, S=S, wrong=wrong)


def k_metric(run, case):
    L = lie(case)
    rng = run.rng(case)

    def d(A, B):
        return L.so3_log_angle(L.relative_so3(A, B))

    A = gen.rand_rot(rng)
    cls = gen.ROT_CLASSES[rng.integers(len(gen.ROT_CLASSES))]
    B = A @ gen.rot_of_class(rng, cls)
    C = gen.rot_of_class(rng, gen.ROT_CLASSES[rng.integers(len(gen.ROT_CLASSES))]) @ B \
        if rng.random() < .5 else gen.rand_rot(rng)
    G = gen.rand_rot(rng)
    truth = rm.rot_angle(A.T @ B)
    run.seen(case, core.digest(A, B, C), nontrivial=truth > 0,
             cls=["metric:" + _angle_class(truth)], sample={"angle": truth})
    dab, dba, dbc, dac = d(A, B), d(B, A), d(B, C), d(A, C)
    run.check(0 <= dab <= PI + 1e-12, "d in [0,pi]", case, "angle %r outside [0,pi]" % dab)
    run.check(abs(dab - truth) <= TOL, "d == geodesic angle", case,
              "angle %r but geodesic angle is %r" % (dab, truth), A=A, B=B)
    run.check(abs(dab - dba) <= TOL, "d symmetric", case, "d(A,B)=%r d(B,A)=%r" % (dab, dba),
              A=A, B=B)
    run.check(d(A, A) <= TOL, "d(A,A)==0", case, "d(A,A)=%r" % d(A, A), A=A)
    if truth >= 1e-6:
        run.check(dab > 0, "d>0 for different rotations", case,
                  "angle 0 for rotations %g apart" % truth, A=A, B=B)
    run.check(dac <= dab + dbc + TOL, "triangle inequality", case,
              "d(A,C)=%r > d(A,B)+d(B,C)=%r" % (dac, dab + dbc), A=A, B=B, C=C)
    run.check(abs(d(G @ A, G @ B) - dab) <= TOL, "left invariance", case,
              "d(GA,GB)=%r != d(A,B)=%r" % (d(G @ A, G @ B), dab), A=A, B=B, G=G)
    run.check(abs(d(A @ G, B @ G) - dab) <= TOL, "right invariance", case,
              "d(AG,BG)=%r != d(A,B)=%r" % (d(A @ G, B @ G), dab), A=A, B=B, G=G)


def _givens_product(rng):
    """rotation built as a product of exact-ish Givens rotations (rounding noise << 1e-12)"""
    R = np.eye(3)
    for _ in range(rng.integers(1, 5)):
        i, j = rng.choice(3, size=2, replace=False)
        th = rng.uniform(-PI, PI)
        G = np.eye(3)
        G[i, i] = G[j, j] = math.cos(th)
        G[i, j] = -math.sin(th)
        G[j, i] = math.sin(th)
        R = R @ G
    return R


def k_member(run, case):
    L = lie(case)
    rng = run.rng(case)
    R = _givens_product(rng) if rng.random() < .7 else \
        gen.rot_of_class(rng, gen.ROT_CLASSES[rng.integers(len(gen.ROT_CLASSES))])
    t = rng.normal(size=3) * 10.0**rng.uniform(-6, 9)
    P = rm.se3(R, t)
    d = 10.0**rng.uniform(-3, 0)
    run.seen(case, core.digest(P, d), cls="member", sample={"P": P, "near_miss_distance": d})
    run.check(bool(L.is_so3(R)), "is_so3 accepts genuine", case, "is_so3 rejected a rotation", R=R)
    run.check(bool(L.is_se3(P)), "is_se3 accepts genuine", case, "is_se3 rejected a pose", P=P)
    run.check(bool(L.is_sim3(P)), "is_sim3 accepts SE(3)", case, "is_sim3 rejected an SE(3) pose",
              P=P)
    with warnings.catch_warnings():
        warnings.simplefilter("ignore")
        # reflections
        F = R @ np.diag([1.0, 1.0, -1.0]) if rng.random() < .5 else -R
        run.check(not L.is_so3(F), "is_so3 rejects reflection", case, "is_so3 accepted a reflection",
                  F=F)
        run.check(not L.is_se3(rm.se3(F, t)), "is_se3 rejects reflection", case,
                  "is_se3 accepted a reflection", F=F)
        run.check(not L.is_sim3(rm.se3(F, t)), "is_sim3 rejects reflection", case,
                  "is_sim3 accepted a reflection", F=F)
        # scaled rotation block
        sc = (1 + d) if rng.random() < .5 else 1 / (1 + d)
        run.check(not L.is_so3(sc * R), "is_so3 rejects scaled", case,
                  "is_so3 accepted a rotation scaled by %r" % sc, R=R)
        run.check(not L.is_se3(rm.se3(sc * R, t)), "is_se3 rejects scaled", case,
                  "is_se3 accepted a rotation block scaled by %r" % sc, R=R)
        # sheared block
        Sh = np.eye(3)
        i, j = rng.choice(3, size=2, replace=False)
        Sh[i, j] = d
        # (the skew on either side of the rotation: columns or rows keep unit length)
        RS = R @ Sh if rng.random() < .5 else Sh @ R
        run.check(not L.is_so3(RS), "is_so3 rejects shear", case,
                  "is_so3 accepted a block sheared by %g" % d, R=R)
        run.check(not L.is_se3(rm.se3(RS, t)), "is_se3 rejects shear", case,
                  "is_se3 accepted a sheared block (%g)" % d, R=R)
        run.check(not L.is_sim3(rm.se3(RS, t)), "is_sim3 rejects shear", case,
                  "is_sim3 accepted a sheared block (%g)" % d, R=R)
        # non-uniformly scaled block
        D = np.eye(3)
        D[i, i] = 1 + d
        run.check(not L.is_sim3(rm.se3(R @ D, t)), "is_sim3 rejects anisotropic scale", case,
                  "is_sim3 accepted an anisotropically scaled block (%g)" % d, R=R)
        # collapsed blocks (an axis scaled to exactly zero, two equal columns, all zeros): their
        # determinant is exactly 0 - still an answer (False), not an arithmetic error
        Z = np.eye(3)
        Z[i, i] = 0.0
        C2 = R.copy()
        C2[:, j] = C2[:, i]
        for blk in (R @ Z, Z @ R, C2, np.zeros((3, 3)))[int(rng.integers(4))::4]:
            out = contracts.outcome_of(L.is_sim3, rm.se3(blk, t))
            run.check(out[0] == "ok" and not out[1], "is_sim3 rejects a collapsed block", case,
                      "is_sim3 on a block of determinant 0 %s" %
                      ("raised %r" % (out[1], ) if out[0] == "exc" else "returned True"), blk=blk)
            run.check(not L.is_se3(rm.se3(blk, t)) and not L.is_so3(blk), "is_se3 / is_so3 reject a collapsed block", case,
                      "is_se3 / is_so3 accepted a block of determinant 0", blk=blk)
        # wrong bottom rows: any non-zero perturbation
        Pb = P.copy()
        col = rng.integers(4)
        e = (10.0**rng.uniform(-12, 1)) * (1 if rng.random() < .5 else -1)
        if rng.random() < .5:
            Pb[3, col] += e
        else:
            # several wrong entries at once, also ones that cancel in a sum or a product
            Pb[3, :3] = [[e, -e, 0.0], [e, e, -2 * e], [0.0, e, -e], [-e, 0.0, e], [e, e, e]][rng.integers(5)]
        run.check(not L.is_se3(Pb), "is_se3 rejects bottom row", case,
                  "is_se3 accepted a wrong bottom row", Pb=Pb)
        run.check(not L.is_sim3(Pb), "is_sim3 rejects bottom row", case,
                  "is_sim3 accepted a wrong bottom row", Pb=Pb)


def k_threads(run, case):
    """
    The helpers are pure functions: called from several threads at once (each thread on its own
    matrices) every call returns what it returns when called alone.
    """
    from vmon import threads
    from evo.core import lie_algebra as L  # the functions themselves (no recording proxy in between)
    rng = run.rng(case)
    m = int(rng.integers(30, 100))

    def make_job(seed):
        r = np.random.default_rng(seed)
        Rs = [gen.rand_rot(r) for _ in range(m + 1)]
        Ps = [rm.se3(Rk, r.normal(size=3) * 10.0**r.uniform(-3, 3)) for Rk in Rs]
        Ss = [L.sim3(Rk, r.normal(size=3), float(10.0**r.uniform(-2, 2))) for Rk in Rs[:8]]
        vs = [r.normal(size=3) * r.uniform(0, 1) for _ in range(m)]

        def job():
            out = []
            for i in range(m):
                out.append(L.relative_so3(Rs[i], Rs[i + 1]))
                out.append(L.relative_se3(Ps[i], Ps[i + 1]))
                out.append(L.se3_inverse(Ps[i]))
                out.append(L.so3_log_angle(Rs[i].T @ Rs[i + 1]))
                out.append(L.so3_exp(vs[i]))
                out.append(bool(L.is_so3(Rs[i])) and bool(L.is_se3(Ps[i])))
            for S in Ss:
                out.append(L.sim3_inverse(S))
                out.append(L.sim3_scale(S))
            return out
        return job

    jobs = [make_job(int(rng.integers(2**31))) for _ in range(4)]
    run.seen(case, core.digest("threads", case["rs"]), cls=["concurrent use: 4 threads"], sample={"calls_per_thread": 6 * m})
    threads.check(run, case, jobs, "Lie helpers", "threads:lie-helpers-not-reentrant")


KINDS = {"threads": k_threads, "explog": k_explog, "hatvee": k_hatvee, "se3": k_se3, "sim3": k_sim3,
         "metric": k_metric, "member": k_member}


def main(run):
    n = {"quick": 1500, "thorough": 60000}[run.tier]
    # fixed regression corpus: every hostile angle about coordinate axes and a generic axis
    corpus = []
    for th in gen.HOSTILE_ANGLES + [PI / 2, PI / 4, 1.0, PI - 1e-14, PI - 1e-15, 5e-324, 1e-300]:
        for ax in ([1, 0, 0], [0, 1, 0], [0, 0, 1], [1, 1, 1], [-1, 2, -3], None):
            corpus.append({"theta": th, "axis": ax})
    for i in run.mine(len(corpus)):
        k_explog(run, run.case("explog", 10**6 + i, **corpus[i]))
    for kind in ("explog", "hatvee", "se3", "sim3", "metric", "member"):
        nk = n // 3 if kind == "hatvee" else n
        for i in run.mine(nk):
            KINDS[kind](run, run.case(kind, i))
    for i in run.mine({"quick": 16, "thorough": 300}[run.tier]):
        k_threads(run, run.case("threads", i))
    run.need("concurrent rounds: Lie helpers", "exp(log(R))==R", "log(exp(v))==v", "log(exp(v))~v at pi", "P*inv(P)==I",
             "rel(A,B)==inv(A)B", "S*inv(S)==I", "sim3 scale recovered", "triangle inequality",
             "left invariance", "is_se3 rejects bottom row", "is_so3 rejects reflection",
             "vee(hat(v))==v")
