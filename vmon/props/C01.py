"""
C01 - APE values equal the mathematical definition, pose by pose.
L1: contract on metrics.APE.process_data (definition, order, length, refusal, metamorphic laws).
L3: evo_ape run in-process on generated TUM / KITTI / EuRoC files x option combinations; the
result archive is read back and compared with (i) the definition applied to the processed pair
stored in the archive and (ii) an independent reference pipeline (vmon/pipeline.py) applied to
the independently parsed input files.
"""
import io
import json
import math
import os
import zipfile

import numpy as np

from vmon import core, gen, contracts, cli, pipeline
from vmon import refmodel as rm
from vmon.shadow import ShadowTrajectory

ANCHORS = ['evo/core/metrics.py', 'evo/core/lie_algebra.py', 'evo/main_ape.py', 'evo/common_ape_rpe.py']
LEVEL = "exploration"
SHARDS = {"quick": 8, "thorough": 16}
RULE = ("L1: pairs of pose sequences (positions 1e-3..1e6 incl. UTM offsets, rotations over SO(3) "
        "with relative angles within 1e-16 of 0 / 1e-12 of pi, both storage modes) x 7 relations; "
        "L3: generated file pairs x random combinations of evo_ape options (align, correct_scale, "
        "n_to_align, align_origin, downsample, motion_filter, t_max_diff, t_offset, t_start/t_end, "
        "project_to_plane, change_unit) x {tum, kitti, euroc}; distinct = digest of (inputs, "
        "options); non-trivial = estimate differs from reference / at least one option set")
ASSUMPTIONS = ["zipfile / numpy.load / json read the result archive correctly",
               "cases whose threshold decisions lie within rounding distance (ties, exact-hit "
               "thresholds, near-degenerate alignment) are counted as ambiguous and not judged"]
PI = math.pi
RELS = ["full_transformation", "translation_part", "rotation_part", "rotation_angle_rad",
        "rotation_angle_deg", "point_distance", "point_distance_error_ratio"]
CLI_REL = {"full": "full_transformation", "trans_part": "translation_part",
           "rot_part": "rotation_part", "angle_deg": "rotation_angle_deg",
           "angle_rad": "rotation_angle_rad", "point_distance": "point_distance"}
UNIT_OF = {"translation_part": "m", "point_distance": "m", "rotation_angle_deg": "deg",
           "rotation_angle_rad": "rad", "full_transformation": None, "rotation_part": None}
LEN_F = {"mm": 1e-3, "cm": 1e-2, "m": 1.0, "km": 1e3}


def rotation_defect(*Rsets):
    """largest distance from SO(3) among the given rotation arrays (file data may carry only
    ~7 significant digits: the 'definition' is then only defined up to that defect)"""
    worst = 0.0
    for Rs in Rsets:
        Rs = np.asarray(Rs, dtype=float)
        if len(Rs):
            worst = max(worst, float(np.max(np.abs(np.einsum("nji,njk->nik", Rs, Rs) - np.eye(3)))))
    return worst


def tol_for(relation, p_ref, p_est, defect=0.0):
    mag = 1.0 + float(np.max(np.abs(p_ref))) + float(np.max(np.abs(p_est)))
    if relation in ("rotation_part", "rotation_angle_rad"):
        return 1e-9 + 8 * defect
    if relation == "rotation_angle_deg":
        return 1e-7 + 8 * defect * 57.3
    if relation == "full_transformation":
        return 1e-9 * mag + 8 * defect * mag
    return 1e-9 * mag


# ------------------------------------------------------------------ L1
def k_direct(run, case):
    from evo.core import metrics
    rng = run.rng(case)
    nmax = {"quick": 200, "thorough": 2000}[run.tier]
    n = int(case.get("n") or (rng.integers(1, 10) if rng.random() < .3 else rng.integers(1, nmax + 1)))
    relation = case.get("relation") or RELS[rng.integers(len(RELS))]
    ref = gen.traj_arrays(rng, n)
    est = gen.perturbed_estimate(rng, ref, hostile=True)
    if rng.random() < .1:
        est = {k: (np.array(v, copy=True) if isinstance(v, np.ndarray) else v) for k, v in ref.items()}
    m1 = "se3" if rng.random() < .5 else "xyzq"
    m2 = "se3" if rng.random() < .5 else "xyzq"
    stamped = bool(rng.random() < .5)
    t_ref = gen.make_evo(ref, m1, stamped, flavour=gen.rand_flavour(rng))
    t_est = gen.make_evo(est, m2, stamped, flavour=gen.rand_flavour(rng))
    gen.age(rng, t_ref), gen.age(rng, t_est)
    s1, s2 = contracts.field_snapshot(t_ref), contracts.field_snapshot(t_est)
    metric = metrics.APE(metrics.PoseRelation[relation])
    out = contracts.outcome_of(metric.process_data, (t_ref, t_est))
    run.seen(case, core.digest(ref["p"], ref["R"], est["p"], est["R"], relation),
             nontrivial=not np.array_equal(ref["p"], est["p"]) or not np.array_equal(ref["R"], est["R"]),
             cls=["L1 relation:" + relation, "pos:" + ref["cls"][0], "storage:%s/%s" % (m1, m2)],
             sample={"n": n, "relation": relation, "classes": ref["cls"], "outcome": out[0]})
    if relation == "point_distance_error_ratio":
        run.check(out[0] == "exc" and isinstance(out[1], metrics.MetricsException),
                  "APE: unsupported relation refused", case,
                  "APE accepted point_distance_error_ratio: %r" % (out[1], ))
        return
    if not run.check(out[0] == "ok", "APE.process_data returns", case, "raised %r" % (out[1], )):
        return
    bad = contracts.snapshot_diff(s1, contracts.field_snapshot(t_ref)) + \
        contracts.snapshot_diff(s2, contracts.field_snapshot(t_est))
    run.check(not bad, "APE leaves its inputs unchanged", case, "process_data modified %s" % bad,
              key="ape:inputs-modified")
    e = np.array(metric.error, dtype=float)  # (a copy: the object is converted to other units below)
    if not run.check(e.shape == (n, ), "APE: exactly one value per pose", case,
                     "error has shape %s for %d poses" % (e.shape, n), key="ape:length"):
        return
    # the object's poses as built (xyzq mode goes through quaternions: use the rotations evo holds)
    want = rm.ape_definition(relation, ref["R"], ref["p"], est["R"], est["p"])
    tol = tol_for(relation, ref["p"], est["p"])
    dev = float(np.max(np.abs(e - want)))
    run.note_max("max_deviation_over_tolerance_L1", dev / tol)
    run.check(dev <= tol, "APE value == definition applied to its own pose pair", case,
              "APE(%s) deviates from the definition by %g (tol %g) at pose %d" %
              (relation, dev, tol, int(np.argmax(np.abs(e - want)))), key="ape:not-definition",
              got=e[:8], want=want[:8])
    if relation in ("rotation_angle_rad", "rotation_angle_deg"):
        top = PI if relation.endswith("rad") else 180.0
        run.check(bool(np.all(e >= 0)) and bool(np.all(e <= top * (1 + 1e-12))), "APE angle in [0, pi]",
                  case, "angle outside [0, pi]: min %r max %r" % (float(e.min()), float(e.max())))
    if relation in ("translation_part", "point_distance") and rng.random() < .3:
        # the values shown in other length units, one conversion after the other on the same object
        # (m -> cm -> mm, m -> km -> m ...): after each step the values are the definition's, in that unit
        scale = {"mm": 1e3, "cm": 1e2, "m": 1.0, "km": 1e-3}
        chain = [["mm", "cm", "m", "km"][rng.integers(4)] for _ in range(int(rng.integers(2, 4)))]
        for u in chain:
            out_u = contracts.outcome_of(metric.change_unit, metrics.Unit(u))
            if not run.check(out_u[0] == "ok", "length unit conversion accepted", case,
                             "change_unit(%s) in the chain %s raised %r" % (u, chain, out_u[1]), key="ape:unit-chain-raised"):
                break
            eu = np.asarray(metric.error, dtype=float)
            run.check(eu.shape == want.shape and bool(np.all(np.abs(eu - want * scale[u]) <= (tol + 1e-12 * np.abs(want)) * scale[u] * 4)),
                      "APE values after chained unit conversions", case,
                      "after the conversions %s the values are not the definition's in %s (e.g. %r vs %r)" %
                      (chain[:chain.index(u) + 1], u, float(eu[0]) if eu.size else None, float(want[0] * scale[u]) if want.size else None),
                      key="ape:unit-chain")
    # metamorphic: swap, common rigid motion, coincidence
    m = metrics.APE(metrics.PoseRelation[relation])
    m.process_data((gen.make_evo(est, m2, stamped), gen.make_evo(ref, m1, stamped)))
    run.check(float(np.max(np.abs(np.asarray(m.error) - e))) <= 2 * tol, "APE unchanged when ref/est swapped",
              case, "swapping reference and estimate changed the values", key="ape:swap")
    A = gen.rand_se3(rng, tscale=float(np.std(ref["p"])) + 1.0)

    def moved(arr):
        return {"p": (A[:3, :3] @ arr["p"].T).T + A[:3, 3], "R": np.array([A[:3, :3] @ R for R in arr["R"]]),
                "t": arr["t"]}

    m = metrics.APE(metrics.PoseRelation[relation])
    r2, e2 = moved(ref), moved(est)
    m.process_data((gen.make_evo(r2, m1, stamped), gen.make_evo(e2, m2, stamped)))
    tol2 = tol_for(relation, r2["p"], e2["p"]) + tol
    run.check(float(np.max(np.abs(np.asarray(m.error) - e))) <= 4 * tol2,
              "APE unchanged under a common rigid motion", case,
              "moving both trajectories by the same rigid motion changed the values", key="ape:rigid")
    m = metrics.APE(metrics.PoseRelation[relation])
    m.process_data((gen.make_evo(ref, m1, stamped), gen.make_evo(ref, m2, stamped)))
    run.check(float(np.max(np.abs(np.asarray(m.error)))) <= tol, "APE zero when trajectories coincide",
              case, "APE of a trajectory with itself is not zero (%g)" %
              float(np.max(np.abs(np.asarray(m.error)))), key="ape:coincide")


def k_unequal(run, case):
    from evo.core import metrics
    rng = run.rng(case)
    n = int(rng.integers(2, 60))
    k = int(rng.integers(1, n))
    ref = gen.traj_arrays(rng, n)
    est = {kk: (v[:k] if isinstance(v, np.ndarray) else v) for kk, v in gen.perturbed_estimate(rng, ref).items()}
    if rng.random() < .5:
        ref, est = est, ref
    relation = RELS[rng.integers(6)]
    metric = metrics.APE(metrics.PoseRelation[relation])
    out = contracts.outcome_of(metric.process_data, (gen.make_evo(ref, "se3", False), gen.make_evo(est, "xyzq", False)))
    run.seen(case, core.digest(ref["p"], est["p"], relation), cls=["L1 unequal lengths"],
             sample={"n_ref": len(ref["p"]), "n_est": len(est["p"]), "outcome": out[0]})
    run.check(out[0] == "exc" and isinstance(out[1], metrics.MetricsException),
              "APE: unequal lengths refused", case,
              "sequences of %d and %d poses were not refused: %r" % (len(ref["p"]), len(est["p"]), out[1]),
              key="ape:unequal-accepted")


# ------------------------------------------------------------------ L2: API sessions
def k_session(run, case):
    """
    One process, one reference object, several evaluations (the "one ground truth, several
    estimates / several settings" loop of an API user): every evaluation associates the same
    reference object with an estimate (sync.associate_trajectories returns new synchronized
    objects) and calls main_ape.ape() on the associated pair with its own options.  Every
    evaluation is judged on its own against the generating arrays: what an earlier evaluation
    did (projection, alignment, unit change) must not leak into a later one.
    """
    from evo import main_ape
    from evo.core import metrics, sync
    from evo.core.trajectory import Plane
    rng = run.rng(case)
    n = int(rng.integers(8, 60))
    base = gen.traj_arrays(rng, n, pos_cls=["walk", "circle", "utm", "tiny"][rng.integers(4)],
                           rot_cls=["smooth", "uniform", "mixed"][rng.integers(3)],
                           stamp_cls=["epoch", "small", "dyadic"][rng.integers(3)])
    for k in range(1, n):
        if base["t"][k] <= base["t"][k - 1]:
            base["t"][k] = base["t"][k - 1] + 1e-3
    dt = float(np.min(np.diff(base["t"])))

    def subset(frac_lo):
        keep = rng.random(n) < rng.uniform(frac_lo, 1.0)
        keep[rng.choice(n, size=4, replace=False)] = True
        return np.nonzero(keep)[0]

    ia = subset(0.6)
    ref = {"p": base["p"][ia], "R": base["R"][ia], "t": base["t"][ia]}
    m_ref = "se3" if rng.random() < .6 else "xyzq"
    t_ref = gen.make_evo(ref, m_ref, True, flavour=gen.rand_flavour(rng))
    aged = gen.age(rng, t_ref, p=0.8)
    snap_ref = contracts.field_snapshot(t_ref)
    ests = []
    for _ in range(int(rng.integers(1, 3))):
        ib = subset(0.5)
        e = gen.perturbed_estimate(rng, {"p": base["p"][ib], "R": base["R"][ib], "t": base["t"][ib],
                                         "cls": base["cls"]}, hostile=bool(rng.random() < .5))
        e["t"] = e["t"] + (0.0 if rng.random() < .4 else rng.uniform(-0.2, 0.2, size=len(ib)) * dt)
        if rng.random() < .5:
            A = gen.rand_se3(rng, tscale=float(np.std(base["p"])) + 1e-3)
            sc = 10.0**rng.uniform(-0.3, 0.3)
            e["p"] = (A[:3, :3] @ e["p"].T).T / sc + A[:3, 3]
            e["R"] = np.array([A[:3, :3] @ Rk for Rk in e["R"]])
        obj = gen.make_evo(e, "se3" if rng.random() < .5 else "xyzq", True, flavour=gen.rand_flavour(rng))
        gen.age(rng, obj)
        ests.append((e, obj, contracts.field_snapshot(obj)))
    n_eval = int(rng.integers(2, 5))
    run.seen(case, core.digest(ref["p"], ref["R"], [e[0]["p"] for e in ests], n_eval),
             cls=["L2 session of %d evaluations" % n_eval, "L2 reference storage:" + m_ref,
                  "L2 reference read before: " + ("yes" if aged else "no")],
             sample={"n_ref": len(ia), "n_est": [len(e[0]["p"]) for e in ests], "evaluations": n_eval})
    history = []
    for j in range(n_eval):
        e_arr, t_est, snap_est = ests[int(rng.integers(len(ests)))]
        relation = RELS[rng.integers(6)]
        plane = [None, None, "xy", "xz", "yz"][rng.integers(5)]
        align = bool(rng.random() < .3)
        o = {"align": align, "correct_scale": bool(rng.random() < .3), "n_to_align": -1,
             "align_origin": bool(not align and rng.random() < .15), "project_to_plane": plane,
             "t_max_diff": 0.45 * dt}
        unit = None
        if rng.random() < .15:
            unit = ["mm", "cm", "m", "km", "deg", "rad"][rng.integers(6)]
        history.append("%s%s%s" % (relation, " +project " + plane if plane else "",
                                   " +align" if (o["align"] or o["correct_scale"] or o["align_origin"]) else ""))
        out = contracts.outcome_of(sync.associate_trajectories, t_ref, t_est, max_diff=o["t_max_diff"])
        # ---- reference
        try:
            P = pipeline.Pipeline(ShadowTrajectory(ref["R"], ref["p"], ref["t"]),
                                  ShadowTrajectory(e_arr["R"], e_arr["p"], e_arr["t"]), True)
            P.crop_and_associate(None, None, o["t_max_diff"], 0.0)
            P.align(o["align"], o["correct_scale"], -1, o["align_origin"])
            P.project(plane)
            factor = unit_factor(UNIT_OF[relation], unit)
        except pipeline.Ambiguous as a:
            run.hit("L2 ambiguous (not judged): " + str(a))
            continue
        except pipeline.Refuse as r:
            run.hit("L2 refusals (not judged in sessions)")
            continue
        if not run.check(out[0] == "ok", "session: association succeeds", case,
                         "associate_trajectories raised %r" % (out[1], ), key="session:associate"):
            return
        r_obj, e_obj = out[1]
        kw = dict(align=o["align"], correct_scale=o["correct_scale"], align_origin=o["align_origin"],
                  project_to_plane=Plane(plane) if plane else None,
                  change_unit=metrics.Unit(unit) if unit else None)
        out = contracts.outcome_of(main_ape.ape, r_obj, e_obj, metrics.PoseRelation[relation], **kw)
        if not run.check(out[0] == "ok", "session: evaluation succeeds", case,
                         "evaluation %d (%s) raised %r" % (j, history[-1], out[1]), key="session:failure"):
            return
        res = out[1]
        err = np.asarray(res.np_arrays["error_array"], dtype=float)
        vr, ve = gen.read_views(r_obj), gen.read_views(e_obj)
        stored = (ShadowTrajectory(np.array([rm.rot_from_quat_wxyz(q) for q in vr["q"]]), vr["p"], vr["t"]),
                  ShadowTrajectory(np.array([rm.rot_from_quat_wxyz(q) for q in ve["q"]]), ve["p"], ve["t"]))
        if not compare_processed(run, case, P, stored, o, "session"):
            return
        ref_s, est_s = stored
        if not run.check(err.shape == (est_s.n, ), "session: one value per associated pose pair", case,
                         "error_array has %s values for %d pose pairs" % (err.shape, est_s.n),
                         key="session:length"):
            return
        want = rm.ape_definition(relation, ref_s.R, ref_s.p, est_s.R, est_s.p) * factor
        tol = tol_for(relation, ref_s.p, est_s.p, rotation_defect(ref_s.R, est_s.R)) * abs(factor)
        dev = float(np.max(np.abs(err - want))) if len(err) else 0.0
        run.note_max("max_deviation_over_tolerance_L2", dev / tol)
        run.check(dev <= tol, "session: every evaluation == definition on its own associated pair", case,
                  "evaluation %d of a session (%s; earlier: %s) deviates from the definition by %g (tol %g)" %
                  (j, history[-1], history[:-1], dev, tol), key="session:not-definition")
        bad = contracts.snapshot_diff(snap_ref, contracts.field_snapshot(t_ref)) + \
            contracts.snapshot_diff(snap_est, contracts.field_snapshot(t_est))
        run.check(not bad, "session: the caller's trajectories are unchanged by an evaluation", case,
                  "evaluation %d (%s) on associated copies modified the original objects: %s" %
                  (j, history[-1], bad), key="session:originals-modified")
        if plane and any(not h.count("+project") for h in history[:-1]) or \
                (not plane and any(h.count("+project") for h in history[:-1])):
            run.hit("L2 evaluations with and without projection in one session")


def k_api(run, case):
    """
    main_ape.ape() called directly on freshly built trajectory objects of equal length (no
    association step in between, every construction flavour incl. one stacked pose array), with
    alignment / scale correction / origin alignment / projection options: the values equal the
    definition on the documented processing of the generating arrays.
    """
    from evo import main_ape
    from evo.core import metrics
    from evo.core.trajectory import Plane
    rng = run.rng(case)
    n = int(rng.integers(3, 60))
    ref = gen.traj_arrays(rng, n, pos_cls=["walk", "circle", "utm", "tiny"][rng.integers(4)],
                          rot_cls=["smooth", "uniform", "mixed"][rng.integers(3)], stamp_cls="small")
    for k in range(1, n):
        if ref["t"][k] <= ref["t"][k - 1]:
            ref["t"][k] = ref["t"][k - 1] + 1e-3
    est = gen.perturbed_estimate(rng, ref, hostile=False)
    if rng.random() < .15:
        est["p"] = ref["p"].copy()  # an exact (down-)scaled / moved copy of the reference: zero error after alignment
    A = gen.rand_se3(rng, tscale=float(np.std(ref["p"] - ref["p"].mean(axis=0))) + 1e-3)
    sc = float([0.5, 2.0, 10.0**rng.uniform(-0.5, 0.5)][rng.integers(3)])
    u = rng.random()
    align, cs, origin = (u < .3), bool(rng.random() < .5), (.3 <= u < .5)
    if cs and not align:
        est["p"] = est["p"] / sc  # scale-only correction: the estimate differs by a pure scale
    elif align or origin:
        est["p"] = (A[:3, :3] @ est["p"].T).T / (sc if cs else 1.0) + A[:3, 3]
        est["R"] = np.array([A[:3, :3] @ Rk for Rk in est["R"]])
    stamped = bool(rng.random() < .5)
    m1, m2 = ["se3", "xyzq"][rng.integers(2)], ["se3", "se3", "xyzq"][rng.integers(3)]
    f1, f2 = gen.rand_flavour(rng), gen.rand_flavour(rng)
    relation = RELS[rng.integers(6)]
    plane = [None, None, None, "xy", "xz", "yz"][rng.integers(6)]
    if plane and not (align or cs or origin) and rng.random() < .5:
        # 2-D localisation with full attitudes: positions exactly in the plane, roll / pitch present
        nd = {"xy": 2, "xz": 1, "yz": 0}[plane]
        ref["p"][:, nd] = 0.0
        est["p"][:, nd] = 0.0
    t_ref, t_est = gen.make_evo(ref, m1, stamped, flavour=f1), gen.make_evo(est, m2, stamped, flavour=f2)
    gen.age(rng, t_ref, p=.3), gen.age(rng, t_est, p=.3)
    o = {"align": align, "correct_scale": cs, "n_to_align": -1, "align_origin": origin, "project_to_plane": plane}
    out = contracts.outcome_of(main_ape.ape, t_ref, t_est, metrics.PoseRelation[relation], align=align, correct_scale=cs,
                               align_origin=origin, project_to_plane=Plane(plane) if plane else None)
    run.seen(case, core.digest(ref["p"], est["p"], relation, align, cs, origin, plane, m2, f2),
             cls=["L2 ape() on fresh objects: " + ("scale only" if cs and not align else "align" if align else "origin" if origin else "no alignment"),
                  "L2 estimate container:%s/%s" % (m2, f2.split("+")[0])],
             sample={"n": n, "relation": relation, "options": {k: v for k, v in o.items() if v and v != -1}, "outcome": out[0]})
    try:
        P = pipeline.Pipeline(ShadowTrajectory(ref["R"], ref["p"], ref["t"]), ShadowTrajectory(est["R"], est["p"], est["t"]), False)
        P.align(align, cs, -1, origin)
        P.project(plane)
    except (pipeline.Ambiguous, pipeline.Refuse):
        run.hit("L2 ape(): reference ambiguous / refuses (not judged)")
        return
    if not run.check(out[0] == "ok", "ape() succeeds", case, "ape() raised %r" % (out[1], ), key="api:failure"):
        return
    err = np.asarray(out[1].np_arrays["error_array"], dtype=float)
    vr, ve = gen.read_views(t_ref), gen.read_views(t_est)
    stored = (ShadowTrajectory(np.array([rm.rot_from_quat_wxyz(q) for q in vr["q"]]), vr["p"], None),
              ShadowTrajectory(np.array([rm.rot_from_quat_wxyz(q) for q in ve["q"]]), ve["p"], None))
    if not compare_processed(run, case, P, stored, o, "ape()"):
        return
    ref_s, est_s = stored
    want = rm.ape_definition(relation, ref_s.R, ref_s.p, est_s.R, est_s.p)
    tol = tol_for(relation, ref_s.p, est_s.p, rotation_defect(ref_s.R, est_s.R))
    dev = float(np.max(np.abs(err - want))) if err.shape == want.shape else float("inf")
    run.check(dev <= tol, "ape() on fresh objects == definition on the documented processing", case,
              "ape(%s; %s) deviates from the definition by %g (tol %g)" % (relation, {k: v for k, v in o.items() if v and v != -1}, dev, tol),
              key="api:not-definition")
    if rng.random() < .35:
        # the same reference object evaluated against a second estimate, possibly in another plane
        # (one ground truth, several runs): evo either refuses (the object is already projected) or
        # evaluates both trajectories in the requested plane
        plane2 = ["xy", "xz", "yz"][rng.integers(3)]
        est2 = gen.perturbed_estimate(rng, ref, hostile=False)
        t_est2 = gen.make_evo(est2, m2, stamped, flavour=f2)
        out2 = contracts.outcome_of(main_ape.ape, t_ref, t_est2, metrics.PoseRelation[relation],
                                    project_to_plane=Plane(plane2))
        run.hit("L2 ape(): reference object re-used for a second evaluation")
        if out2[0] == "ok":
            nd2 = {"xy": 2, "xz": 1, "yz": 0}[plane2]
            v_r, v_e = gen.read_views(t_ref), gen.read_views(t_est2)
            run.check(bool(np.all(v_r["p"][:, nd2] == 0)) and bool(np.all(v_e["p"][:, nd2] == 0)),
                      "second evaluation with a re-used reference: both trajectories in the requested plane", case,
                      "ape(project_to_plane=%s) after an evaluation with plane %s returned values although the re-used "
                      "reference is not in the %s plane" % (plane2, plane, plane2), key="api:reused-reference-plane")
            e2 = np.asarray(out2[1].np_arrays["error_array"], dtype=float)
            R_r = np.array([rm.rot_from_quat_wxyz(q) for q in v_r["q"]])
            R_e = np.array([rm.rot_from_quat_wxyz(q) for q in v_e["q"]])
            want2 = rm.ape_definition(relation, R_r, v_r["p"], R_e, v_e["p"])
            tol2 = tol_for(relation, v_r["p"], v_e["p"], rotation_defect(R_r, R_e))
            run.check(e2.shape == want2.shape and float(np.max(np.abs(e2 - want2))) <= tol2,
                      "second evaluation with a re-used reference == definition on the objects it returns", case,
                      "values of the second evaluation deviate from the definition on the processed objects",
                      key="api:reused-reference-values")
        else:
            from evo.core.trajectory import TrajectoryException
            run.check(isinstance(out2[1], TrajectoryException), "a re-used, already projected reference is refused with evo's trajectory error",
                      case, "second evaluation raised %r" % (out2[1], ), key="api:reused-reference-exception")


# ------------------------------------------------------------------ L3 helpers (shared with C02/C12)
def make_file_pair(rng, fmt, workdir, n=None, pos_cls=None, still_start=False, stamp_cls=None, small_est=False,
                   header_comment=False):
    """write a reference/estimate file pair; returns dict with paths and ground-truth arrays"""
    n = n or int(rng.integers(6, 70))
    ref = gen.traj_arrays(rng, n, pos_cls=pos_cls or ["walk", "utm", "circle", "stationary_mix", "tiny"][rng.integers(5)],
                          rot_cls=["smooth", "uniform", "mixed", "yaw_grid"][rng.integers(4)],
                          stamp_cls=stamp_cls or ["epoch", "small", "irregular"][rng.integers(3)])
    for k in range(1, n):
        if ref["t"][k] <= ref["t"][k - 1]:
            ref["t"][k] = ref["t"][k - 1] + 1e-3
    if fmt == "tum" and not stamp_cls and rng.random() < .07:
        # stamps in integer nanoseconds since the epoch (the files carry no time unit: all time
        # options of the command are in the unit of the files)
        ref["t"] = np.round((ref["t"] - ref["t"][0]) * 1e9) + 1.4e18
        for k in range(1, n):
            if ref["t"][k] <= ref["t"][k - 1]:
                ref["t"][k] = ref["t"][k - 1] + 1024.0
    ext = float(np.max(np.abs(ref["p"] - ref["p"].mean(axis=0)))) + 1e-3
    # estimate: sub/over-sampled in time, jittered stamps, noisy poses, then a similarity
    dt = float(np.median(np.diff(ref["t"]))) if n > 1 else 0.1
    if fmt == "kitti":
        idx = np.arange(n)
        if rng.random() < .06:
            idx = idx[:max(2, n - int(rng.integers(1, 4)))]
        t_est = ref["t"][idx]
    else:
        keep = rng.random(n) < rng.uniform(0.5, 1.0)
        keep[rng.integers(n)] = True
        idx = np.nonzero(keep)[0]
        t_est = ref["t"][idx] + rng.normal(size=len(idx)) * dt * (0.0 if rng.random() < .3 else 0.02)
        t_est = np.sort(t_est)
        for k in range(1, len(t_est)):
            if t_est[k] <= t_est[k - 1]:
                t_est[k] = t_est[k - 1] + max(1e-4, 4 * float(np.spacing(t_est[k - 1])))
    if fmt != "kitti" and dt > 0.05 and n >= 8 and float(np.max(np.abs(ref["t"]))) < 1e10 and rng.random() < .12:
        # bursts: three estimate stamps compete for one reference stamp (far / closest / medium,
        # before and after it); with bursts at every reference stamp the estimate is the longer
        # trajectory, with bursts at every fourth one the shorter (stamps in seconds: millisecond
        # offsets would vanish in nanosecond stamps and leave rows sharing one stamp)
        idx = np.repeat(np.arange(0, n, [1, 4, 4][rng.integers(3)]), 3)
        t_est = ref["t"][idx] + np.tile([[-0.008, -0.001, 0.005], [-0.005, 0.001, 0.008]][rng.integers(2)], len(idx) // 3)
    noise = (0.0 if rng.random() < .1 else 10.0**rng.uniform(-4, -0.5)) * ext
    p = ref["p"][idx] + rng.normal(size=(len(idx), 3)) * noise
    R = np.array([ref["R"][i] @ rm.rodrigues(gen.rand_axis(rng), rng.uniform(0, 0.5)) for i in idx])
    if rng.random() < .06:
        # an estimate that is almost the reference: a small rigid offset (tiny compared with the
        # distance from the origin for UTM-like data), orientations equal to ~1e-8
        A = rm.se3(rm.rodrigues(gen.rand_axis(rng), 10.0**rng.uniform(-9, -6)), rng.normal(size=3) * ext * 10.0**rng.uniform(-3, -0.5))
        c = ref["p"].mean(axis=0)
        p = (A[:3, :3] @ (ref["p"][idx] - c).T).T + c + A[:3, 3]
        R = np.array([A[:3, :3] @ ref["R"][i] for i in idx])
    elif rng.random() < .7 or small_est:
        A = gen.rand_se3(rng, tscale=ext)
        s = 10.0**rng.uniform(-0.5, 0.5)
        if small_est:
            s = 10.0**rng.uniform(0.5, 1.2)  # an estimate at a much smaller metric scale (monocular)
        p = (A[:3, :3] @ p.T).T / s + A[:3, 3]
        R = np.array([A[:3, :3] @ Rk for Rk in R])
    if still_start:
        # the platform stands still (or drives straight along one axis) for its first poses
        m = min(6, len(p))
        if rng.random() < .5:
            p[:m] = p[0]
        else:
            p[:m] = p[0] + np.outer(np.arange(m), [[1.0, 0, 0], [0, 1.0, 0], [0, 0, 1.0]][rng.integers(3)]) * ext * 0.01
    offset = 0.0
    if fmt != "kitti" and rng.random() < .5:
        offset = float("%.9f" % float(rng.normal() * 5.0))  # (no exponent notation: argparse)
        t_est = t_est - offset
    est = {"p": p, "R": R, "t": t_est}
    refp, estp = os.path.join(workdir, "ref.txt"), os.path.join(workdir, "est.txt")
    if rng.random() < .12:
        refp, estp = os.path.join(workdir, "gt 100%.txt"), os.path.join(workdir, "est_%d (v2).txt")
    elif rng.random() < .25:
        # the suffix of a file is the user's business: the sub-command names the format
        sfx = [".csv", ".tum", ".kitti", "", ".log", ".CSV", ".bag.txt", ".json"]
        refp = os.path.join(workdir, "ref" + sfx[rng.integers(len(sfx))])
        estp = os.path.join(workdir, "est" + sfx[rng.integers(len(sfx))])
        if fmt == "euroc" and rng.random() < .5:
            estp = os.path.join(workdir, "est.csv")  # (the TUM estimate named like the ground truth)
    if fmt == "tum":
        open(refp, "w").write(rm.write_tum_text(ref["t"], ref["p"], gen.quats_of(ref["R"])))
    elif fmt == "kitti":
        open(refp, "w").write(rm.write_kitti_text(ref["p"], ref["R"]))
    else:
        refp = os.path.join(workdir, "ref.csv")
        open(refp, "w").write(rm.write_euroc_text(np.round(ref["t"] * 1e9), ref["p"], gen.quats_of(ref["R"]), header=bool(rng.random() < .7), extra_cols=int([9, 0, 3][rng.integers(3)]), eol=["\n", "\n", "\r\n"][rng.integers(3)]))
    if fmt == "kitti":
        open(estp, "w").write(rm.write_kitti_text(est["p"], est["R"]))
    else:
        open(estp, "w").write(rm.write_tum_text(est["t"], est["p"], gen.quats_of(est["R"])))
    for pth in (refp, estp):
        if fmt != "kitti" and not pth.endswith(".csv") and (rng.random() < .15 or header_comment):
            # TUM files with a header comment (free text: commas, colons, quotes)
            txt = open(pth).read()
            open(pth, "w").write(["# run 3, exported by my_slam\n", "# timestamp tx ty tz qx qy qz qw\n",
                                  "# seq: 'office, night'; \"v2\"\n#\n"][rng.integers(3)] + txt)
    for pth in (refp, estp):
        if not pth.endswith("ref.csv") and rng.random() < .1:
            # a file as other tools print it: 2..5 decimals per value (stamps untouched); every
            # digit of it counts, also the very last one of the file
            k = int(rng.integers(2, 6))
            out = []
            for ln in open(pth).read().splitlines():
                tok = ln.split(" ")
                if ln.startswith("#") or len(tok) not in (8, 12):
                    out.append(ln)
                    continue
                # (TUM: everything but the stamp; KITTI: the translation column - a rounded
                # rotation block is no rotation any more)
                cols = range(1, 8) if len(tok) == 8 else (3, 7, 11)
                out.append(" ".join("%.*f" % (k, float(v)) if c in cols else v for c, v in enumerate(tok)))
            open(pth, "w").write("\n".join(out) + ("\n" if rng.random() < .5 else ""))
    for pth in (refp, estp):
        if rng.random() < .12:
            # a file whose last line has no line terminator
            txt = open(pth, newline="").read()
            open(pth, "w", newline="").write(txt.rstrip("\r\n"))
    if fmt == "tum" and rng.random() < .3:
        # a sparse reference and a dense estimate: the two files change roles
        return {"fmt": fmt, "ref_path": estp, "est_path": refp, "offset": -offset, "dt": dt, "ext": ext,
                "n_ref": len(idx), "n_est": n, "t_ref": t_est, "t_est": ref["t"]}
    return {"fmt": fmt, "ref_path": refp, "est_path": estp, "offset": offset, "dt": dt, "ext": ext,
            "n_ref": n, "n_est": len(idx), "t_ref": ref["t"], "t_est": t_est}


REAL_PAIRS = [
    ("tum", "fr2_desk_groundtruth.txt", "fr2_desk_ORB.txt"),
    ("tum", "fr2_desk_groundtruth.txt", "fr2_desk_ORB_kf_mono.txt"),
    ("tum", "freiburg1_xyz-groundtruth.txt", "freiburg1_xyz-rgbdslam.txt"),
    ("tum", "freiburg1_xyz-groundtruth.txt", "freiburg1_xyz-ORB_kf_mono.txt"),
    ("tum", "freiburg1_xyz-groundtruth.txt", "freiburg1_xyz-rgbdslam_drift.txt"),
    ("kitti", "KITTI_00_gt.txt", "KITTI_00_ORB.txt"),
    ("kitti", "KITTI_00_gt.txt", "KITTI_00_SPTAM.txt"),
    ("euroc", "V102_groundtruth.csv", "V102.txt"),
]


def real_file_pair(rng, work):
    """one of the real dataset pairs bundled with the repository (test/data), copied into work"""
    import shutil
    fmt, r, e = REAL_PAIRS[rng.integers(len(REAL_PAIRS))]
    d = os.path.join(str(core.REPO), "test", "data")
    refp = os.path.join(work, "ref.csv" if fmt == "euroc" else "ref.txt")
    estp = os.path.join(work, "est.txt")
    shutil.copyfile(os.path.join(d, r), refp)
    shutil.copyfile(os.path.join(d, e), estp)
    fp = {"fmt": fmt, "ref_path": refp, "est_path": estp, "offset": 0.0, "real": (r, e)}
    ref, est, stamped = parse_inputs(fp)
    fp.update({"n_ref": ref.n, "n_est": est.n, "ext": float(np.max(np.abs(ref.p - ref.p.mean(axis=0)))) + 1e-3,
               "dt": float(np.median(np.diff(est.t))) if stamped else 0.1,
               "t_ref": ref.t if stamped else np.arange(ref.n, dtype=float),
               "t_est": est.t if stamped else np.arange(est.n, dtype=float)})
    return fp


def parse_inputs(fp):
    """independent parse of the two files -> (ShadowTrajectory ref, est, stamped)"""
    rt = open(fp["ref_path"]).read()
    et = open(fp["est_path"]).read()
    if fp["fmt"] == "tum":
        t, p, R, _ = rm.parse_tum(rt)
        ref = ShadowTrajectory(R, p, t)
    elif fp["fmt"] == "euroc":
        t, p, R, _ = rm.parse_euroc(rt)
        ref = ShadowTrajectory(R, p, t)
    else:
        p, R = rm.parse_kitti(rt)
        ref = ShadowTrajectory(R, p, None)
    if fp["fmt"] == "kitti":
        p, R = rm.parse_kitti(et)
        est = ShadowTrajectory(R, p, None)
    else:
        t, p, R, _ = rm.parse_tum(et)
        est = ShadowTrajectory(R, p, t)
    return ref, est, fp["fmt"] != "kitti"


def draw_common_options(rng, fp, force=()):
    """algorithm options shared by evo_ape / evo_rpe; returns (argv list, opts dict)"""
    o = {"align": False, "correct_scale": False, "align_origin": False, "n_to_align": -1,
         "downsample": None, "motion_filter": None, "t_max_diff": 0.01, "t_offset": 0.0,
         "t_start": None, "t_end": None, "project_to_plane": None}
    argv = []
    u = rng.random()
    if "scale_only" in force:
        u = 0.5 + 0.5 * u  # no Umeyama rotation: scale correction alone (optionally with origin alignment)
    if "align" in force:
        u = 0.29 * u
    if u < .3:
        o["align"] = True
        argv.append("--align" if rng.random() < .5 else "-a")
    elif u < .45 or ("scale_only" in force and u < .7):
        o["align_origin"] = True
        argv.append("--align_origin")
    if rng.random() < .35 or "scale_only" in force or "scale" in force:
        o["correct_scale"] = True
        argv.append("--correct_scale" if rng.random() < .5 else "-s")
    if (o["align"] or o["correct_scale"]) and (rng.random() < .4 or "n_to_align" in force):
        o["n_to_align"] = int(rng.integers(3, max(4, fp["n_est"] + 2)))
        if "n_small" in force:
            o["n_to_align"] = int(rng.integers(3, 6))
        argv += ["--n_to_align", str(o["n_to_align"])]
    if rng.random() < .25:
        o["downsample"] = int(rng.integers(2, max(fp["n_ref"], fp["n_est"]) + 3))
        lo, hi = sorted((fp["n_ref"], fp["n_est"]))
        if lo < hi and lo >= 2 and rng.random() < .5:
            o["downsample"] = int(rng.integers(lo, hi))  # only one of the two trajectories is longer than N
        argv += ["--downsample", str(o["downsample"])]
    if rng.random() < .25:
        d = float(fp["ext"] * 10.0**rng.uniform(-2, -0.3)) if rng.random() < .8 else 0.0
        a = float(rng.uniform(0, 60))
        if rng.random() < .2:
            a = float([270.0, 360.0, 999.0, 181.0, 540.0][rng.integers(5)])  # beyond a half turn: the angle criterion is switched off
        o["motion_filter"] = (d, a)
        argv += ["--motion_filter", repr(d), repr(a)]
    if fp["fmt"] != "kitti":
        o["t_max_diff"] = float(fp["dt"] * 10.0**rng.uniform(-1.5, 0.5)) if rng.random() < .8 else 0.01
        if rng.random() < .07:
            o["t_max_diff"] = 0.0  # legal: only identical stamps are associated
        elif (rng.random() < .12 or "tmax_boundary" in force) and float(np.max(np.abs(fp["t_ref"]))) < 1e5 and len(fp["t_est"]):
            # a bound a hair above / below the time difference of one pose pair (more decimals than
            # nanoseconds): the pair is in or out exactly as the given number says
            te = np.asarray(fp["t_est"], dtype=float) + fp["offset"]
            i = int(rng.integers(len(te)))
            dmin = float(np.min(np.abs(np.asarray(fp["t_ref"], dtype=float) - te[i])))
            cand = dmin + (1 if rng.random() < .5 else -1) * 10.0**rng.uniform(-12, -9.5)
            if cand > 0:
                o["t_max_diff"] = cand
        argv += ["--t_max_diff", ["0", "0.0"][rng.integers(2)] if o["t_max_diff"] == 0 else repr(o["t_max_diff"])]
        if fp["offset"] != 0.0 and rng.random() < .9:
            o["t_offset"] = fp["offset"]
            argv += ["--t_offset", "%.9f" % o["t_offset"]]
        if rng.random() < .3 or "crop" in force:
            tr = fp["t_ref"]
            a, b = sorted(rng.uniform(tr[0], tr[-1], size=2).tolist())
            if rng.random() < .5:
                # bounds that are stamps of the reference (both bounds are inclusive)
                ia, ib = sorted(rng.integers(0, len(tr), size=2).tolist())
                a, b = float(tr[ia]), float(tr[ib])
            if rng.random() < .7 and a > 0:
                o["t_start"] = a
                argv += ["--t_start", repr(a)]
            if rng.random() < .7 and b > 0:
                o["t_end"] = b
                argv += ["--t_end", repr(b)]
    if rng.random() < .25:
        o["project_to_plane"] = ["xy", "xz", "yz"][rng.integers(3)]
        argv += ["--project_to_plane", o["project_to_plane"]]
    # options that must not influence the values
    for extra in (["-v"], ["--silent"], ["--debug"], ["--plot_mode", "zx"], ["--plot_x_dimension", "index"],
                  ["--plot_full_ref"], ["--plot_colormap_max", "3"]):
        if rng.random() < .08:
            argv += extra
    # plots are produced before the results are stored: colour-map limits inside / outside the
    # value range, percentile limits, every plot mode - none of it may influence stored values
    if rng.random() < .12:
        argv += [["--save_plot", "plot.png"], ["--save_plot", "plot.pdf"], ["--serialize_plot", "plot.ser"],
                 ["--plot"]][rng.integers(4)]
        if rng.random() < .5:
            argv += ["--plot_mode", ["xy", "xz", "yx", "yz", "zx", "zy", "xyz"][rng.integers(7)]]
        u = rng.random()
        if u < .3:
            argv += ["--plot_colormap_max", repr(float(fp["ext"] * 10.0**rng.uniform(-3, 0)))]
        elif u < .5:
            argv += ["--plot_colormap_min", repr(float(fp["ext"] * 10.0**rng.uniform(-3, 0)))]
        elif u < .75:
            argv += ["--plot_colormap_max_percentile", repr(float(rng.uniform(5, 99)))]
        o["plot"] = True
    return argv, o


CFG_FLAGS = {"-a": "align", "--align": "align", "-s": "correct_scale", "--correct_scale": "correct_scale",
             "--align_origin": "align_origin", "--all_pairs": "all_pairs", "--pairs_from_reference": "pairs_from_reference",
             "--sync": "sync", "--merge": "merge"}
CFG_VALUED = {"--n_to_align": ("n_to_align", int), "--downsample": ("downsample", int), "--t_max_diff": ("t_max_diff", float),
              "--t_offset": ("t_offset", float), "--t_start": ("t_start", float), "--t_end": ("t_end", float),
              "--project_to_plane": ("project_to_plane", str), "-r": ("pose_relation", str), "--pose_relation": ("pose_relation", str),
              "--delta": ("delta", float), "-d": ("delta", float), "--delta_unit": ("delta_unit", str), "-u": ("delta_unit", str),
              "--delta_tol": ("delta_tol", float)}


GROUPS = ["ap", "pa", "as", "sa", "va", "av", "vap", "pas", "sp", "apv", "sv", "asp"]


def group_short_flags(rng, argv, o, force=None, p=.3):
    """
    evo's documentation groups one-letter flags (README: -va, demos: -as): the one-letter flags of
    this command line spelled as ONE token, optionally together with -v (verbose) and -p (plot),
    which change no value.  `force` names the exact group wanted (e.g. "ap": needs -a).
    """
    argv = list(argv)
    if force:
        for short, long_ in (("-a", "--align"), ("-s", "--correct_scale"), ("-v", "--verbose")):
            src, dst = (long_, short) if short[1] in force else (short, long_)
            if src in argv:
                argv[argv.index(src)] = dst
    shorts = [i for i, t in enumerate(argv) if t in ("-a", "-s", "-v")]
    letters = [argv[i][1] for i in shorts]
    if force:
        if not set(letters) <= set(force) or not (set(force) - set("pv")) <= set(letters):
            return argv  # (the wanted group would change the algorithm options of this case)
        letters = list(force)
    else:
        if not shorts or rng.random() >= p:
            return argv
        if "v" not in letters and rng.random() < .3:
            letters.append("v")
        if rng.random() < .5:
            letters.append("p")
        if rng.random() < .5:
            rng.shuffle(letters)
    if not shorts:
        return argv
    if "p" in letters:
        o["plot"] = True
    out = [t for i, t in enumerate(argv) if i not in shorts]
    out.insert(shorts[0], "-" + "".join(letters))
    return out


def move_to_config(rng, argv, work, n_positional, name="options.json", p_move=.6):
    """
    The same options, some of them given through a -c/--config JSON file instead of flags
    (keys are the option names, values typed as JSON) - evo documents both sources as equivalent.
    Returns the new argv.
    """
    head, rest = list(argv[:n_positional]), list(argv[n_positional:])
    keep, cfg, i = [], {}, 0
    while i < len(rest):
        tok = rest[i]
        if tok in CFG_FLAGS and rng.random() < p_move:
            cfg[CFG_FLAGS[tok]] = True
            i += 1
        elif tok in CFG_VALUED and rng.random() < p_move:
            key, typ = CFG_VALUED[tok]
            val = rest[i + 1]
            cfg[key] = (int(float(val)) if float(val) == int(float(val)) and rng.random() < .5 else float(val)) \
                if typ is float else typ(val)
            i += 2
        elif tok == "--motion_filter" and rng.random() < p_move:
            cfg["motion_filter"] = [float(rest[i + 1]), float(rest[i + 2])]
            i += 3
        elif tok == "--motion_filter":
            keep += rest[i:i + 3]
            i += 3
        elif tok in CFG_VALUED:
            keep += rest[i:i + 2]
            i += 2
        else:
            keep.append(tok)
            i += 1
    if not cfg:
        return argv
    open(os.path.join(work, name), "w").write(json.dumps(cfg, indent=rng.integers(0, 3) or None))
    return head + keep + ["-c", name]


def read_result_zip(path):
    """own reader of a result archive -> dict(info, stats, arrays, trajectories(text))"""
    out = {"arrays": {}, "traj_text": {}}
    with zipfile.ZipFile(path) as z:
        for name in z.namelist():
            data = z.read(name)
            if name == "info.json":
                out["info"] = json.loads(data.decode("utf-8"))
            elif name == "stats.json":
                out["stats"] = json.loads(data.decode("utf-8"))
            elif name.endswith(".npy"):
                out["arrays"][name[:-4]] = np.load(io.BytesIO(data))
            elif name.endswith(".tum") or name.endswith(".kitti"):
                out["traj_text"][name] = data.decode("utf-8")
    return out


def stored_pair(res, fp):
    """the processed pair stored in the archive, parsed independently -> (ref, est) shadows"""
    rn = os.path.basename(fp["ref_path"])
    en = os.path.basename(fp["est_path"])
    out = []
    for nm in (rn, en):
        if nm + ".tum" in res["traj_text"]:
            t, p, R, _ = rm.parse_tum(res["traj_text"][nm + ".tum"])
            out.append(ShadowTrajectory(R, p, t))
        elif nm + ".kitti" in res["traj_text"]:
            p, R = rm.parse_kitti(res["traj_text"][nm + ".kitti"])
            out.append(ShadowTrajectory(R, p, None))
        else:
            return None
    return out


def reference_processing(fp, o):
    """documented order up to (and including) projection; returns Pipeline"""
    ref, est, stamped = parse_inputs(fp)
    P = pipeline.Pipeline(ref, est, stamped)
    P.downsample_filter(o["downsample"], o["motion_filter"])
    P.crop_and_associate(o["t_start"], o["t_end"], o["t_max_diff"], o["t_offset"])
    P.align(o["align"], o["correct_scale"], o["n_to_align"], o["align_origin"])
    P.project(o["project_to_plane"])
    return P


def compare_processed(run, case, P, stored, o, what):
    """stored processed pair == reference pipeline result"""
    ref_s, est_s = stored
    ok = run.check(ref_s.n == P.ref.n and est_s.n == P.est.n, what + ": processed pair has the expected poses",
                   case, "%s processed %d/%d poses, the documented order gives %d/%d" %
                   (what, ref_s.n, est_s.n, P.ref.n, P.est.n), key=what + ":wrong-pose-selection")
    if not ok:
        return False
    if P.stamped:
        ok = run.check(core.bits_equal(ref_s.t, P.ref.t) and core.bits_equal(est_s.t, P.est.t),
                       what + ": surviving pose pairs are the documented ones", case,
                       "%s kept other pose pairs than filtering + association in the documented "
                       "order select" % what, key=what + ":wrong-pose-selection")
        if not ok:
            return False
    mag = 1.0 + float(np.max(np.abs(P.ref.p))) + float(np.max(np.abs(P.est.p))) if P.ref.n else 1.0
    tol = 1e-9 * mag * min(P.cond * 100, 1e5)
    dr = float(np.max(np.abs(ref_s.p - P.ref.p))) if P.ref.n else 0.0
    de = float(np.max(np.abs(est_s.p - P.est.p))) if P.est.n else 0.0
    run.note_max("max_processed_position_deviation_over_tol", max(dr, de) / tol)
    ok = run.check(dr <= tol and de <= tol, what + ": processed positions follow the documented order", case,
                   "%s: processed positions deviate from the documented processing by %g / %g "
                   "(tol %g; options %s)" % (what, dr, de, tol, {k: v for k, v in o.items() if v}),
                   key=what + ":processing-differs")
    if not o["project_to_plane"]:
        tolR = 1e-9 * min(P.cond * 100, 1e5)
        dR = max(float(np.max(np.abs(ref_s.R - P.ref.R))), float(np.max(np.abs(est_s.R - P.est.R)))) \
            if P.ref.n else 0.0
        ok &= run.check(dR <= tolR, what + ": processed orientations follow the documented order", case,
                        "%s: processed orientations deviate by %g" % (what, dR),
                        key=what + ":processing-differs")
    else:
        nd = {"xy": 2, "xz": 1, "yz": 0}[o["project_to_plane"]]
        nrm = np.zeros(3)
        nrm[nd] = 1
        worst = max([0.0] + [max(rm.rot_defect(R), float(np.max(np.abs(R @ nrm - nrm))))
                             for R in list(ref_s.R) + list(est_s.R)])
        ok &= run.check(worst <= 1e-9, what + ": projected orientations rotate about the normal", case,
                        "projected orientation is not a rotation about the plane normal (%g)" % worst,
                        key=what + ":projection")
    return ok


def outcome_class(res):
    if res.exc is not None:
        return type(res.exc).__name__
    if res.exit not in (0, None):
        return "exit %r" % (res.exit, )
    return None


# ------------------------------------------------------------------ L3
def with_workdir(fn):
    def k(run, case):
        import shutil
        work = os.path.join(os.environ.get("VMON_WORK", "."), "c%d" % case["rs"][-1])
        os.makedirs(work, exist_ok=True)
        try:
            return fn(run, case, run.rng(case), work)
        finally:
            shutil.rmtree(work, ignore_errors=True)
    return k


class NullRun:
    """collector that swallows everything (used when another property re-uses a pipeline run)"""
    tier = "quick"

    def __init__(self, tier="quick"):
        self.tier = tier
        import collections
        self.counters = collections.Counter()
        self.extra = {}
        self.failed = []  # keys / messages of the checks that failed (for the re-using property to look at)

    def check(self, cond, *a, **k):
        if not cond:
            self.failed.append((k.get("key") or (a[0] if a else "?"), a[2] if len(a) > 2 else ""))
        return bool(cond)

    def seen(self, *a, **k):
        pass

    def hit(self, *a, **k):
        pass

    def note_max(self, *a, **k):
        pass

    def violation(self, *a, **k):
        self.failed.append((a[0] if a else "?", a[1] if len(a) > 1 else ""))


def ape_cli(run, case, rng, work):
    """one evo_ape run judged against the definition and the reference pipeline; returns a
    record (for C12) or None when refused / ambiguous / violated early"""
    from evo.tools import settings
    fmt = case.get("fmt") or ["tum", "tum", "kitti", "euroc"][rng.integers(4)]
    if case.get("real"):
        fp = real_file_pair(rng, work)
        fmt = fp["fmt"]
    else:
        fp = make_file_pair(rng, fmt, work, still_start=bool(case.get("still_start")),
                            stamp_cls="small" if "tmax_boundary" in case.get("force_options", ()) else None,
                            header_comment=bool(case.get("header_comment")))
    argv_o, o = draw_common_options(rng, fp, force=case.get("force_options", ()))
    rel_cli = list(CLI_REL)[rng.integers(len(CLI_REL))]
    relation = CLI_REL[rel_cli]
    unit = None
    argv = [fmt, os.path.basename(fp["ref_path"]), os.path.basename(fp["est_path"]),
            "-r" if rng.random() < .5 else "--pose_relation", rel_cli] + argv_o
    if rng.random() < .3:
        unit = ["mm", "cm", "m", "km", "deg", "rad"][rng.integers(6)]
        if UNIT_OF[relation] in ("deg", "rad") and rng.random() < .5:
            unit = UNIT_OF[relation]  # a conversion to the unit the values already have
        argv += ["--change_unit", unit]
    argv += ["--save_results", "out.zip", "--no_warnings"]
    argv = group_short_flags(rng, argv, o, force=case.get("group"))
    if not case.get("exe") and rng.random() < .15:
        argv = move_to_config(rng, argv, work, 3)
    if case.get("exe"):
        # the real executable in a fresh interpreter; the package setting is overridden through -c
        open(os.path.join(work, "cfg.json"), "w").write(json.dumps({"save_traj_in_zip": True}))
        pr = cli.run_subprocess("ape", argv + ["-c", "cfg.json"], work, os.environ["HOME"])
        res = cli.CliResult()
        res.exit = pr.returncode
        got = None if pr.returncode == 0 else "exit %d" % pr.returncode
        run.hit("L3 runs through the real executable")
    else:
        dict.__setitem__(settings.SETTINGS, "save_traj_in_zip", True)
        try:
            res = cli.run_cli("ape", argv, cwd=work)
        finally:
            dict.__setitem__(settings.SETTINGS, "save_traj_in_zip", False)
        got = outcome_class(res)
    run.seen(case, core.digest(open(fp["ref_path"]).read(), open(fp["est_path"]).read(), argv),
             cls=["L3 fmt:" + fmt, "L3 relation:" + rel_cli] +
             ["opt:" + k for k, v in o.items() if v and v != -1 and k not in ("t_max_diff", )] +
             (["opt:change_unit"] if unit else []) + (["L3 real dataset: %s / %s" % fp["real"]] if "real" in fp else []),
             sample={"argv": argv, "outcome": got or "ok"})
    # ---- reference
    try:
        P = reference_processing(fp, o)
        if P.ref.n != P.est.n:
            raise pipeline.Refuse("MetricsException", "unequal lengths")
        factor = unit_factor(UNIT_OF[relation], unit)
    except pipeline.Ambiguous as a:
        run.hit("L3 ambiguous (not judged): " + str(a))
        return None
    except pipeline.Refuse as r:
        if case.get("exe"):
            got = r.kind if got == "exit 1" else got  # the entry point maps known exceptions to exit 1
        run.check(got == r.kind, "evo_ape refuses what the documentation refuses", case,
                  "expected %s (%s) but evo_ape gave %s" % (r.kind, r, got or "a result"),
                  key="cli:refusal-mismatch", argv=argv)
        run.hit("L3 refusals agreed" if got == r.kind else "L3 refusal mismatch")
        return None
    if got is not None and o.get("plot") and not os.path.exists(os.path.join(work, "out.zip")) and \
            ("minvalue must be less than or equal to maxvalue" in str(res.exc) or case.get("exe")):
        # a colour-map limit on the wrong side of the value range makes the plot fail before
        # anything is stored: no values, nothing to judge
        run.hit("L3 plot refused inconsistent colour-map limits before storing (not judged)")
        return None
    if not run.check(got is None, "evo_ape succeeds on valid input", case,
                     "evo_ape failed with %s: %s (argv %s)" % (got, res.exc, argv),
                     key="cli:unexpected-failure", argv=argv):
        return None
    z = read_result_zip(os.path.join(work, "out.zip"))
    e = np.asarray(z["arrays"]["error_array"], dtype=float)
    stored = stored_pair(z, fp)
    if not run.check(stored is not None, "archive contains the processed pair", case,
                     "processed trajectories missing from the archive"):
        return None
    if not compare_processed(run, case, P, stored, o, "evo_ape"):
        return None
    ref_s, est_s = stored
    if not run.check(e.shape == (est_s.n, ), "evo_ape: one value per surviving pose pair", case,
                     "error_array has %s values for %d pose pairs" % (e.shape, est_s.n),
                     key="cli:length"):
        return None
    want = rm.ape_definition(relation, ref_s.R, ref_s.p, est_s.R, est_s.p) * factor
    tol = tol_for(relation, ref_s.p, est_s.p, rotation_defect(ref_s.R, est_s.R)) * abs(factor)
    dev = float(np.max(np.abs(e - want))) if len(e) else 0.0
    run.note_max("max_deviation_over_tolerance_L3", dev / tol)
    run.check(dev <= tol, "evo_ape values == definition on the surviving processed pairs", case,
              "stored error values deviate from the definition applied to the processed pose "
              "pairs by %g (tol %g, relation %s, unit %s)" % (dev, tol, relation, unit),
              key="cli:not-definition", argv=argv)
    if P.stamped:
        ts = np.asarray(z["arrays"].get("timestamps", []), dtype=float)
        run.check(core.bits_equal(ts, est_s.t), "stored timestamps are those of the surviving pairs",
                  case, "timestamps array is not the estimate's stamps of the surviving pairs",
                  key="cli:timestamps")
    return {"z": z, "stored": stored, "P": P, "o": o, "relation": relation, "unit": unit,
            "factor": factor, "fp": fp, "argv": argv, "tool": "ape", "want": want, "want_tol": tol}


def unit_factor(base_unit, unit):
    """exact conversion factor or Refuse(MetricsException)"""
    if not unit:
        return 1.0
    if base_unit is None or (unit in LEN_F) != (base_unit in LEN_F):
        raise pipeline.Refuse("MetricsException", "unit conversion")
    if base_unit == "m":
        return 1.0 / LEN_F[unit]
    if base_unit != unit:
        return 180.0 / PI if unit == "deg" else PI / 180.0
    return 1.0


k_cli = with_workdir(ape_cli)


from vmon import threads as _threads
k_threads = _threads.k_evaluation('ape', 'APE evaluation', 'threads:ape-not-reentrant')


KINDS = {"threads": k_threads, "direct": k_direct, "unequal": k_unequal, "cli": k_cli, "session": k_session, "api": k_api}


def main(run):
    corpus = [{"relation": r, "n": n} for r in RELS for n in (1, 2, 17)]
    for i in run.mine(len(corpus)):
        k_direct(run, run.case("direct", 10**6 + i, **corpus[i]))
    for i in run.mine({"quick": 1500, "thorough": 40000}[run.tier]):
        k_direct(run, run.case("direct", i))
    for i in run.mine({"quick": 12, "thorough": 200}[run.tier]):
        k_threads(run, run.case("threads", i))
    for i in run.mine({"quick": 100, "thorough": 2000}[run.tier]):
        k_unequal(run, run.case("unequal", i))
    for i in run.mine({"quick": 300, "thorough": 6000}[run.tier]):
        k_session(run, run.case("session", i))
    for i in run.mine({"quick": 500, "thorough": 10000}[run.tier]):
        k_api(run, run.case("api", i))
    for i in run.mine({"quick": 400, "thorough": 8000}[run.tier]):
        k_cli(run, run.case("cli", i))
    for i in run.mine({"quick": 8, "thorough": 160}[run.tier]):
        k_cli(run, run.case("cli", 10**6 + i, real=True))
    for i in run.mine({"quick": 6, "thorough": 60}[run.tier]):
        k_cli(run, run.case("cli", 2 * 10**6 + i, exe=True))
    for i in run.mine({"quick": 24, "thorough": 240}[run.tier]):
        g = GROUPS[i % len(GROUPS)]
        k_cli(run, run.case("cli", 3 * 10**6 + i, group=g,
                            force_options=(["align"] if "a" in g else []) + (["scale"] if "s" in g else [])))
    run.need("concurrent rounds: APE evaluation", "ape() on fresh objects == definition on the documented processing", "L3 runs through the real executable", "session: every evaluation == definition on its own associated pair",
             "L2 evaluations with and without projection in one session","APE value == definition applied to its own pose pair", "APE: unequal lengths refused",
             "APE unchanged when ref/est swapped", "APE unchanged under a common rigid motion",
             "APE zero when trajectories coincide", "APE: exactly one value per pose",
             "evo_ape values == definition on the surviving processed pairs",
             "evo_ape: processed positions follow the documented order",
             "evo_ape: surviving pose pairs are the documented ones",
             "stored timestamps are those of the surviving pairs", "L3 refusals agreed")
