"""
C12 - A metric result is self-consistent: statistics, companion arrays, unit.
(a) statistics contracts on the real PE.get_statistic / get_all_statistics / get_result against
extended-precision definitions and the order relations; (b) unit changes over all ordered unit
pairs (exact factors, refusals leave values untouched); (c) companion-array / stored-trajectory
/ title oracle on the result archives of real evo_ape and evo_rpe runs (the pipelines of C01 and
C02 are re-used as workload, their own clauses are not re-judged here).
"""
import math
import os
from fractions import Fraction

import numpy as np

from vmon import core, gen, contracts
from vmon import refmodel as rm
from vmon.props import C01, C02

ANCHORS = ['evo/core/metrics.py', 'evo/core/units.py', 'evo/main_ape.py', 'evo/main_rpe.py', 'evo/core/result.py']
LEVEL = "exploration"
SHARDS = {"quick": 8, "thorough": 16}
RULE = ("(a) error arrays of 1..1e5 (quick) / 1e6 (thorough) values, magnitudes 1e-12..1e6, "
        "constant, single value, heavy-tailed; (b) all 100 ordered unit pairs; (c) evo_ape / "
        "evo_rpe result archives from random option combinations (all relations, delta units, "
        "pairing modes, ratio with skipped zero distances); distinct = digest of the array / "
        "(unit pair) / (inputs, argv); non-trivial = more than one value or a real conversion")
ASSUMPTIONS = ["math.fsum is exact summation", "companion arrays are tied to the trajectories "
               "stored in the same result (interpretation, DESIGN.md C12)"]
PI = math.pi
STAT_KEYS = ["rmse", "mean", "median", "std", "min", "max", "sse"]


def make_errors(rng, tier):
    kind = ["uniform", "constant", "single", "decades", "tiny", "huge", "two"][rng.integers(7)]
    nmax = {"quick": 10**5, "thorough": 10**6}[tier]
    n = int(10**rng.uniform(0, math.log10(nmax)))
    if kind == "single":
        n = 1
    if kind == "two":
        n = 2
    if kind == "constant":
        e = np.full(n, 10.0**rng.uniform(-12, 6))
    elif kind == "decades":
        e = 10.0**rng.uniform(-12, 6, size=n)
    elif kind == "tiny":
        e = rng.random(n) * 1e-12
    elif kind == "huge":
        e = rng.random(n) * 1e6
    else:
        e = rng.random(n) * 10.0**rng.uniform(-3, 3)
    return kind, np.abs(e)


def k_stats(run, case):
    from evo.core import metrics
    rng = run.rng(case)
    kind, e = make_errors(rng, run.tier)
    if "values" in case:
        kind, e = "corpus", np.array(case["values"], dtype=float)
    m = metrics.APE(metrics.PoseRelation.translation_part) if rng.random() < .5 else \
        metrics.RPE(metrics.PoseRelation.translation_part)
    m.error = e.copy()
    want = rm.stats_definition(e)
    got_all = m.get_all_statistics()
    res = m.get_result("r", "e")
    run.seen(case, core.digest(e), nontrivial=len(e) > 1, cls=["stats:" + kind,
                                                             "n~1e%d" % int(math.log10(len(e)))],
             sample={"kind": kind, "n": len(e), "head": e[:4]})
    run.check(core.bits_equal(m.error, e), "statistics leave the error values untouched", case,
              "computing statistics modified the error array", key="stats:modified-error")
    run.check(set(got_all) == set(STAT_KEYS) and set(res.stats) == set(STAT_KEYS),
              "all seven statistics present", case, "statistics keys %s" % sorted(got_all))
    mx = float(np.max(e))
    for k in STAT_KEYS:
        single = m.get_statistic(metrics.StatisticsType[k])
        w = want[k]
        scale = mx * mx * len(e) if k == "sse" else mx
        tol = 1e-10 * scale + 1e-12 * abs(w) + 1e-300
        for src, g in (("get_statistic", single), ("get_all_statistics", got_all.get(k)),
                       ("get_result", res.stats.get(k))):
            run.counters["statistic == definition"] += 1
            if g is None or not abs(float(g) - w) <= tol:
                run.violation("stats:%s-not-definition" % k, "%s(%s) = %r but the definition on the "
                              "error values gives %r (n=%d)" % (src, k, g, w, len(e)), case, head=e[:10])
                return
    g = {k: float(got_all[k]) for k in STAT_KEYS}
    eps = 1e-9 * mx + 1e-300
    run.check(g["min"] <= g["median"] + eps and g["median"] <= g["max"] + eps and
              g["min"] <= g["mean"] + eps and g["mean"] <= g["rmse"] + eps and g["rmse"] <= g["max"] + eps,
              "order relations between the statistics", case, "order relations broken: %r" % g,
              key="stats:order")
    run.check(abs(g["rmse"]**2 - (g["mean"]**2 + g["std"]**2)) <= 1e-9 * (g["rmse"]**2) + 1e-300,
              "rmse^2 == mean^2 + std^2", case, "rmse^2=%r but mean^2+std^2=%r" %
              (g["rmse"]**2, g["mean"]**2 + g["std"]**2), key="stats:pythagoras")
    run.check(core.bits_equal(res.np_arrays["error_array"], e), "result carries the error values", case,
              "error_array of the result differs from the metric's values", key="stats:error-array")


def k_units(run, case):
    from evo.core import metrics
    from evo.core.units import Unit
    rng = run.rng(case)
    units = list(Unit)
    u, v = units[case["u"]], units[case["v"]]
    e = np.abs(rng.normal(size=int(rng.integers(1, 50)))) * 10.0**rng.uniform(-6, 6)
    m = metrics.APE(metrics.PoseRelation.translation_part)
    m.unit = u
    m.error = e.copy()
    # history before the conversion: statistics / results may have been queried already
    primed = bool(rng.random() < .6)
    if primed:
        m.get_all_statistics() if rng.random() < .5 else m.get_statistic(
            list(metrics.StatisticsType)[rng.integers(len(list(metrics.StatisticsType)))])
        if rng.random() < .5:
            m.get_result("r", "e")
    out = contracts.outcome_of(m.change_unit, v)
    F = {Unit.millimeters: Fraction(1, 1000), Unit.centimeters: Fraction(1, 100),
         Unit.meters: Fraction(1), Unit.kilometers: Fraction(1000)}
    run.seen(case, core.digest(u.value, v.value, e), nontrivial=u is not v,
             cls=["units %s -> %s" % (u.value, v.value)], sample={"from": u.value, "to": v.value,
                                                                 "outcome": out[0]})
    if u is v:
        expect, factor = "noop", 1.0
    elif u in F and v in F:
        expect, factor = "ok", float(F[u] / F[v])
    elif u is Unit.radians and v is Unit.degrees:
        expect, factor = "ok", 180.0 / PI
    elif u is Unit.degrees and v is Unit.radians:
        expect, factor = "ok", PI / 180.0
    else:
        expect, factor = "refuse", None
    if expect == "refuse":
        ok = run.check(out[0] == "exc" and isinstance(out[1], metrics.MetricsException),
                       "forbidden conversion refused", case, "conversion %s -> %s was not refused with "
                       "MetricsException: %r" % (u.value, v.value, out[1]), key="units:forbidden-accepted")
        run.check(core.bits_equal(m.error, e) and m.unit is u, "refused conversion leaves values and unit untouched",
                  case, "refused conversion %s -> %s changed the values or the unit" % (u.value, v.value),
                  key="units:refusal-not-clean")
        return
    if not run.check(out[0] == "ok", "permitted conversion succeeds", case, "conversion %s -> %s raised %r" %
                     (u.value, v.value, out[1]), key="units:permitted-refused"):
        return
    want = e * factor
    tol = 4 * np.spacing(np.abs(want))
    run.check(bool(np.all(np.abs(m.error - want) <= tol)), "values multiplied by the exact factor", case,
              "conversion %s -> %s: values are not multiplied by %r (max rel dev %g)" %
              (u.value, v.value, factor, float(np.max(np.abs(m.error - want) / (np.abs(want) + 1e-300)))),
              key="units:wrong-factor")
    run.check(m.unit is v, "unit updated", case, "unit is %s after converting to %s" % (m.unit, v),
              key="units:unit-not-updated")
    r = m.get_result("r", "e")
    # the statistics must follow the converted values, whatever was queried before
    st = rm.stats_definition(want)
    mx = float(np.max(np.abs(want)))
    for k in STAT_KEYS:
        scale = mx * mx * len(want) if k == "sse" else mx
        tolk = 1e-10 * scale + 1e-12 * abs(st[k]) + 1e-300
        for src, g in (("get_statistic", m.get_statistic(metrics.StatisticsType[k])), ("get_result", r.stats.get(k))):
            run.counters["statistics follow the converted values"] += 1
            if g is None or not abs(float(g) - st[k]) <= tolk:
                run.violation("units:stale-statistic-%s" % k, "after converting %s -> %s (statistics queried "
                              "before: %s) %s(%s) = %r but the converted values give %r" %
                              (u.value, v.value, primed, src, k, g, st[k]), case)
                return
    # a second conversion back must reproduce the original values up to rounding
    if expect == "ok" and rng.random() < .5:
        out2 = contracts.outcome_of(m.change_unit, u)
        back = np.asarray(m.error, dtype=float)
        run.check(out2[0] == "ok" and m.unit is u and bool(np.all(np.abs(back - e) <= 8 * np.spacing(np.abs(e)))),
                  "converting back restores the values", case, "round trip %s -> %s -> %s changed the values" %
                  (u.value, v.value, u.value), key="units:roundtrip")
        g = m.get_statistic(metrics.StatisticsType.rmse)
        w = rm.stats_definition(e)["rmse"]
        run.check(abs(g - w) <= 1e-10 * float(np.max(e)) + 1e-12 * w, "statistics follow the values after a second conversion",
                  case, "rmse %r after converting back, the values give %r" % (g, w), key="units:stale-statistic-rmse")
    run.check(("(%s)" % v.value) in r.info["label"] and v.value in r.info["title"],
              "title/label name the unit actually used", case,
              "after conversion label=%r title=%r" % (r.info["label"], r.info["title"]), key="units:label")


REL_TITLE = {"full_transformation": "full transformation", "translation_part": "translation part",
             "rotation_part": "rotation part", "rotation_angle_rad": "rotation angle in radians",
             "rotation_angle_deg": "rotation angle in degrees", "point_distance": "point distance",
             "point_distance_error_ratio": "point distance error ratio"}


def judge_archive(run, case, rec):
    z = rec["z"]
    A = z["arrays"]
    e = np.asarray(A["error_array"], dtype=float)
    tool = rec["tool"]
    n = len(e)
    # value k belongs to pose (pair) k: the stored values are the definition's values on the
    # processed poses - when they are those values in another order, the companion arrays and the
    # stored trajectories no longer refer to the pose a value belongs to
    w = rec.get("want")
    if w is not None and np.shape(w) == e.shape and n >= 2 and np.all(np.isfinite(w)) and np.all(np.isfinite(e)):
        # (a claim about the ORDER only: the values agree as a multiset within a generous band,
        # and at least two of them sit far - 100 bands - from the value of their own pose; whether
        # the values are right at all is C01's / C02's question)
        band = 1e-7 * (1.0 + float(np.max(np.abs(w))))
        far = np.abs(e - w) > 100.0 * band
        as_multiset = bool(np.all(np.abs(np.sort(e) - np.sort(w)) <= band))
        run.check(not (as_multiset and int(np.sum(far)) >= 2), "value k is the value of pose k (not the same values in another order)", case,
                  "%s result: the stored error values are those of the processed poses in another order "
                  "(%d of %d values are not at the index of their pose)" % (tool, int(np.sum(far)), n),
                  key="archive:values-not-at-their-pose", argv=rec["argv"])
    if n:
        want = rm.stats_definition(e)
        mx = float(np.max(np.abs(e)))
        for k in STAT_KEYS:
            scale = mx * mx * n if k == "sse" else mx
            run.counters["stored statistic == definition on stored values"] += 1
            if not abs(z["stats"][k] - want[k]) <= 1e-10 * scale + 1e-12 * abs(want[k]) + 1e-300:
                run.violation("archive:stat-%s" % k, "%s result: stored %s=%r but the stored values "
                              "give %r" % (tool, k, z["stats"][k], want[k]), case, argv=rec["argv"])
                return
    # title / label
    info = z["info"]
    unit = rec["unit"] or {"m": "m", "deg": "deg", "rad": "rad", None: "unit-less", "%": "%"}[
        (C02.UNIT_OF if tool == "rpe" else C01.UNIT_OF)[rec["relation"]]]
    run.check(tool.upper() in info["title"] and REL_TITLE[rec["relation"]] in info["title"] and
              ("(%s)" % unit) in info["title"] and info["label"] == "%s (%s)" % (tool.upper(), unit),
              "title/label name metric, relation and unit", case,
              "title %r / label %r do not name %s, %r and unit %r" %
              (info["title"], info["label"], tool.upper(), REL_TITLE[rec["relation"]], unit),
              key="archive:title-label", argv=rec["argv"])
    stored = rec["stored"]
    if stored is None:
        return
    ref_s, est_s = stored
    if tool == "rpe":
        proc_ref, proc_est = rec["processed"]
        ids = [0] + [j for i, j in rec["surv"]]
        ok = ref_s.n == len(ids) and est_s.n == len(ids)
        if ok:
            mag = 1.0 + float(np.max(np.abs(proc_est.p))) + float(np.max(np.abs(proc_ref.p)))
            ok = float(np.max(np.abs(est_s.p - proc_est.p[ids]))) <= 1e-9 * mag and \
                float(np.max(np.abs(ref_s.p - proc_ref.p[ids]))) <= 1e-9 * mag and \
                float(np.max(np.abs(est_s.R - proc_est.R[ids]))) <= 1e-9
            if ok and proc_est.t is not None:
                ok = core.bits_equal(est_s.t, proc_est.t[ids]) and core.bits_equal(ref_s.t, proc_ref.t[ids])
        run.check(ok, "RPE: stored trajectories are the processed ones restricted to first pose + pair ends",
                  case, "stored trajectories (%d/%d poses) are not the processed trajectories reduced to "
                  "[0] + pair end indices (%d)" % (ref_s.n, est_s.n, len(ids)),
                  key="archive:rpe-stored-trajectories", argv=rec["argv"])
        if not ok:
            return
        off = 1
    else:
        off = 0
    if est_s.t is None:
        run.hit("archive without timestamps (kitti): no companion arrays expected")
        run.check(not any(k in A for k in ("timestamps", "seconds_from_start")),
                  "no time companion arrays without timestamps", case, "time arrays present for a path")
        return
    for name in ("timestamps", "seconds_from_start", "distances_from_start", "distances"):
        if not run.check(name in A and np.asarray(A[name]).shape == (n, ),
                         "companion array has one entry per error value", case,
                         "%s has shape %s for %d error values" %
                         (name, np.asarray(A.get(name, [])).shape, n),
                         key="archive:companion-length", argv=rec["argv"]):
            return
    ts = np.asarray(A["timestamps"], dtype=float)
    run.check(core.bits_equal(ts, est_s.t[off:]), "timestamps refer to the pose the value belongs to", case,
              "timestamps[k] is not the stamp of the pose (pair end pose) of value k",
              key="archive:timestamps", argv=rec["argv"])
    sfs = np.asarray(A["seconds_from_start"], dtype=float)
    run.check(bool(np.all(np.abs(sfs - (est_s.t[off:] - est_s.t[0])) <= 4 * np.spacing(np.abs(est_s.t[off:])))),
              "seconds_from_start = stamp - first stamp", case, "seconds_from_start is off",
              key="archive:seconds", argv=rec["argv"])
    mag = 1.0 + float(np.max(np.abs(ref_s.p))) + float(np.max(np.abs(est_s.p)))
    dref, dest = rm.cumdist(ref_s.p)[off:], rm.cumdist(est_s.p)[off:]
    tol = 1e-9 * mag * max(1, n)
    run.check(bool(np.all(np.abs(np.asarray(A["distances_from_start"]) - dref) <= tol)),
              "distances_from_start = accumulated reference distance at that pose", case,
              "distances_from_start does not refer to the pose of each value", key="archive:distances",
              argv=rec["argv"])
    run.check(bool(np.all(np.abs(np.asarray(A["distances"]) - dest) <= tol)),
              "distances = accumulated estimate distance at that pose", case,
              "distances does not refer to the pose of each value", key="archive:distances", argv=rec["argv"])


def judge_result_object(run, case, res, what):
    """self-consistency of an in-memory Result (the clauses of judge_archive that need no files)"""
    A = res.np_arrays
    e = np.asarray(A["error_array"], dtype=float)
    bad_shape = [k for k, v in A.items() if k != "alignment_transformation_sim3" and np.asarray(v).ndim != 1]
    if not run.check(not bad_shape, "value and companion arrays are one-dimensional (one entry per value)", case,
                     "%s: arrays %s are not one-dimensional (shapes %s)" %
                     (what, bad_shape, [np.asarray(A[k]).shape for k in bad_shape]), key="session:array-shape"):
        return False
    n = len(e)
    if n:
        want = rm.stats_definition(e)
        mx = float(np.max(np.abs(e)))
        for k in STAT_KEYS:
            scale = mx * mx * n if k == "sse" else mx
            run.counters["returned statistic == definition on returned values"] += 1
            if not abs(res.stats[k] - want[k]) <= 1e-10 * scale + 1e-12 * abs(want[k]) + 1e-300:
                run.violation("session:stat-%s" % k, "%s: %s=%r but the values give %r" % (what, k, res.stats[k], want[k]), case)
                return False
    ok = True
    order = list(res.trajectories)
    if set(order) == {"reference", "estimate"}:
        order = ["reference", "estimate"]  # (an archive lists its members in its own order)
    if "timestamps" in A and len(res.trajectories) == 2:
        est_tr = res.trajectories[order[1]]
        ok &= run.check(hasattr(est_tr, "timestamps"), "a result with a timestamps array stores its estimate with stamps", case,
                        "%s: the result has a timestamps array but the stored estimate has no timestamps" % what,
                        key="session:stored-estimate-without-stamps")
    for name, tr in res.trajectories.items():
        v = contracts.views_consistent(run, case, tr, pfx="stored trajectory views", key="session:stored-trajectory-inconsistent")
        if "t" in v and name != order[0]:
            off = len(v["t"]) - n
            ok &= run.check(off in (0, 1) and "timestamps" in A and core.bits_equal(np.asarray(A["timestamps"], dtype=float), v["t"][off:]),
                            "returned timestamps are those of the stored estimate", case,
                            "%s: timestamps array does not match the stored estimate" % what, key="session:timestamps")
            if off in (0, 1) and "seconds_from_start" in A and len(v["t"]):
                sfs = np.asarray(A["seconds_from_start"], dtype=float)
                want_s = v["t"][off:] - v["t"][0]
                ok &= run.check(sfs.shape == want_s.shape and bool(np.all(np.abs(sfs - want_s) <= 4 * np.spacing(np.abs(v["t"][off:])))),
                                "seconds_from_start = stamp of the value's pose - stamp of the first pose", case,
                                "%s: seconds_from_start is not measured from the first pose of the stored estimate" % what,
                                key="session:seconds")
    names = order
    if len(names) == 2 and "distances" in A and "distances_from_start" in A:
        vr, ve = gen.read_views(res.trajectories[names[0]]), gen.read_views(res.trajectories[names[1]])
        off = len(ve["p"]) - n
        if off in (0, 1) and len(vr["p"]) == len(ve["p"]):
            mag = 1.0 + float(np.max(np.abs(vr["p"]))) + float(np.max(np.abs(ve["p"])))
            tol = 1e-9 * mag * max(1, n)
            dref, dest = rm.cumdist(vr["p"])[off:], rm.cumdist(ve["p"])[off:]
            ok &= run.check(bool(np.all(np.abs(np.asarray(A["distances_from_start"], dtype=float) - dref) <= tol)) and
                            bool(np.all(np.abs(np.asarray(A["distances"], dtype=float) - dest) <= tol)),
                            "returned distance arrays follow from the stored trajectories", case,
                            "%s: distances / distances_from_start are not the accumulated distances along the "
                            "stored (processed) trajectories (max deviation %g / %g)" %
                            (what, float(np.max(np.abs(np.asarray(A["distances"], dtype=float) - dest))),
                             float(np.max(np.abs(np.asarray(A["distances_from_start"], dtype=float) - dref)))),
                            key="session:distances")
    return ok


def k_session(run, case):
    """
    Notebook-style session: the same two trajectory objects are evaluated several times with
    main_rpe.rpe(..., support_loop=True) ("avoid overwriting if called repeatedly"), with
    different options (projection and alignment work in place on the caller's objects).  Every
    returned Result must be self-consistent when it is returned and must still be the same,
    self-consistent result after the later evaluations.
    """
    from evo import main_rpe
    from evo.core import metrics
    from evo.core.trajectory import Plane
    from evo.core.units import Unit
    rng = run.rng(case)
    n = int(rng.integers(4, 10) if rng.random() < .4 else rng.integers(6, 50))
    ref = gen.traj_arrays(rng, n, pos_cls=["walk", "circle", "utm"][rng.integers(3)], rot_cls=["smooth", "uniform"][rng.integers(2)],
                          stamp_cls=["small", "epoch"][rng.integers(2)])
    if case.get("long"):
        # a geo-referenced log of more than a thousand poses (map coordinates, 5 cm steps)
        n = int(rng.integers(1100, 1600))
        ref = gen.traj_arrays(rng, n, pos_cls="walk", rot_cls="smooth", stamp_cls="small")
        ref["p"] = np.array([4.5e5, 5.4e6, 300.0]) + np.cumsum(rng.normal(size=(n, 3)) * 0.05, axis=0)
    for k in range(1, n):
        if ref["t"][k] <= ref["t"][k - 1]:
            ref["t"][k] = ref["t"][k - 1] + 1e-3
    if n >= 4 and rng.random() < .15 and not case.get("long"):
        # a late / out-of-order message: the first pose does not carry the smallest stamp
        k = int(rng.integers(1, n))
        ref["t"][0], ref["t"][k] = ref["t"][k], ref["t"][0]
    est = gen.perturbed_estimate(rng, ref, hostile=False)
    stamped = bool(rng.random() < .7)
    mixed = stamped and bool(rng.random() < .15)  # a reference without stamps (pose file) next to a stamped estimate
    t_ref = gen.make_evo(ref, "se3" if rng.random() < .6 else "xyzq", stamped and not mixed, flavour=gen.rand_flavour(rng))
    t_est = gen.make_evo(est, "se3" if rng.random() < .6 else "xyzq", stamped, flavour=gen.rand_flavour(rng))
    gen.age(rng, t_ref, p=.7), gen.age(rng, t_est, p=.7)
    if rng.random() < .5:
        # objects that were already looked at (printed, plotted, evaluated once)
        t_est.distances, t_est.path_length, t_ref.distances, str(t_est)
    results, history = [], []
    n_eval = int(rng.integers(2, 5)) if not case.get("long") else 2
    for j in range(n_eval):
        rel = ["translation_part", "rotation_angle_deg", "full_transformation", "point_distance", "rotation_part"][rng.integers(5)]
        plane = [None, "xy", "xz", "yz"][rng.integers(4)] if j > 0 else None
        du = ["f", "f", "m", "d"][rng.integers(4)] if not case.get("long") else "f"
        path = float(np.sum(np.linalg.norm(np.diff(est["p"], axis=0), axis=1)))
        dl = float(rng.integers(1, max(2, n // 3))) if du == "f" else \
            path / n * float(rng.uniform(0.7, 3)) if du == "m" else float(rng.uniform(5, 60))
        kw = dict(delta=dl, delta_unit={"f": Unit.frames, "m": Unit.meters, "d": Unit.degrees}[du],
                  all_pairs=bool(rng.random() < (.3 if du == "f" else .6)), rel_delta_tol=float([0.1, 0.3, 0.5][rng.integers(3)]),
                  align=bool(rng.random() < .4), correct_scale=bool(rng.random() < .4), support_loop=True,
                  project_to_plane=Plane(plane) if plane else None)
        history.append("%s%s%s" % (rel, " +project " + plane if plane else "", " +align" if kw["align"] or kw["correct_scale"] else ""))
        tool = "rpe" if rng.random() < .6 else "ape"
        history[-1] = tool + ":" + history[-1]
        with core.quiet():
            if tool == "rpe":
                with C02.PairRecorder() as prec:
                    out = contracts.outcome_of(main_rpe.rpe, t_ref, t_est, metrics.PoseRelation[rel], **kw)
                if out[0] == "ok" and len(prec.calls) == 1:
                    # the stored trajectories are the processed ones restricted to first pose + pair ends
                    ids = [0] + [j for (_, j) in prec.calls[0]["pairs"]]
                    names = list(out[1].trajectories)
                    okk = len(names) == 2
                    for nm, src in zip(names, (t_ref, t_est)):
                        got, full = gen.read_views(out[1].trajectories[nm]), gen.read_views(src)
                        okk = okk and len(got["p"]) == len(ids) and core.bits_equal(got["p"], full["p"][ids]) and \
                            (not stamped or "t" not in full or ("t" in got and core.bits_equal(got["t"], full["t"][ids])))
                    run.check(okk, "RPE result stores the processed trajectories restricted to first pose + pair ends", case,
                              "evaluation %d (%s, %s%s): the stored trajectories are not the processed ones at poses %s.." %
                              (j, history[-1], du, " all_pairs" if kw["all_pairs"] else "", ids[:8]),
                              key="session:rpe-stored-trajectories")
            else:
                # ape() works in place on what it is given: the user hands over deep copies of
                # the (already used) objects and keeps the originals
                import copy
                from evo import main_ape
                kwa = {k: v for k, v in kw.items() if k in ("align", "correct_scale", "project_to_plane")}
                out = contracts.outcome_of(main_ape.ape, copy.deepcopy(t_ref), copy.deepcopy(t_est),
                                           metrics.PoseRelation[rel], **kwa)
        if out[0] != "ok":
            run.hit("session step refused (%s)" % type(out[1]).__name__)
            continue
        res = out[1]
        judge_result_object(run, case, res, "evaluation %d (%s)" % (j, history[-1]))
        if rng.random() < .4:
            # the result archived and read back (with its trajectories): still consistent in itself
            import io as _io
            from evo.tools import file_interface as _fi
            buf = _io.BytesIO()
            arch = contracts.outcome_of(_fi.save_res_file, buf, res)
            if arch[0] == "ok":
                buf.seek(0)
                back = contracts.outcome_of(_fi.load_res_file, buf, True)
                if run.check(back[0] == "ok", "an archived result can be read back", case, "load_res_file raised %r" % (back[1], ),
                             key="session:archive-unreadable"):
                    judge_result_object(run, case, back[1], "evaluation %d (%s) after archiving" % (j, history[-1]))
        results.append((j, res, contracts.field_snapshot(res),
                        {k: gen.read_views(tr) for k, tr in res.trajectories.items()}))
    run.seen(case, core.digest(ref["p"], est["p"], history), nontrivial=len(results) > 1,
             cls=["session of %d rpe(support_loop=True) evaluations on the same objects" % n_eval] +
                 (["session with a later projection"] if any("+project" in h for h in history[1:]) else []),
             sample={"n": n, "history": history, "results": len(results)})
    for j, res, snap, views in results[:-1]:
        bad = contracts.snapshot_diff(snap, contracts.field_snapshot(res))
        same = all(core.bits_equal(gen.read_views(tr)[k], views[name][k]) for name, tr in res.trajectories.items() for k in views[name])
        run.check(not bad and same, "an earlier result is unchanged by later evaluations", case,
                  "the result of evaluation %d (%s) changed after the later evaluations %s: %s" %
                  (j, history[j], history[j + 1:], bad or "poses seen through its stored trajectories"),
                  key="session:earlier-result-changed")
        judge_result_object(run, case, res, "evaluation %d re-inspected at the end" % j)


def archive_kind(tool):
    fn = C01.ape_cli if tool == "ape" else C02.rpe_cli

    def inner(run, case, rng, work):
        sub = C01.NullRun(run.tier)
        rec = fn(sub, case, rng, work)
        # the stored trajectories are the processed input poses at their own stamps (judged by the
        # pipeline comparison of the owning check): a result that fails there does not refer to the
        # poses its values belong to
        proc = [f for f in sub.failed if str(f[0]).endswith((":processing-differs", ":wrong-pose-selection"))]
        run.check(not proc, "stored trajectories are the documented processing of the input files", case,
                  "evo_%s result: %s" % (tool, proc[0][1] if proc else ""), key="archive:stored-trajectories-differ-from-inputs")
        run.seen(case, core.digest(case["rs"], tool), nontrivial=rec is not None,
                 cls=["archive:" + tool + (" judged" if rec else " (refused/ambiguous)")],
                 sample={"argv": rec["argv"]} if rec else None)
        if rec is not None:
            judge_archive(run, case, rec)
            run.hit("archives judged: " + tool)
    return C01.with_workdir(inner)


KINDS = {"stats": k_stats, "units": k_units, "session": k_session, "archive_ape": archive_kind("ape"),
         "archive_rpe": archive_kind("rpe")}


def main(run):
    corpus = [[0.0], [1.0], [3.0, 4.0], [1e-12, 1e6], [2.5] * 7, [0.0, 0.0, 0.0], [1, 2, 3, 4], [5, 1, 3]]
    for i in run.mine(len(corpus)):
        k_stats(run, run.case("stats", 10**6 + i, values=corpus[i]))
    for i in run.mine({"quick": 300, "thorough": 3000}[run.tier]):
        k_stats(run, run.case("stats", i))
    reps = {"quick": 2, "thorough": 20}[run.tier]
    for i in run.mine(100 * reps):
        k_units(run, run.case("units", i, u=(i % 100) // 10, v=i % 10))
    run.extra["ordered_unit_pairs_enumerated"] = 100
    for i in run.mine({"quick": 250, "thorough": 4000}[run.tier]):
        k_session(run, run.case("session", i))
    for i in run.mine({"quick": 4, "thorough": 40}[run.tier]):
        k_session(run, run.case("session", 10**6 + i, long=True))
    for i in run.mine({"quick": 350, "thorough": 5000}[run.tier]):
        KINDS["archive_ape"](run, run.case("archive_ape", i))
    for i in run.mine({"quick": 350, "thorough": 5000}[run.tier]):
        KINDS["archive_rpe"](run, run.case("archive_rpe", i))
    run.need("an earlier result is unchanged by later evaluations", "statistic == definition", "order relations between the statistics",
             "rmse^2 == mean^2 + std^2", "forbidden conversion refused",
             "refused conversion leaves values and unit untouched", "values multiplied by the exact factor",
             "statistics follow the converted values",
             "stored statistic == definition on stored values",
             "companion array has one entry per error value",
             "timestamps refer to the pose the value belongs to",
             "RPE: stored trajectories are the processed ones restricted to first pose + pair ends",
             "title/label name metric, relation and unit", "archives judged: ape", "archives judged: rpe")
