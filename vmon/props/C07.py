"""
C07 - Readers/writers follow the published file conventions; malformed files are rejected.
Reader contract: evo's objects vs an independent parse (vmon/refmodel.py parsers written from
the published conventions) of generated well-formed files (comments anywhere, BOM, LF/CRLF,
float literal spellings).  Writer contract: the bytes evo writes are read by the independent
parser to the same poses.  Malformed-file classifier: every defect class placed in every
row/column position up to a bound must raise FileInterfaceException - nothing else, and never
a partially loaded object.
"""
import io
import json
import math
import os
from pathlib import Path

import numpy as np

from vmon import core, gen, contracts
from vmon import refmodel as rm
from vmon.props.C06 import with_work, same_bits, unit_quats

ANCHORS = ['evo/tools/file_interface.py', 'evo/core/trajectory.py']
LEVEL = "exploration"
SHARDS = {"quick": 8, "thorough": 16}
RULE = ("well-formed TUM/KITTI/EuRoC/transform files built by an own writer (1..60 rows, '#' "
        "comment lines anywhere, BOM, LF/CRLF, literal spellings 1 / 1. / .5 / +2.5 / 1e3 / 1E-3 / "
        "-0.0, EuRoC 8..17 columns) and malformed files with the defect (too few/many columns, "
        "trailing delimiter, non-numeric field, blank row, no data rows, wrong delimiter, "
        "compensating column errors; invalid transforms) placed in every row x column position "
        "(bounded); distinct = digest of the file text; non-trivial = at least one data row")
ASSUMPTIONS = ["Python float() is correctly rounded", "inline comments, nan/inf tokens, quoted "
               "fields and double spaces are outside the stated classes and are not generated"]
PI = math.pi


def spell(rng, v):
    """a literal spelling that float() parses to exactly v"""
    r = repr(float(v))
    u = rng.random()
    if u < .5:
        return r
    if float(v).is_integer() and abs(v) < 1e15:
        i = int(v)
        s = ["%d" % i, "%d." % i, "%d.0" % i, "%de0" % i, "%d.000" % i][rng.integers(5)]
        if v == 0 and math.copysign(1, v) < 0:
            s = "-0.0"
        return s
    if u < .6 and v > 0:
        return "+" + r
    if u < .7 and "e" in r:
        return r.replace("e", "E")
    if u < .8 and (r.startswith("0.") or r.startswith("-0.")) and "e" not in r:
        return r.replace("0.", ".", 1)
    if u < .9 and "e" not in r and "." in r:
        return r + "0"
    return r


COMMENTS = ["# header comment x y z", "#comment in the middle 1 2 3", "# trailing comment", "#",
            "# timestamp tx ty tz qx qy qz qw", "#timestamp [ns],p_RS_R_x [m],p_RS_R_y [m]",
            '# note "to be continued', "# it's a comment, with commas, and 'quotes'", '# "quoted" text "twice"',
            "# unicode: \u00fc\u00f6 \u8def\u5f84 \u03c0", "#\ttab\tseparated", "# 1.0 2.0 3.0 4.0 5.0 6.0 7.0 8.0",
            '#,"a,b', "# trailing backslash \\",
            # header texts that look like declarations to other tools (encoding cookies, shebangs, YAML)
            "# orientation encoding: hamilton (qx qy qz qw)", "# quaternion coding=JPL-free", "# -*- coding: latin-1 -*-",
            "#!/usr/bin/env evo_traj", "# %YAML 1.2", "# vim: set fileencoding=utf-16 :"]


def render(rng, rows, delim, eol="\n", comments=True, trailing_newline=True):
    lines = []

    def com():
        return COMMENTS[rng.integers(len(COMMENTS))]

    if comments and rng.random() < .5:
        lines.append(com())
    for row in rows:
        if comments and rng.random() < .1:
            lines.append(com())
        lines.append(delim.join(row))
    if comments and rng.random() < .3:
        lines.append(com())
    text = eol.join(lines)
    return text + (eol if trailing_newline else "")


def file_quats(rng, n):
    """unit quaternions; in a third of the files every row carries only 4..8 decimals, as other
    tools print them (unit to that precision only - the pose is that of the normalised quaternion)"""
    q = unit_quats(rng, n)
    if rng.random() < .33:
        q = np.round(q, int(rng.integers(4, 9)))
        q[~np.any(q, axis=1)] = [1.0, 0.0, 0.0, 0.0]
    return q


def make_rows(rng, fmt, n):
    """returns rows of literal strings and the values they denote"""
    if fmt == "tum":
        t = np.sort(rng.uniform(0, 1e4, size=n)) if rng.random() < .5 else 1.5e9 + np.cumsum(rng.random(n))
        if rng.random() < .1:
            t = 1.4e18 + np.cumsum(rng.integers(10**6, 10**8, size=n)).astype(float)  # integer nanoseconds (the unit is the user's)
        if rng.random() < .12 and n >= 2:
            # rows sharing a stamp (two sensors logged into one file, a repeated last message),
            # rows that are not in chronological order: the convention does not forbid either
            k = int(rng.integers(1, n))
            if rng.random() < .7:
                t[k] = t[k - 1]
            else:
                t[[k - 1, k]] = t[[k, k - 1]]
        p = rng.normal(size=(n, 3)) * 10.0**rng.uniform(-3, 6)
        if rng.random() < .3:
            p = np.round(p)
        q = file_quats(rng, n)  # w x y z
        vals = np.column_stack([t, p, q[:, 1], q[:, 2], q[:, 3], q[:, 0]])
    elif fmt == "kitti":
        p = rng.normal(size=(n, 3)) * 10.0**rng.uniform(-3, 6)
        R = np.array([gen.rand_rot(rng) for _ in range(n)])
        vals = np.array([np.hstack([R[k], p[k].reshape(3, 1)]).reshape(-1) for k in range(n)])
    else:  # euroc
        t = (1.4e18 + np.cumsum(rng.integers(10**6, 10**8, size=n))).astype(np.int64)
        if rng.random() < .12 and n >= 2:
            k = int(rng.integers(1, n))
            t[k] = t[k - 1]  # two rows with the same stamp
        p = rng.normal(size=(n, 3)) * 10.0**rng.uniform(-3, 3)
        q = file_quats(rng, n)
        extra = int(rng.integers(0, 10))
        vals = np.column_stack([t.astype(float), p, q] + [rng.normal(size=n) for _ in range(extra)])
    rows = []
    for k in range(n):
        row = []
        for c, v in enumerate(vals[k]):
            if fmt == "euroc" and c == 0:
                row.append(str(int(t[k])))
            else:
                row.append(spell(rng, v))
        rows.append(row)
    return rows


def read_with_evo(fmt, text, variant, work, name):
    """feed text to evo's reader through a path / Path / handle; returns outcome"""
    from evo.tools import file_interface as fi
    reader = {"tum": fi.read_tum_trajectory_file, "kitti": fi.read_kitti_poses_file,
              "euroc": fi.read_euroc_csv_trajectory}[fmt]
    if variant in ("str", "Path", "bom", "bom+Path"):
        p = os.path.join(work, name)
        data = text.encode("utf-8")
        if variant.startswith("bom"):
            data = b"\xef\xbb\xbf" + data
        with open(p, "wb") as f:
            f.write(data)
        return contracts.outcome_of(reader, Path(p) if variant.endswith("Path") else p)
    if variant == "StringIO":
        return contracts.outcome_of(reader, io.StringIO(text))
    p = os.path.join(work, name)
    with open(p, "w", newline="") as f:
        f.write(text)
    with open(p) as fh:
        return contracts.outcome_of(reader, fh)


def k_read(run, case, rng, work):
    fmt = case.get("fmt") or ["tum", "kitti", "euroc"][rng.integers(3)]
    n = int(rng.integers(1, 6) if rng.random() < .4 else rng.integers(1, {"quick": 60, "thorough": 400}[run.tier]))
    rows = make_rows(rng, fmt, n)
    eol = "\r\n" if rng.random() < .3 else "\n"
    delim = "," if fmt == "euroc" else " "
    text = render(rng, rows, delim, eol, comments=True, trailing_newline=bool(rng.random() < .8))
    variant = ["str", "Path", "bom", "bom+Path", "StringIO", "handle"][rng.integers(6)]
    if fmt == "euroc" and variant in ("StringIO", "handle"):
        variant = "str"
    out = read_with_evo(fmt, text, variant, work, "in.txt")
    run.seen(case, core.digest(text, variant), cls=["read %s via %s" % (fmt, variant), "eol:" + repr(eol)],
             sample={"fmt": fmt, "variant": variant, "first_lines": text.splitlines()[:3]})
    if not run.check(out[0] == "ok", "well-formed file is loaded", case,
                     "well-formed %s file (%s) was rejected: %r" % (fmt, variant, out[1]),
                     key="read:%s-wellformed-rejected" % fmt, text=text[:600]):
        return
    tr = out[1]
    if fmt == "tum":
        t, p, R, q = rm.parse_tum(text)
    elif fmt == "euroc":
        t, p, R, q = rm.parse_euroc(text)
    else:
        p, R = rm.parse_kitti(text)
        t = q = None
    if not run.check(tr.num_poses == len(p), "row count preserved", case, "%d rows loaded as %d poses" %
                     (len(p), tr.num_poses), key="read:%s-rowcount" % fmt, text=text[:600]):
        return
    v = gen.read_views(tr)
    if t is not None:
        if fmt == "euroc":
            good = bool(np.all(np.abs(v["t"] - t) <= 2 * np.spacing(np.abs(t))))
        else:
            good = same_bits(v["t"], t)
        run.check(good, fmt + ": timestamps are the numbers in the file (ns -> s for EuRoC)", case,
                  "timestamps differ from the file", key="read:%s-stamps" % fmt, text=text[:600])
    run.check(same_bits(v["p"], p), fmt + ": positions are the numbers in the file, in the right slots", case,
              "positions differ from the file's numbers", key="read:%s-positions" % fmt, text=text[:600])
    if q is not None:
        run.check(same_bits(v["q"], q), fmt + ": quaternion components in the right slots (w,x,y,z)", case,
                  "quaternion components are not the file's numbers in w,x,y,z order",
                  key="read:%s-quaternion-slots" % fmt, text=text[:600])
    dR = float(np.max(np.abs(v["T"][:, :3, :3] - R)))
    run.check(dR <= 1e-12 if fmt != "kitti" else same_bits(v["T"][:, :3, :3], R),
              fmt + ": rotation follows the convention", case,
              "rotation matrices differ from the convention by %g" % dR, key="read:%s-rotation" % fmt,
              text=text[:600])


def k_write(run, case, rng, work):
    from evo.tools import file_interface as fi
    from vmon.props import C06
    fmt = ["tum", "kitti"][rng.integers(2)]
    n = int(rng.integers(1, 80))
    mode = "se3" if rng.random() < .5 else "xyzq"
    tr = C06.make_traj(rng, n, ["random17", "ordinary", "epoch", "integers"][rng.integers(4)], mode,
                       stamped=(fmt == "tum"))
    dt = "float64"
    if rng.random() < .3:
        # positions as an API user may hand them over: integer way-point grid or float32
        from evo.core.trajectory import PosePath3D, PoseTrajectory3D
        dt = "int" if rng.random() < .5 else "float32"
        q = unit_quats(rng, n)
        p = (rng.integers(-1000, 1000, size=(n, 3)).tolist() if dt == "int" else
             (rng.normal(size=(n, 3)) * 100).astype(np.float32))
        t = 1.3e9 + np.cumsum(rng.random(n) + 0.01)
        tr = PoseTrajectory3D(p, q, t) if fmt == "tum" else PosePath3D(p, q)
        mode = "xyzq"
    given = gen.read_views(tr)
    writer = fi.write_tum_trajectory_file if fmt == "tum" else fi.write_kitti_poses_file
    target = ["StringIO", "StringIO", "new file", "existing longer file", "existing longer file, confirmed with y"][rng.integers(5)]
    if target == "StringIO":
        buf = io.StringIO()
        writer(buf, tr)
        text = buf.getvalue()
    else:
        from vmon import cli
        path = os.path.join(work, "w.%s" % fmt)
        if target != "new file":
            # the target holds an older, longer export
            old = C06.make_traj(rng, n + int(rng.integers(1, 30)), "random17", "xyzq", stamped=(fmt == "tum"))
            writer(path, old)
        if target.endswith("y"):
            with cli.scripted_input(["y"] * 5, []):
                writer(path if rng.random() < .5 else Path(path), tr, confirm_overwrite=True)
        else:
            writer(path if rng.random() < .5 else Path(path), tr)
        text = open(path, newline="").read()
    run.seen(case, core.digest(text), cls=["write " + fmt, "written positions dtype:" + dt, "write target: " + target],
             sample={"fmt": fmt, "dtype": dt, "first_line": text.splitlines()[0][:200]})
    try:
        if fmt == "tum":
            t, p, R, q = rm.parse_tum(text)
        else:
            p, R = rm.parse_kitti(text)
    except rm.ParseError as e:
        run.check(False, "evo's output follows the convention", case, "independent parser rejects evo's "
                  "%s output: %s" % (fmt, e), key="write:%s-unparseable" % fmt, text=text[:400])
        return
    lines = [ln for ln in text.split("\n") if ln]
    run.check(len(lines) == n and all(len(ln.split(" ")) == (8 if fmt == "tum" else 12) for ln in lines),
              "written file: one row per pose, convention's column count", case,
              "written %s file has %d lines for %d poses" % (fmt, len(lines), n), key="write:%s-shape" % fmt)
    if fmt == "tum":
        good = same_bits(t, given["t"]) and same_bits(p, given["p"]) and same_bits(q, given["q"])
        run.check(good, "written TUM file read by the independent parser gives the same poses", case,
                  "TUM bytes written by evo denote other numbers / other slots than the trajectory",
                  key="write:tum-convention", text=text[:400])
        dR = float(np.max(np.abs(R - given["T"][:, :3, :3])))
        run.check(dR <= 1e-12, "written quaternion denotes the trajectory's rotation", case,
                  "quaternion written to the TUM file denotes a rotation %g away" % dR,
                  key="write:tum-rotation")
    else:
        good = same_bits(p, given["p"]) and same_bits(R, given["T"][:, :3, :3])
        run.check(good, "written KITTI file read by the independent parser gives the same poses", case,
                  "KITTI bytes written by evo are not the row-major 3x4 matrices", key="write:kitti-convention",
                  text=text[:400])


def k_write_archive(run, case, rng, work):
    """trajectory files embedded in a result archive: each member is read by the independent
    parser and must hold exactly the poses of its trajectory (several trajectories of different
    lengths in one archive, stamped ones as TUM, paths as KITTI members)"""
    import zipfile
    from evo.core.result import Result
    from evo.tools import file_interface as fi
    from vmon.props import C06
    r = Result()
    r.info = {"title": "t", "label": "l"}
    r.stats = {"rmse": 1.0}
    r.np_arrays = {"error_array": rng.normal(size=5)}
    m = int(rng.integers(2, 5))
    given = {}
    for k in range(m):
        n = int(rng.integers(1, 60))
        stamped = bool(rng.random() < .6)
        tr = C06.make_traj(rng, n, ["random17", "ordinary", "epoch", "integers"][rng.integers(4)],
                           "se3" if rng.random() < .5 else "xyzq", stamped=stamped)
        name = "traj_%d" % k
        r.add_trajectory(name, tr)
        given[name] = (stamped, gen.read_views(tr))
    target = io.BytesIO() if rng.random() < .5 else os.path.join(work, "res.zip")
    fi.save_res_file(target, r)
    data = target.getvalue() if isinstance(target, io.BytesIO) else open(target, "rb").read()
    run.seen(case, core.digest(data), cls=["write result archive with %d embedded trajectories" % m],
             sample={"lengths": [len(v[1]["p"]) for v in given.values()], "stamped": [v[0] for v in given.values()]})
    with zipfile.ZipFile(io.BytesIO(data)) as z:
        names = z.namelist()
        for name, (stamped, v) in given.items():
            member = name + (".tum" if stamped else ".kitti")
            if not run.check(member in names, "embedded trajectory member present", case,
                             "member %s missing from the archive (%s)" % (member, names), key="write:archive-member"):
                continue
            text = z.read(member).decode()
            try:
                if stamped:
                    t, p, R, q = rm.parse_tum(text)
                    good = same_bits(t, v["t"]) and same_bits(p, v["p"]) and same_bits(q, v["q"])
                else:
                    p, R = rm.parse_kitti(text)
                    good = same_bits(p, v["p"]) and same_bits(R, v["T"][:, :3, :3])
            except rm.ParseError as e:
                run.check(False, "evo's output follows the convention", case, "independent parser rejects the archive "
                          "member %s: %s" % (member, e), key="write:archive-unparseable", text=text[-300:])
                continue
            run.check(good, "embedded trajectory file read by the independent parser gives the same poses", case,
                      "archive member %s (%d rows) does not denote the %d poses of its trajectory" %
                      (member, len(p), len(v["p"])), key="write:archive-convention")


DEFECTS = ["too_few", "too_many", "trailing_delim", "non_numeric", "blank_middle", "blank_end",
           "no_rows", "wrong_delim", "compensating", "empty_field"]


def inject(rng, rows, delim, defect, r, c):
    """returns malformed text (defect at row r / column c)"""
    rows = [list(x) for x in rows]
    eol = "\n"
    if defect == "too_few":
        del rows[r][c]
    elif defect == "too_many":
        rows[r].insert(c, "1.5")
    elif defect == "trailing_delim":
        rows[r][-1] = rows[r][-1] + delim
    elif defect == "non_numeric":
        rows[r][c] = ["abc", "1.0.0", "1,5" if delim == " " else "1;5", "--1", "0x10"][rng.integers(5)]
    elif defect == "empty_field":
        rows[r][c] = ""
    elif defect == "blank_middle":
        rows.insert(max(1, r), None)
    elif defect == "blank_end":
        rows.append(None)
    elif defect == "no_rows":
        rows = []
    elif defect == "wrong_delim":
        other = "," if delim == " " else " "
        return eol.join(other.join(x) for x in rows) + eol
    elif defect == "compensating":
        r2 = (r + 1 + int(rng.integers(max(1, len(rows) - 1)))) % len(rows)
        if r2 == r or r == 0 or r2 == 0:
            r, r2 = (1, 2) if len(rows) > 2 else (r, r2)
        rows[r].insert(c, "2.5")
        del rows[r2][min(c, len(rows[r2]) - 1)]
    lines = ["# comment"] if defect == "no_rows" and rng.random() < .5 else []
    for x in rows:
        lines.append("" if x is None else delim.join(x))
    if defect == "blank_end":
        return eol.join(lines) + eol
    return eol.join(lines) + (eol if lines else "")


def k_malformed(run, case, rng, work):
    from evo.tools.file_interface import FileInterfaceException
    fmt = case["fmt"]
    defect = case["defect"]
    n = case["n"]
    rows = make_rows(rng, fmt, n)
    if fmt == "euroc":
        rows = [x[:8] for x in rows] if defect in ("too_few", ) else rows
    delim = "," if fmt == "euroc" else " "
    r, c = case["r"] % n, case["c"] % len(rows[0])
    if defect == "compensating" and n < 3:
        n = 3
        rows = make_rows(rng, fmt, n)
        r = 1
    if fmt == "euroc" and defect == "too_many":
        # more than 8 columns are part of the EuRoC convention: make the rows ragged instead
        pass
    text = inject(rng, rows, delim, defect, r, c)
    variant = ["str", "StringIO", "Path"][case["rs"][-1] % 3]
    if fmt == "euroc" and variant == "StringIO":
        variant = "str"
    out = read_with_evo(fmt, text, variant, work, "bad.txt")
    run.seen(case, core.digest(text, variant), cls=["malformed %s: %s" % (fmt, defect)],
             sample={"fmt": fmt, "defect": defect, "row": r, "col": c, "text_head": text.splitlines()[:3]})
    # EuRoC accepts >= 8 columns if all rows agree: a uniformly wider file is well-formed
    key = "malformed:%s-%s-accepted" % (fmt, defect)
    if out[0] == "ok":
        run.check(False, "malformed file rejected", case,
                  "malformed %s file (%s at row %d, column %d) was loaded (%d poses) instead of being "
                  "rejected" % (fmt, defect, r, c, out[1].num_poses), key=key, text=text[:700])
        return
    run.check(isinstance(out[1], FileInterfaceException), "malformed file rejected with FileInterfaceException",
              case, "malformed %s file (%s) raised %s: %s" % (fmt, defect, type(out[1]).__name__, out[1]),
              key="malformed:%s-%s-wrong-exception" % (fmt, defect), text=text[:700])
    run.counters["malformed file rejected"] += 1


def k_transform(run, case, rng, work):
    from evo.tools import file_interface as fi
    from evo.tools.file_interface import FileInterfaceException
    kind = case["tkind"]
    form = case["form"]
    R = gen.rand_rot(rng)
    t = rng.normal(size=3) * 10.0**rng.uniform(-2, 4)
    if rng.random() < .15:
        t = np.zeros(3)  # a pure rotation (/ scaling) about the origin
    u = rng.random()
    s = 1.0 if u < .3 else 10.0**(rng.uniform(-2, 2) if u < .65 else rng.uniform(-6, 6))
    M = np.eye(4)
    M[:3, :3] = s * R
    M[:3, 3] = t
    valid = True
    if kind == "reflection":
        M[:3, :3] = s * (R @ np.diag([1, 1, -1.0]))
        valid = False
    elif kind == "shear":
        # a skew of 1e-3..1 between two axes (1000x evo's own tolerance of 1e-6 and more), applied
        # on either side of the rotation: right (columns stay unit) or left (rows stay unit)
        Sh = np.eye(3)
        i, j = [(0, 1), (1, 2), (2, 0), (1, 0)][rng.integers(4)]
        Sh[i, j] = 10.0**rng.uniform(-3, 0) * (1 if rng.random() < .5 else -1)
        M[:3, :3] = s * (R @ Sh) if rng.random() < .5 else s * (Sh @ R)
        valid = False
    elif kind == "bottom_row":
        if rng.random() < .5:
            M[3, rng.integers(4)] += 10.0**rng.uniform(-6, 0)
        else:
            # several wrong entries at once (also ones that cancel in a sum)
            d = 10.0**rng.uniform(-12, 1)
            M[3, :3] = [[d, -d, 0.0], [d, d, -2 * d], [0.0, d, -d], [-d, 0.0, d]][rng.integers(4)]
        valid = False
    elif kind == "zero":
        M[:3, :3] = 0
        valid = False
    elif kind == "shape":
        M = [M[:3, :], M[:, :3], np.eye(5), np.eye(3)][rng.integers(4)]
        valid = False
    path = os.path.join(work, "tf." + {"npy": "npy", "txt": "txt", "json": "json"}[form])
    if form == "npy":
        np.save(path, M)
    elif form == "txt":
        form = "txt/" + gen.save_matrix_text(rng, path, M) if np.asarray(M).ndim == 2 else (np.savetxt(path, M), "txt")[1]
    else:
        q = rm.quat_wxyz_from_rot(R)
        if rng.random() < .35:
            # a hand-written file: quaternion components rounded to 3..5 decimals (the rotation is
            # that of the normalised quaternion)
            q = np.round(q, int(rng.integers(3, 6)))
            if not np.any(q):
                q = np.array([1.0, 0.0, 0.0, 0.0])
            R = rm.rot_from_quat_wxyz(q)
        d = {"x": float(t[0]), "y": float(t[1]), "z": float(t[2]), "qw": float(q[0]), "qx": float(q[1]),
             "qy": float(q[2]), "qz": float(q[3])}
        if s != 1.0 or rng.random() < .3:
            d["scale"] = float(s)
        if kind == "json_missing_key":
            d.pop(["x", "qw", "qz", "y"][rng.integers(4)])
            valid = False
        elif kind == "json_bad_scale":
            d["scale"] = [0.0, -1.0, -0.5][rng.integers(3)]
            valid = False
        elif kind != "valid":
            return  # matrix defects cannot be expressed in the JSON form
        M = np.eye(4)
        M[:3, :3] = s * R
        M[:3, 3] = t
        open(path, "w").write(json.dumps(d, indent=rng.integers(0, 3) or None))
    out = contracts.outcome_of(fi.load_transform, path if rng.random() < .5 else Path(path))
    run.seen(case, core.digest(np.asarray(M), form, kind), cls=["transform %s: %s" % (form, kind)],
             sample={"form": form, "kind": kind, "scale": s})
    if valid:
        if not run.check(out[0] == "ok", "valid transform loaded", case, "valid %s transform (scale %r) "
                         "rejected: %r" % (form, s, out[1]), key="transform:valid-rejected"):
            return
        got = np.asarray(out[1], dtype=float)
        if form == "json":
            good = got.shape == (4, 4) and float(np.max(np.abs(got[:3, :3] - s * R))) <= 1e-12 * max(s, 1) \
                and same_bits(got[:3, 3], t) and np.array_equal(got[3], [0, 0, 0, 1])
        else:
            good = same_bits(got, M)
        run.check(good, "transform loaded to exactly the numbers in the file", case,
                  "loaded transform differs from the file (%s)" % form, key="transform:wrong-numbers")
    else:
        ok = run.check(out[0] == "exc", "invalid transform rejected", case,
                       "invalid transform (%s, %s) was loaded" % (kind, form), key="transform:%s-accepted" % kind)
        if ok:
            run.check(isinstance(out[1], FileInterfaceException), "invalid transform rejected with "
                      "FileInterfaceException", case, "invalid transform (%s, %s) raised %s: %s" %
                      (kind, form, type(out[1]).__name__, out[1]), key="transform:%s-wrong-exception" % kind)


def k_cli(run, case):
    """
    The same conventions through the command line: evo_traj <tum|kitti|euroc> with and without a
    --ref file of the same format, and evo_ape / evo_rpe on EuRoC pairs; every file named on the
    command line must be read with the reader of the sub-command's format (C15's / C01's workload
    executors; exports and stored values judged against the numbers written to the files).
    """
    if case.get("tool") == "ape":
        from vmon.props import C01
        C01.k_cli(run, case)
    else:
        from vmon.props import C15
        C15.k_cli(run, case)
    run.hit("command-line runs per file format judged")


KINDS = {"cli": k_cli, "read": with_work(k_read), "write": with_work(k_write), "malformed": with_work(k_malformed),
         "transform": with_work(k_transform), "write_archive": with_work(k_write_archive)}


def main(run):
    for i in run.mine({"quick": 600, "thorough": 15000}[run.tier]):
        KINDS["read"](run, run.case("read", i))
    for i in run.mine({"quick": 200, "thorough": 5000}[run.tier]):
        KINDS["write"](run, run.case("write", i))
    for i in run.mine({"quick": 64, "thorough": 1200}[run.tier]):
        if i % 8 == 7:
            k_cli(run, run.case("cli", i, tool="ape", fmt="euroc"))
        else:
            # (for pose files without stamps nothing pairs the poses up unless an alignment is asked for)
            fmt = ["tum", "kitti", "euroc", "kitti"][i % 4]
            force = {"use_ref": (i // 4) % 3 != 2}
            if fmt == "kitti":
                force.update({"align": False, "correct_scale": False})
            k_cli(run, run.case("cli", i, fmt=fmt, force=force, unequal=True, odd_names=(i % 5 == 1)))
    for i in run.mine({"quick": 16, "thorough": 160}[run.tier]):
        # TUM estimates that start with free-text comment lines (commas, colons, quotes) in every format's sub-command
        k_cli(run, run.case("cli", 10**6 + i, tool="ape", fmt=["euroc", "tum"][i % 4 == 3], header_comment=True))
    for i in run.mine({"quick": 120, "thorough": 3000}[run.tier]):
        KINDS["write_archive"](run, run.case("write_archive", i))
    # malformed: defect x format x every row/column position of small files
    cells = []
    nrows = {"quick": (1, 3), "thorough": (1, 2, 3, 5)}[run.tier]
    for fmt, ncol in (("tum", 8), ("kitti", 12), ("euroc", 8)):
        for defect in DEFECTS:
            if fmt == "euroc" and defect in ("too_many", "trailing_delim", "wrong_delim"):
                # EuRoC permits additional columns (incl. an empty trailing one is outside the classes)
                if defect != "wrong_delim":
                    continue
            for n in nrows:
                rs = range(n) if defect not in ("no_rows", "wrong_delim", "blank_end") else [0]
                cs = range(ncol) if defect in ("too_few", "too_many", "non_numeric", "empty_field", "compensating") else [0]
                for r in rs:
                    for c in cs:
                        cells.append({"fmt": fmt, "defect": defect, "n": n, "r": r, "c": c})
    for i in run.mine(len(cells)):
        KINDS["malformed"](run, run.case("malformed", i, **cells[i]))
    run.extra["malformed_cells_enumerated"] = len(cells)
    tcells = [{"tkind": k, "form": f} for k in ("valid", "reflection", "shear", "bottom_row", "zero", "shape",
                                                "json_missing_key", "json_bad_scale")
              for f in ("npy", "txt", "json")
              if not (k.startswith("json") and f != "json")]
    reps = {"quick": 30, "thorough": 300}[run.tier]
    for i in run.mine(len(tcells) * reps):
        KINDS["transform"](run, run.case("transform", i, **tcells[i % len(tcells)]))
    run.need("embedded trajectory file read by the independent parser gives the same poses", "well-formed file is loaded", "tum: quaternion components in the right slots (w,x,y,z)",
             "euroc: quaternion components in the right slots (w,x,y,z)",
             "kitti: rotation follows the convention", "euroc: timestamps are the numbers in the file (ns -> s for EuRoC)",
             "written TUM file read by the independent parser gives the same poses",
             "written KITTI file read by the independent parser gives the same poses",
             "malformed file rejected", "valid transform loaded", "invalid transform rejected",
             "transform loaded to exactly the numbers in the file")
