"""
C16 - Computations do not modify their inputs or other trajectory objects.
(a) argument-immutability monitor: bit-level snapshots of every argument object before/after
each public computing / writing / plotting function of evo.core and evo.tools.
(b) independence monitor: derive B from A (copy, association, split parts, merge, DataFrame
round trip), mutate one of them with every mutating operation (incl. the in-place ones) and
re-inspect the other against twin objects built from the same generating arrays.
"""
import copy
import io
import math
import os

import numpy as np

from vmon import core, gen, contracts
from vmon import refmodel as rm

ANCHORS = ['evo/core/sync.py', 'evo/core/trajectory.py', 'evo/core/metrics.py', 'evo/core/result.py', 'evo/tools/file_interface.py', 'evo/tools/pandas_bridge.py']
LEVEL = "exploration"
SHARDS = {"quick": 8, "thorough": 16}
RULE = ("(a) each listed function called on freshly generated valid arguments in both storage "
        "modes with/without pre-materialised caches; (b) two-step histories derive -> mutate -> "
        "re-inspect over {deepcopy, associate, split_time/distance/speed, merge, DataFrame} x "
        "{transform, right transform, propagate, scale, project, reduce, downsample, motion "
        "filter, crop, align, align_origin, stamps +=} in both directions; distinct = digest of "
        "(inputs, function / derivation, mutator); non-trivial = always (every case mutates or "
        "computes)")
ASSUMPTIONS = ["lazily created caches may appear on an argument; fields that existed must stay "
               "bit-identical", "ape()/rpe() are documented to process their arguments in place "
               "and are outside this monitor"]
PI = math.pi


def fresh(rng, n=None, stamped=True, mode=None, materialise=None):
    n = n or int(rng.integers(2, 40))
    arr = gen.traj_arrays(rng, n, stamp_cls=["small", "epoch", "dyadic"][rng.integers(3)])
    for k in range(1, n):
        if arr["t"][k] <= arr["t"][k - 1]:
            arr["t"][k] = arr["t"][k - 1] + 1e-3
    mode = mode or ("se3" if rng.random() < .5 else "xyzq")
    arr["flavour"] = gen.rand_flavour(rng)
    tr = gen.make_evo(arr, mode, stamped, flavour=arr["flavour"])
    if materialise if materialise is not None else (rng.random() < .5):
        tr.poses_se3, tr.positions_xyz, tr.orientations_quat_wxyz
    elif materialise is None:
        gen.age(rng, tr)
    return tr, arr, mode


def guarded(run, case, fname, args_named, fn):
    """snapshot the named argument objects, call fn(), compare"""
    snaps = {k: contracts.field_snapshot(v) if hasattr(v, "__dict__") else
             ("raw", _raw(v)) for k, v in args_named.items()}
    with core.quiet():
        out = contracts.outcome_of(fn)
    for k, v in args_named.items():
        after = contracts.field_snapshot(v) if hasattr(v, "__dict__") else ("raw", _raw(v))
        run.counters["argument unchanged after " + fname] += 1
        if isinstance(snaps[k], dict):
            bad = contracts.snapshot_diff(snaps[k], after)
        else:
            bad = [] if snaps[k] == after else [k]
        if bad:
            run.violation("argument-modified:" + fname, "%s modified its argument '%s' (%s)" %
                          (fname, k, bad), case, function=fname)
    if out[0] == "exc":
        run.hit("call raised (argument still checked): %s: %s" % (fname, type(out[1]).__name__))
    return out


def _raw(v):
    if isinstance(v, np.ndarray):
        return (v.shape, str(v.dtype), v.tobytes())
    if isinstance(v, (list, tuple)):
        return tuple(_raw(x) for x in v)
    if isinstance(v, dict):
        return tuple((k, _raw(x)) for k, x in v.items())
    try:
        import pandas as pd
        if isinstance(v, pd.DataFrame):
            return (tuple(v.columns), v.index.to_numpy().tobytes(), v.to_numpy().tobytes())
    except Exception:
        pass
    return repr(v)


def k_args(run, case):
    from evo.core import metrics, sync, filters, trajectory, result as result_mod, geometry
    from evo.core.units import Unit
    from evo.tools import file_interface, pandas_bridge
    rng = run.rng(case)
    fname = case["f"]
    work = os.environ.get("VMON_WORK", ".")
    A, arrA, mA = fresh(rng)
    B, arrB, mB = fresh(rng, n=len(arrA["p"]))
    run.seen(case, core.digest(arrA["p"], arrB["p"], fname, case["rs"]), cls=["args:" + fname, "storage:" + mA],
             sample={"function": fname, "n": len(arrA["p"]), "storage": mA})
    rel = list(metrics.PoseRelation)[rng.integers(7)]
    if fname in ("APE.process_data", "RPE.process_data") and not case.get("nonfinite") and rng.random() < .35:
        # odometry that starts at the origin (first pose exactly the identity), a reference resting
        # at its first pose for a while; the values are converted to another length unit afterwards
        arrB["p"] = arrB["p"] - arrB["p"][0]
        arrB["R"] = np.array([arrB["R"][0].T @ Rk for Rk in arrB["R"]])
        arrB["p"][0], arrB["R"][0] = 0.0, np.eye(3)
        B = gen.make_evo(arrB, mB, flavour="array64")
        if rng.random() < .6 and len(arrA["p"]) > 2:
            # the reference starts at the origin as well and rests there for the first step
            arrA["p"] = arrA["p"] - arrA["p"][0]
            arrA["R"] = np.array([arrA["R"][0].T @ Rk for Rk in arrA["R"]])
            arrA["p"][0], arrA["R"][0] = 0.0, np.eye(3)
            arrA["p"][1], arrA["R"][1] = 0.0, np.eye(3)
            A = gen.make_evo(arrA, mA, flavour="array64")
        rel = [metrics.PoseRelation.translation_part, metrics.PoseRelation.full_transformation][rng.integers(2)]
    elif fname in ("APE.process_data", "RPE.process_data") and (case.get("nonfinite") or rng.random() < .2) and len(arrB["p"]) > 3:
        # rows without a position, as some systems log them while tracking is lost (NaN) or after
        # an overflow (inf): in the estimate, the reference or both; whatever the metric makes of
        # them, the trajectories handed in stay as they are
        who = int(rng.integers(3))
        for arr_, lost in ((arrB, who != 1), (arrA, who != 0)):
            if lost:
                ks = rng.integers(len(arr_["p"]), size=int(rng.integers(1, 4)))
                arr_["p"] = np.array(arr_["p"], dtype=float)
                arr_["p"][ks] = [np.nan, np.inf, -np.inf][rng.integers(3)] if rng.random() < .3 else np.nan
        B = gen.make_evo(arrB, mB, flavour="array64")
        A = gen.make_evo(arrA, mA, flavour="array64")
        rel = [metrics.PoseRelation.translation_part, metrics.PoseRelation.point_distance][rng.integers(2)]
        run.hit("metric evaluated on trajectories with non-finite position rows")

    def evaluate(m):
        m.process_data((A, B))
        if m.unit == Unit.meters:
            m.change_unit([Unit.millimeters, Unit.centimeters, Unit.kilometers][rng.integers(3)])
        return m.get_all_statistics()

    if fname == "APE.process_data":
        m = metrics.APE(rel if rel != metrics.PoseRelation.point_distance_error_ratio else metrics.PoseRelation.full_transformation)
        guarded(run, case, fname, {"ref": A, "est": B}, lambda: evaluate(m))
    elif fname == "RPE.process_data":
        m = metrics.RPE(rel, float(rng.integers(1, 3)), Unit.frames, all_pairs=bool(rng.random() < .5))
        guarded(run, case, fname, {"ref": A, "est": B}, lambda: evaluate(m))
    elif fname == "statistics/get_result":
        m = metrics.APE(metrics.PoseRelation.translation_part)
        m.process_data((A, B))
        e = m.error
        guarded(run, case, fname, {"error": e}, lambda: (m.get_all_statistics(), m.get_result(), m.get_statistic(metrics.StatisticsType.rmse)))
    elif fname == "align(reference)":
        guarded(run, case, fname, {"reference": A}, lambda: B.align(A, bool(rng.random() < .5), False, -1))
    elif fname == "align_origin(reference)":
        guarded(run, case, fname, {"reference": A}, lambda: B.align_origin(A))
    elif fname == "associate_trajectories":
        guarded(run, case, fname, {"first": A, "second": B},
                lambda: sync.associate_trajectories(A, B, 1e9, float(rng.normal())))
    elif fname == "matching_time_indices":
        t1, t2 = np.array(arrA["t"]), np.array(arrB["t"])
        guarded(run, case, fname, {"stamps_1": t1, "stamps_2": t2},
                lambda: sync.matching_time_indices(t1, t2, 1e9, float(rng.normal())))
    elif fname.startswith("filters."):
        poses = [np.array(P) for P in A.poses_se3]
        if rng.random() < .4:
            poses = np.stack(poses)  # the pose sequence as one N x 4 x 4 array
        f = {"filters.filter_pairs_by_index": lambda: filters.filter_pairs_by_index(poses, 2, bool(rng.random() < .5)),
             "filters.filter_pairs_by_path": lambda: filters.filter_pairs_by_path(poses, 1.0, 0.5, bool(rng.random() < .5)),
             "filters.filter_pairs_by_angle": lambda: filters.filter_pairs_by_angle(poses, 0.5, 0.3, False, bool(rng.random() < .5)),
             "filters.filter_by_motion": lambda: filters.filter_by_motion(poses, 0.5, 0.5)}[fname]
        guarded(run, case, fname, {"poses": poses}, f)
    elif fname == "id_pairs_from_delta":
        poses = [np.array(P) for P in A.poses_se3]
        if rng.random() < .4:
            poses = np.stack(poses)
        guarded(run, case, fname, {"poses": poses},
                lambda: metrics.id_pairs_from_delta(poses, 1.0, [Unit.frames, Unit.meters, Unit.radians][rng.integers(3)], 0.5, bool(rng.random() < .5)))
    elif fname == "umeyama_alignment":
        x, y = np.array(arrA["p"].T), np.array(arrB["p"].T)
        guarded(run, case, fname, {"x": x, "y": y}, lambda: geometry.umeyama_alignment(x, y, bool(rng.random() < .5)))
    elif fname == "trajectory.merge":
        guarded(run, case, fname, {"a": A, "b": B}, lambda: trajectory.merge([A, B]))
    elif fname == "Result.add_info/add_stats":
        # a result filled step by step from dictionaries the caller keeps using (the same statistics
        # dictionary for two results, an info dictionary that is extended afterwards), then edited
        # the way evo_ape / evo_rpe edit theirs (title, label, further statistics)
        info1 = {"title": "first", "label": "APE (m)", "nested": {"limits": [0.0, 2.5]}}
        stats1 = {"rmse": float(rng.random()), "mean": float(rng.random())}
        info2, stats2 = {"est_name": "est.txt", "title": "second"}, {"max": 3.0, "rmse": 9.0}
        order = int(rng.integers(4))

        def build():
            r1, r2 = result_mod.Result(), result_mod.Result()
            if order % 2:
                r1.add_stats(stats1), r1.add_info(info1)
            else:
                r1.add_info(info1), r1.add_stats(stats1)
            r2.add_stats(stats1)
            r1.add_np_array("error_array", np.arange(3.0))
            r1.add_trajectory("ref", A)
            if order // 2:
                r1.add_info(info2), r1.add_stats(stats2)
            r1.info["title"] = "edited"
            r1.info["seed"] = 7
            r1.stats["rmse"] = -1.0
            r1.stats["sse"] = 0.5
            r2.stats["rmse"] = -2.0
            return r1, r2
        guarded(run, case, fname, {"info_1": info1, "stats_1": stats1, "info_2": info2, "stats_2": stats2, "traj": A}, build)
    elif fname == "merge_results":
        from vmon.props import C13
        rs = [C13.make_result(rng, ["rmse", "mean"], ["error_array"], {"error_array": 5}, i, "e%d" % i) for i in range(3)]
        rs[0].add_trajectory("a", A)
        guarded(run, case, fname, {"r0": rs[0], "r1": rs[1], "r2": rs[2], "traj_in_r0": A},
                lambda: result_mod.merge_results(rs))
    elif fname == "trajectory_to_df":
        if rng.random() < .3:
            # arrays as they come out of np.fromfile / HDF5 / FITS readers: big-endian float64
            from evo.core.trajectory import PoseTrajectory3D
            vA = gen.read_views(A)
            A = PoseTrajectory3D(vA["p"].astype(">f8"), vA["q"].astype(">f8"), vA["t"].astype(">f8"))
            run.hit("trajectory built from big-endian arrays handed to the pandas bridge")
        guarded(run, case, fname, {"traj": A}, lambda: pandas_bridge.trajectory_to_df(A))
    elif fname == "df_to_trajectory":
        df = pandas_bridge.trajectory_to_df(A)
        u = rng.random()
        if u < .25:
            df = df.iloc[::-1].copy()  # newest first
        elif u < .5 and len(df) >= 2:
            import pandas as pd
            k = int(rng.integers(1, len(df)))
            df = pd.concat([df.iloc[k:], df.iloc[:k]])  # later segment listed first
        guarded(run, case, fname, {"df": df}, lambda: pandas_bridge.df_to_trajectory(df))
    elif fname == "result_to_df":
        m = metrics.APE(metrics.PoseRelation.translation_part)
        m.process_data((A, B))
        r = m.get_result("runs/a/ref.tum", "runs/a/est.tum") if rng.random() < .7 else m.get_result()
        # optional arguments spelled out: an explicit column label (evo_res --use_filenames does that)
        label = [None, "run_a.zip", "label with space"][rng.integers(3)]
        guarded(run, case, fname, {"result": r}, lambda: pandas_bridge.result_to_df(r, label) if rng.random() < .5
                else pandas_bridge.result_to_df(r, label=label))
    elif fname == "trajectory_stats_to_df":
        guarded(run, case, fname, {"traj": A}, lambda: pandas_bridge.trajectories_stats_to_df({"a": A, "b": B}))
    elif fname == "save_df_as_table":
        # a statistics table written in every format and both orientations; row labels as tools
        # produce them (not in sorted / natural order)
        names = ["traj_10", "traj_2", "traj_1", "est b", "Est a"]
        rng.shuffle(names)
        df = pandas_bridge.trajectories_stats_to_df({names[0]: A, names[1]: B, names[2]: A})
        if rng.random() < .5:
            df = df.T
        fmt_ = ["csv", "json", "html", "excel"][rng.integers(3)]
        tp = os.path.join(work, "t%d.%s" % (case["rs"][-1], fmt_))
        kw = {} if rng.random() < .3 else {"transpose": bool(rng.random() < .5)}
        guarded(run, case, fname, {"df": df}, lambda: pandas_bridge.save_df_as_table(df, tp, format_str=fmt_, confirm_overwrite=False, **kw))
        if os.path.exists(tp):
            os.remove(tp)
    elif fname == "getters":
        guarded(run, case, fname, {"traj": A}, lambda: (A.get_infos(), A.get_statistics(), A.check(), str(A),
                                                        A.distances, A.speeds, A.path_length, A == B,
                                                        A.get_orientations_euler()))
    elif fname == "split_*":
        guarded(run, case, fname, {"traj": A}, lambda: (A.split_time_gaps(0.01), A.split_distance_gaps(0.1),
                                                        A.split_speed_outliers(0.1)))
    elif fname.startswith("write") or fname == "save_res_file":
        if fname == "write_tum_trajectory_file":
            f = lambda: file_interface.write_tum_trajectory_file(io.StringIO(), A)  # noqa
        elif fname == "write_kitti_poses_file":
            f = lambda: file_interface.write_kitti_poses_file(os.path.join(work, "w%d.kitti" % case["rs"][-1]), A)  # noqa
        elif fname == "write_bag_trajectory":
            from rosbags.rosbag1 import Writer
            p = os.path.join(work, "b%d.bag" % case["rs"][-1])

            def f():
                with Writer(p) as w:
                    file_interface.write_bag_trajectory(w, A, "/traj", "map")
        else:
            m = metrics.APE(metrics.PoseRelation.translation_part)
            m.process_data((A, B))
            r = m.get_result()
            r.add_trajectory("ref", A)
            r.add_trajectory("est", B)
            if rng.random() < .5:
                # user annotations: nested containers, non-finite numbers, None
                r.info["alignment"] = {"scale": float("nan"), "rotation": [[1.0, 0.0], [0.0, float("inf")]], "ok": None}
                r.info["thresholds"] = [0.1, float("inf"), -float("inf")]
                r.stats["custom"] = float("nan")
            guarded(run, case, fname, {"result": r, "traj": A, "traj2": B},
                    lambda: file_interface.save_res_file(io.BytesIO(), r))
            return
        guarded(run, case, fname, {"traj": A}, f)
    elif fname.startswith("plot."):
        import matplotlib
        matplotlib.use("Agg")
        import matplotlib.pyplot as plt
        from evo.tools import plot
        mode = list(plot.PlotMode)[rng.integers(7)]
        fig = plt.figure()
        start = [None, 0.0, float(arrA["t"][0]), 50.0][rng.integers(4)]
        err = np.abs(rng.normal(size=len(arrA["p"])))
        try:
            if fname == "plot.traj":
                ax = plot.prepare_axis(fig, mode)
                guarded(run, case, fname, {"traj": A}, lambda: plot.traj(ax, mode, A, plot_start_end_markers=True))
            elif fname == "plot.traj_colormap":
                ax = plot.prepare_axis(fig, mode)
                lo, hi = float(err.min()), float(err.max())
                if rng.random() < .6:  # limits inside the value range (values saturate in the plot)
                    lo, hi = lo + rng.uniform(0, .4) * (hi - lo), hi - rng.uniform(0, .4) * (hi - lo)
                guarded(run, case, fname, {"traj": A, "array": err},
                        lambda: plot.traj_colormap(ax, A, err, mode, lo, hi, fig=fig))
            elif fname == "plot.draw_coordinate_axes":
                ax = plot.prepare_axis(fig, mode)
                guarded(run, case, fname, {"traj": A}, lambda: plot.draw_coordinate_axes(ax, A, mode, 0.3))
            elif fname == "plot.draw_correspondence_edges":
                ax = plot.prepare_axis(fig, mode)
                guarded(run, case, fname, {"traj_1": A, "traj_2": B},
                        lambda: plot.draw_correspondence_edges(ax, A, B, mode))
            elif fname == "plot.traj_xyz":
                axarr = fig.subplots(3)
                guarded(run, case, fname, {"traj": A}, lambda: plot.traj_xyz(axarr, A, start_timestamp=start))
            elif fname == "plot.traj_rpy":
                axarr = fig.subplots(3)
                guarded(run, case, fname, {"traj": A}, lambda: plot.traj_rpy(axarr, A, start_timestamp=start))
            elif fname == "plot.speeds":
                guarded(run, case, fname, {"traj": A}, lambda: plot.speeds(fig.gca(), A, start_timestamp=start))
            elif fname == "plot.error_array":
                x = np.array(arrA["t"])
                guarded(run, case, fname, {"err": err, "x": x},
                        lambda: plot.error_array(fig.gca(), err, x_array=x, statistics={"mean": 1.0, "std": 0.5},
                                                 cumulative=bool(rng.random() < .3)))
            elif fname == "plot.trajectories":
                # the container is an argument too: a dict (names -> trajectories), a list or a
                # tuple, possibly holding a trajectory without poses (cropped to a window without data)
                import copy as _copy
                members = [("a", A), ("b", B)]
                if rng.random() < .5 or case.get("empty_member"):
                    E = _copy.deepcopy(A)
                    E.reduce_to_time_range(float(arrA["t"][-1]) + 10.0, float(arrA["t"][-1]) + 20.0)
                    members.insert(int(rng.integers(3)), ("cropped", E))
                kind = int(case["container"]) if "container" in case else int(rng.integers(3))
                cont = dict(members) if kind == 0 else [m for _, m in members] if kind == 1 else tuple(m for _, m in members)
                named = dict(members)
                named["container"] = cont
                guarded(run, case, fname, named, lambda: plot.trajectories(fig, cont, mode))
        finally:
            plt.close("all")
    else:
        raise KeyError(fname)


FUNCS = ["APE.process_data", "RPE.process_data", "statistics/get_result", "align(reference)",
         "align_origin(reference)", "associate_trajectories", "matching_time_indices",
         "filters.filter_pairs_by_index", "filters.filter_pairs_by_path", "filters.filter_pairs_by_angle",
         "filters.filter_by_motion", "id_pairs_from_delta", "umeyama_alignment", "trajectory.merge",
         "merge_results", "Result.add_info/add_stats", "trajectory_to_df", "df_to_trajectory", "result_to_df", "trajectory_stats_to_df",
         "save_df_as_table", "getters", "split_*", "write_tum_trajectory_file", "write_kitti_poses_file", "write_bag_trajectory",
         "save_res_file", "plot.traj", "plot.traj_colormap", "plot.draw_coordinate_axes",
         "plot.draw_correspondence_edges", "plot.traj_xyz", "plot.traj_rpy", "plot.speeds",
         "plot.error_array", "plot.trajectories"]


# ------------------------------------------------------------------ (b) independence
DERIVE = ["deepcopy", "associate_first", "associate_second", "split_time", "split_distance",
          "split_speed", "split_nogap", "merge", "dataframe", "result_merge",
          # objects that merely *interacted* with A (A was the reference / the other argument)
          "origin_aligned_to", "umeyama_aligned_to", "ape_partner", "rpe_partner", "plot_partner"]
MUTATE = ["transform", "transform_right", "propagate", "scale", "project", "reduce", "downsample",
          "motion_filter", "crop", "align", "align_origin", "stamps+=", "sim3"]


def derive(rng, A, arrA, how):
    """returns list of derived objects (B's)"""
    from evo.core import sync, trajectory, result as result_mod
    from evo.tools import pandas_bridge
    if how == "deepcopy":
        return [copy.deepcopy(A)]
    if how in ("associate_first", "associate_second"):
        other, arrO, _ = fresh(rng, n=len(arrA["p"]) + int(rng.integers(-1, 3)))
        other.timestamps = np.array(arrA["t"][:other.num_poses] if other.num_poses <= len(arrA["t"])
                                    else np.concatenate([arrA["t"], arrA["t"][-1] + 1 + np.arange(other.num_poses - len(arrA["t"]))]))
        if how == "associate_first":
            a, b = sync.associate_trajectories(A, other, 1e-3)
            return [a]
        a, b = sync.associate_trajectories(other, A, 1e-3)
        return [b]
    if how == "split_time":
        return list(A.split_time_gaps(float(np.median(np.diff(arrA["t"])))))
    if how == "split_distance":
        seg = np.linalg.norm(np.diff(arrA["p"], axis=0), axis=1)
        return list(A.split_distance_gaps(float(np.median(seg))))
    if how == "split_speed":
        seg = np.linalg.norm(np.diff(arrA["p"], axis=0), axis=1) / np.diff(arrA["t"])
        return list(A.split_speed_outliers(float(np.median(seg))))
    if how == "split_nogap":
        return list(A.split_time_gaps(1e12)) + list(A.split_distance_gaps(1e30)) + list(A.split_speed_outliers(1e30))
    if how == "merge":
        # the partner is built the same way as A (same storage mode, same cache state)
        a_mode = "se3" if hasattr(A, "_poses_se3") and not hasattr(A, "_positions_xyz") else None
        other, _, _ = fresh(rng, mode=a_mode, materialise=False if a_mode else None)
        other.timestamps = other.timestamps + 1e7
        return [trajectory.merge([A, other])]
    if how == "dataframe":
        return [pandas_bridge.df_to_trajectory(pandas_bridge.trajectory_to_df(A))]
    if how in ("origin_aligned_to", "umeyama_aligned_to", "ape_partner", "rpe_partner", "plot_partner"):
        from evo.core import metrics
        other, _, _ = fresh(rng, n=len(arrA["p"]))
        if how == "origin_aligned_to":
            other.align_origin(A)
        elif how == "umeyama_aligned_to":
            other.align(A, correct_scale=bool(rng.random() < .5))
        elif how == "ape_partner":
            metrics.APE(metrics.PoseRelation.full_transformation).process_data((A, other))
        elif how == "rpe_partner":
            metrics.RPE(metrics.PoseRelation.full_transformation).process_data((A, other))
        else:
            import matplotlib
            matplotlib.use("Agg")
            import matplotlib.pyplot as plt
            from evo.tools import plot
            fig = plt.figure()
            ax = plot.prepare_axis(fig, plot.PlotMode.xy)
            plot.traj(ax, plot.PlotMode.xy, A)
            plot.draw_correspondence_edges(ax, other, A, plot.PlotMode.xy)
            plot.draw_coordinate_axes(ax, A, plot.PlotMode.xy, 0.1)
            plt.close(fig)
        return [other]
    if how == "result_merge":
        from vmon.props import C13
        rs = [C13.make_result(rng, ["rmse"], ["error_array"], {"error_array": 3}, i, "e%d" % i) for i in range(2)]
        rs[0].add_trajectory("t", A)
        with core.quiet():
            m = result_mod.merge_results(rs)
        return [m.trajectories["t"]]
    raise KeyError(how)


def mutate(rng, B, how):
    from evo.core.trajectory import Plane
    n = B.num_poses
    T = gen.rand_se3(rng, tscale=3.0)
    if how in ("transform", "transform_right", "propagate") and rng.random() < .5:
        T[:3, :3] *= float(10.0**rng.uniform(-0.5, 0.5))  # every variant also with a Sim(3) matrix
    if how == "transform":
        B.transform(T)
    elif how == "transform_right":
        B.transform(T, right_mul=True)
    elif how == "propagate":
        B.transform(T, right_mul=True, propagate=True)
    elif how == "sim3":
        S = T.copy()
        S[:3, :3] *= 1.7
        B.transform(S)
    elif how == "scale":
        B.scale(2.5)
    elif how == "project":
        B.project(Plane(["xy", "xz", "yz"][rng.integers(3)]))
    elif how == "reduce":
        B.reduce_to_ids(sorted(rng.choice(n, size=max(1, n // 2), replace=False).tolist()))
    elif how == "downsample":
        B.downsample(max(1, n // 2))
    elif how == "motion_filter":
        if n >= 2:
            B.motion_filter(0.5, 30.0, True)
    elif how == "crop":
        B.reduce_to_time_range(float(B.timestamps[0]), float(B.timestamps[n // 2]))
    elif how in ("align", "align_origin"):
        ref_arr = gen.traj_arrays(rng, n, stamp_cls="small")
        ref = gen.make_evo(ref_arr, "se3")
        if how == "align":
            try:
                B.align(ref, True)
            except Exception:
                B.transform(T)
        else:
            B.align_origin(ref)
    elif how == "stamps+=":
        B.timestamps += 12.5
    else:
        raise KeyError(how)
    # touch every view of the mutated object, as a user inspecting it would
    B.positions_xyz, B.orientations_quat_wxyz, B.poses_se3


def views_equal(v, w):
    return all(core.bits_equal(v[k], w[k]) for k in ("p", "T", "t")) and \
        bool(np.all(np.abs(np.abs(np.sum(v["q"] * w["q"], axis=1)) - 1) <= 1e-12))


def k_indep(run, case):
    rng = run.rng(case)
    how_d, how_m = case["derive"], case["mutate"]
    direction = case["direction"]
    mode = case["mode"]
    n_src = int(rng.integers(4, 30))
    if how_d.startswith("split") and rng.random() < .25:
        n_src = 1  # an isolated pose between two tracking losses, split again
    A, arrA, _ = fresh(rng, n=n_src, mode=mode, materialise=case["materialise"])
    twin = gen.make_evo(arrA, mode)  # same generating arrays, never shared with anything
    exp = gen.read_views(twin)
    run.seen(case, core.digest(arrA["p"], how_d, how_m, direction, mode, case["materialise"]),
             cls=["derive:" + how_d, "mutate:" + how_m, direction, "storage:" + mode],
             sample={"derive": how_d, "mutate": how_m, "direction": direction, "storage": mode,
                     "caches_materialised_before": case["materialise"]})
    rng_state = rng.bit_generator.state
    with core.quiet():
        try:
            Bs = derive(rng, A, arrA, how_d)
        except Exception as e:
            run.hit("derivation refused: %s (%s)" % (how_d, type(e).__name__))
            return
    if direction == "mutate derived, inspect source":
        for B in Bs:
            if B is A:
                run.counters["derived object is a distinct object"] += 1
                run.violation("not-independent:%s returns the source object itself" % how_d,
                              "%s returned the trajectory itself instead of an independent object" % how_d, case)
                return
            run.counters["derived object is a distinct object"] += 1
            with core.quiet():
                mutate(rng, B, how_m)
        got = gen.read_views(A)
        run.counters["source unchanged after mutating the derived object"] += 1
        if not views_equal(got, exp):
            run.violation("not-independent:%s" % how_d,
                          "after %s on an object derived by %s the poses/stamps seen through the "
                          "source trajectory changed" % (how_m, how_d), case, derive=how_d, mutate=how_m)
    else:
        before = [gen.read_views(B) if case["materialise"] else None for B in Bs]
        if any(B is A for B in Bs):
            run.violation("not-independent:%s returns the source object itself" % how_d,
                          "%s returned the trajectory itself instead of an independent object" % how_d, case)
            return
        # expected content of the derived objects: the same derivation replayed on a twin
        rng2 = np.random.default_rng(0)
        rng2.bit_generator.state = rng_state
        A2 = gen.make_evo(arrA, mode, flavour=arrA["flavour"])  # (same containers and memory layout as the source)
        if case["materialise"]:
            A2.poses_se3, A2.positions_xyz, A2.orientations_quat_wxyz
        with core.quiet():
            Bs2 = derive(rng2, A2, arrA, how_d)
        want = [gen.read_views(B) for B in Bs2]
        with core.quiet():
            mutate(rng, A, how_m)
        ok = len(Bs) == len(want)
        for B, w in zip(Bs, want):
            run.counters["derived object unchanged after mutating the source"] += 1
            if not ok or not views_equal(gen.read_views(B), w):
                run.violation("not-independent:%s" % how_d,
                              "after %s on the source the poses/stamps seen through the object derived "
                              "by %s changed" % (how_m, how_d), case, derive=how_d, mutate=how_m)
                break


KINDS = {"args": k_args, "indep": k_indep}


def main(run):
    reps = {"quick": 12, "thorough": 300}[run.tier]
    for i in run.mine(len(FUNCS) * reps):
        k_args(run, run.case("args", i, f=FUNCS[i % len(FUNCS)]))
    for i in run.mine({"quick": 24, "thorough": 400}[run.tier]):
        k_args(run, run.case("args", 10**6 + i, f=["APE.process_data", "RPE.process_data"][i % 2], nonfinite=True))
    for i in run.mine({"quick": 12, "thorough": 120}[run.tier]):
        k_args(run, run.case("args", 2 * 10**6 + i, f="plot.trajectories", empty_member=True, container=i % 3))
    combos = [(d, m, dr, st, mat) for d in DERIVE for m in MUTATE
              for dr in ("mutate derived, inspect source", "mutate source, inspect derived")
              for st in ("se3", "xyzq") for mat in (False, True)]
    reps = {"quick": 1, "thorough": 12}[run.tier]
    for i in run.mine(len(combos) * reps):
        d, m, dr, st, mat = combos[i % len(combos)]
        k_indep(run, run.case("indep", i, derive=d, mutate=m, direction=dr, mode=st, materialise=mat))
    run.extra["derive_x_mutate_x_direction_x_storage_x_cache_matrix_cells"] = len(combos)
    run.exhaustive = None
    run.need(*["argument unchanged after " + f for f in FUNCS])
    run.need("source unchanged after mutating the derived object",
             "derived object unchanged after mutating the source", "derived object is a distinct object")
