"""
C15 - evo_traj applies its options in the documented order and exports the result.
Real evo_traj runs (in-process) on generated TUM / KITTI / EuRoC files; the exported .tum/.kitti
files are parsed with the independent parser and compared with a reference pipeline composed
of the shadow-model operations in the documented order: downsample -> motion filter -> merge ->
t_offset (not the reference) -> association + Umeyama/origin alignment -> left/right
(inverted, propagated) transformation from file -> projection.
"""
import json
import math
import os

import numpy as np

from vmon import core, gen, contracts, cli, pipeline
from vmon import refmodel as rm
from vmon.shadow import ShadowTrajectory
from vmon.props import C01

ANCHORS = ['evo/main_traj.py', 'evo/tools/file_interface.py', 'evo/core/trajectory.py', 'evo/core/lie_algebra.py']
LEVEL = "exploration"
SHARDS = {"quick": 8, "thorough": 16}
RULE = ("1..3 trajectory files (+ optional reference) in TUM/KITTI/EuRoC form x random combinations "
        "of {downsample, motion_filter, merge, t_offset, ref, sync, align, correct_scale, "
        "align_origin, n_to_align, transform_left|right, invert, propagate, transformation as "
        "npy/txt/json with SE(3)/Sim(3), project_to_plane, save_as_tum|kitti}; thorough adds a "
        "bounded lattice of option subsets; distinct = digest of (file texts, argv); non-trivial "
        "= at least one processing option")
ASSUMPTIONS = ["projected headings of non-planar poses are adopted from the export after the C14 "
               "clauses (no statement fixes them)", "Sim(3) files are only generated for the "
               "non-propagating left transformation (its effect is the only one the statements define)"]
PI = math.pi


def write_inputs(rng, fmt, work, odd_names=False):
    """returns dict name -> (path, shadow), ref (path, shadow) or None"""
    os.makedirs(os.path.join(work, "in"), exist_ok=True)
    n_base = int(rng.integers(8, 60))
    base = gen.traj_arrays(rng, n_base, pos_cls=["walk", "utm", "circle", "tiny", "stationary_mix"][rng.integers(5)],
                           rot_cls=["smooth", "uniform", "yaw_grid"][rng.integers(3)],
                           stamp_cls=["epoch", "small"][rng.integers(2)])
    for k in range(1, n_base):
        if base["t"][k] <= base["t"][k - 1]:
            base["t"][k] = base["t"][k - 1] + 1e-3
    ext = float(np.max(np.abs(base["p"] - base["p"].mean(axis=0)))) + 1e-3
    dt = float(np.median(np.diff(base["t"])))

    flags = {"full": False}

    def variant(i, is_ref=False):
        if fmt != "kitti" and not is_ref and rng.random() < .08:
            flags["full"] = True  # this trajectory and the reference have a pose for every base stamp
        if fmt != "kitti" and flags["full"]:
            idx = np.arange(n_base)
            t = base["t"][idx] + (i + 1) * 1e-6 * dt * (1 + rng.random(len(idx)))
        elif fmt == "kitti":
            idx = np.arange(n_base)
            t = base["t"]
        elif not is_ref and rng.random() < .25 and n_base >= 8:
            # a trajectory that covers only a window of the reference's time span, sampled more
            # densely there (several poses around each base stamp)
            a = int(rng.integers(0, n_base - 4))
            b = int(rng.integers(a + 3, n_base + 1))
            idx = np.repeat(np.arange(a, b), rng.integers(1, 4, size=b - a))
            t = np.sort(base["t"][idx] + rng.uniform(-0.4, 0.4, size=len(idx)) * dt)
            for kk in range(1, len(t)):
                if t[kk] <= t[kk - 1]:
                    t[kk] = t[kk - 1] + 1e-6 * dt
        else:
            keep = rng.random(n_base) < (rng.uniform(0.6, 1.0) if not (is_ref and rng.random() < .3) else rng.uniform(0.25, 0.6))
            keep[[0, -1]] = True
            idx = np.nonzero(keep)[0]
            # unique stamps across all files (merge order among equal stamps is free)
            t = base["t"][idx] + (i + 1) * 1e-6 * dt * (1 + rng.random(len(idx)))
        noise = 0 if is_ref else 10.0**rng.uniform(-4, -1) * ext
        p = base["p"][idx] + rng.normal(size=(len(idx), 3)) * noise
        R = np.array([base["R"][j] @ rm.rodrigues(gen.rand_axis(rng), rng.uniform(0, 0.3 if not is_ref else 0))
                      for j in idx])
        if not is_ref and rng.random() < .6:
            A = gen.rand_se3(rng, tscale=ext)
            s = 10.0**rng.uniform(-0.4, 0.4)
            p = (A[:3, :3] @ p.T).T / s + A[:3, 3]
            R = np.array([A[:3, :3] @ Rk for Rk in R])
        out = {"p": p, "R": R, "t": np.array(t)}
        if fmt != "kitti" and not is_ref and len(idx) >= 3 and rng.random() < (.5 if flags["full"] else .1):
            # lines out of chronological order (late messages appended at the end of a log)
            k = int(rng.integers(1, len(idx)))
            order = np.concatenate([np.arange(k, len(idx)), np.arange(k)]) if rng.random() < .5 else \
                np.concatenate([[len(idx) - 1], np.arange(len(idx) - 1)])
            out = {kk: v[order] for kk, v in out.items()}
            flags["unsorted"] = True
        return out

    def dump(arr, name, this_fmt):
        path = os.path.join(work, "in", name)
        out = dump_(arr, path, this_fmt)
        if rng.random() < .12:
            txt = open(path, newline="").read()  # last line without a line terminator
            open(path, "w", newline="").write(txt.rstrip("\r\n"))
        return out

    def quats(arr):
        q = gen.quats_of(arr["R"])
        if len(q) >= 2 and rng.random() < .15:
            # a sensor panning back and forth / a motion followed by its inverse: consecutive
            # orientations whose quaternions differ only in the signs of some components
            for k in range(1, len(q)):
                if rng.random() < .3:
                    sg = np.array([[1, -1, -1, -1], [1, -1, 1, 1], [1, 1, -1, -1], [-1, 1, 1, -1]][rng.integers(4)], dtype=float)
                    q[k] = q[k - 1] * sg
        return q

    def dump_(arr, path, this_fmt):
        if this_fmt == "tum":
            open(path, "w").write(rm.write_tum_text(arr["t"], arr["p"], quats(arr)))
            t, p, R, _ = rm.parse_tum(open(path).read())
            return path, ShadowTrajectory(R, p, t)
        if this_fmt == "kitti":
            open(path, "w").write(rm.write_kitti_text(arr["p"], arr["R"]))
            p, R = rm.parse_kitti(open(path).read())
            return path, ShadowTrajectory(R, p, None)
        open(path, "w").write(rm.write_euroc_text(np.round(arr["t"] * 1e9), arr["p"], quats(arr), header=bool(rng.random() < .7), extra_cols=int([9, 0, 3][rng.integers(3)]), eol=["\n", "\n", "\r\n"][rng.integers(3)]))
        t, p, R, _ = rm.parse_euroc(open(path).read())
        return path, ShadowTrajectory(R, p, t)

    k = int(rng.integers(1, 4))
    trajs = {}
    ext_name = {"tum": ".txt", "kitti": ".txt", "euroc": ".csv"}[fmt]
    # file names: plain, or with dots inside the stem (parameter values, versions); the export of
    # <stem>.<ext> is <stem>.tum / <stem>.kitti
    dotted = bool(rng.random() < .2)
    # legal names that start with a character some command-line conventions give a meaning to
    # ('@' argument files, '+' options, '~' home, '%' jobs) or contain '=' / ','
    odd = bool(not dotted and rng.random() < .15) or odd_names
    dotted = dotted and not odd
    for i in range(k):
        name = ("vio_thresh0.%d%s" % ([5, 25, 125][i], ext_name)) if dotted else "traj_%s%s" % ("abc"[i], ext_name)
        if odd:
            name = ["@odom_%s%s", "+run_%s%s", "%%job_%s%s", "run=%s,v2%s"][(i + int(n_base)) % 4] % ("abc"[i], ext_name)
        trajs[name] = dump(variant(i), name, fmt)
    ref = None
    if rng.random() < .7:
        ref = dump(variant(7, is_ref=True), ("gt.v1.2" if dotted else "@gt" if odd and n_base % 2 else "gt") + ext_name, fmt)
        if rng.random() < .12:
            # another input whose name differs from the reference's only in letter case (a different
            # file on this file system: it is one of the trajectories, not the reference)
            name = ("GT.v1.2" if dotted else "GT") + ext_name
            trajs[name] = dump(variant(5), name, fmt)
    return trajs, ref, {"ext": ext, "dt": dt, "n_base": n_base, "unsorted": bool(flags.get("unsorted"))}


def write_transform(rng, work, sim_ok, ext):
    R = gen.rot_of_class(rng, ["uniform", "axis_aligned", "quarter_turns", "small"][rng.integers(4)])
    t = rng.normal(size=3) * ext * 10.0**rng.uniform(-1, 1)
    if rng.random() < .15:
        R = np.eye(3)  # a pure translation (/ scaling): the rotation block is exactly the identity
    elif rng.random() < .25:
        t = np.zeros(3)  # a pure rotation (/ scaling) about the origin
    s = 10.0**rng.uniform(-0.5, 0.5) if (sim_ok and rng.random() < .5) else 1.0
    if sim_ok and s != 1.0 and rng.random() < .3:
        s = 1.0 + (1 if rng.random() < .5 else -1) * 10.0**rng.uniform(-8, -3)
    M = np.eye(4)
    M[:3, :3] = s * R
    M[:3, 3] = t
    form = ["npy", "txt", "json"][rng.integers(3)]
    whole = False
    if form != "json" and rng.random() < .3:
        # hand-written matrices: axis swaps / quarter turns, whole-number shift and factor,
        # stored with an integer dtype (npy) or without decimal points (txt)
        R = gen.rotations_of_class(rng, 3, "quarter_grid")[-1]
        t = rng.integers(-50, 51, size=3).astype(float)
        s = float([1, 1, 2, 10, 100][rng.integers(5)]) if sim_ok else 1.0
        M = np.eye(4)
        M[:3, :3] = s * R
        M[:3, 3] = t
        whole = True
    path = os.path.join(work, "in", "tf." + form)
    if form == "npy":
        np.save(path, M.astype(np.int64) if whole else M)
        form = "npy(int64)" if whole else form
    elif form == "txt":
        form = (np.savetxt(path, M, fmt="%d"), "txt(integers)")[1] if whole else "txt/" + gen.save_matrix_text(rng, path, M)
    else:
        q = rm.quat_wxyz_from_rot(R)
        if rng.random() < .35:
            q = np.round(q, int(rng.integers(3, 6)))  # hand-written: rounded components (rotation of the normalised quaternion)
            if not np.any(q):
                q = np.array([1.0, 0.0, 0.0, 0.0])
        d = {"x": float(t[0]), "y": float(t[1]), "z": float(t[2]), "qw": float(q[0]), "qx": float(q[1]),
             "qy": float(q[2]), "qz": float(q[3])}
        if s != 1.0:
            d["scale"] = float(s)
        open(path, "w").write(json.dumps(d))
        M[:3, :3] = s * rm.rot_from_quat_wxyz(q)
    return path, M, form, s


def draw_options(rng, fmt, trajs, ref, meta, work, force=None):
    o = {"downsample": None, "motion_filter": None, "merge": False, "t_offset": 0.0, "sync": False,
         "align": False, "correct_scale": False, "align_origin": False, "n_to_align": -1, "t_max_diff": 0.01,
         "tf": None, "right": False, "invert": False, "propagate": False, "plane": None, "use_ref": False}
    argv = []

    def on(name, p):
        return force[name] if force is not None and name in force else bool(rng.random() < p)

    if ref is not None and on("use_ref", .85):
        o["use_ref"] = True
        argv += ["--ref", ref[0]]
    if on("downsample", .25):
        o["downsample"] = int(rng.integers(2, meta["n_base"] + 2))
        argv += ["--downsample", str(o["downsample"])]
    if on("motion_filter", .25):
        d = float(meta["ext"] * 10.0**rng.uniform(-2, -0.5)) if rng.random() < .8 else 0.0
        a = float(rng.uniform(0, 45))
        if rng.random() < .2:
            a = float([270.0, 360.0, 999.0, 181.0, 540.0][rng.integers(5)])  # beyond a half turn: the angle criterion is switched off
        o["motion_filter"] = (d, a)
        argv += ["--motion_filter", repr(d), repr(a)]
    if on("merge", .2):
        o["merge"] = True
        argv.append("--merge")
    if on("t_offset", .3):
        v = float(rng.normal() * 3) if rng.random() < .5 else float(meta["dt"] * 0.3 * rng.normal())
        # argparse does not accept negative numbers in exponent notation as option values
        tok = "%.9f" % v
        o["t_offset"] = float(tok)
        argv += ["--t_offset", tok]
    u = rng.random()
    if on("align", .25):
        o["align"] = True
        argv.append("-a" if rng.random() < .5 else "--align")
    elif on("align_origin", .15):
        o["align_origin"] = True
        argv.append("--align_origin")
    if on("correct_scale", .25):
        o["correct_scale"] = True
        argv.append("-s" if rng.random() < .5 else "--correct_scale")
    if on("sync", .15):
        o["sync"] = True
        argv.append("--sync")
    if (o["align"] or o["correct_scale"]) and rng.random() < .3 or (rng.random() < .03):
        o["n_to_align"] = int(rng.integers(3, 12))
        argv += ["--n_to_align", str(o["n_to_align"])]
    if fmt != "kitti":
        o["t_max_diff"] = float(meta["dt"] * 10.0**rng.uniform(-1, 0.5))
        if rng.random() < .1:
            o["t_max_diff"] = 0.0  # legal: only identical stamps are associated
        argv += ["--t_max_diff", ["0", "0.0"][rng.integers(2)] if o["t_max_diff"] == 0 else repr(o["t_max_diff"])]
    if on("transform", .4):
        o["right"] = bool(rng.random() < .5)
        o["propagate"] = o["right"] and bool(rng.random() < .4)
        o["propagate_flag_on_left"] = (not o["right"]) and bool(rng.random() < .2)  # (no effect on the left)
        o["invert"] = bool(rng.random() < .4)
        path, M, form, s = write_transform(rng, work, sim_ok=True, ext=meta["ext"])
        o["tf"] = M
        o["tf_form"] = form
        o["tf_scale"] = s
        argv += ["--transform_right" if o["right"] else "--transform_left", path]
        if o["invert"]:
            argv.append("--invert_transform")
        if o["propagate"] or o["propagate_flag_on_left"]:
            argv.append("--propagate_transform")
    if on("plane", .25):
        o["plane"] = ["xy", "xz", "yz"][rng.integers(3)]
        argv += ["--project_to_plane", o["plane"]]
    # options that must not influence the exports
    for extra in (["-v"], ["--silent"], ["--debug"], ["--full_check"], ["--show_full_names"], ["--plot_mode", "zx"]):
        if rng.random() < .08:
            argv += extra
    # output-only options: plots (made before the exports are written), tables, log files
    if rng.random() < .15:
        argv += [["--save_plot", "plot.png"], ["--save_plot", "plot.pdf"], ["--serialize_plot", "plot.ser"],
                 ["--plot"]][rng.integers(4)]
        if rng.random() < .5:
            argv.append("--plot_relative_time")
        if rng.random() < .5:
            argv += ["--plot_mode", ["xy", "xz", "yx", "yz", "zx", "zy", "xyz"][rng.integers(7)]]
        o["plot"] = True
    if rng.random() < .06:
        argv += ["--save_table", "table.csv"]
    if rng.random() < .06:
        argv += ["--logfile", "log.txt"]
    return argv, o


def reference_run(fmt, trajs, ref, o):
    """documented order on shadows; returns (dict export-stem -> shadow, ref shadow or None, cond)"""
    T = {name: sh.copy() for name, (path, sh) in trajs.items()}
    R = ref[1].copy() if (ref is not None and o["use_ref"]) else None
    cond = 1.0
    stamped = fmt != "kitti"
    if o["downsample"]:
        for sh in list(T.values()) + ([R] if R is not None else []):
            sh.reduce(pipeline.downsample_ids(sh.n, o["downsample"]))
    if o["motion_filter"]:
        for sh in list(T.values()) + ([R] if R is not None else []):
            sh.reduce(pipeline.motion_filter_ids(sh, *o["motion_filter"]))
    if o["merge"]:
        if fmt == "kitti":
            raise pipeline.Refuse("exit 1", "can't merge kitti")
        allt = np.concatenate([sh.t for sh in T.values()])
        order = np.argsort(allt, kind="stable")
        if len(np.unique(allt)) != len(allt):
            raise pipeline.Ambiguous("equal stamps in merge")
        m = ShadowTrajectory(np.concatenate([sh.R for sh in T.values()])[order],
                             np.concatenate([sh.p for sh in T.values()])[order], allt[order])
        T = {"merged_trajectory": m}
    if o["t_offset"]:
        if not stamped:
            raise pipeline.Refuse("exit 1", "no timestamps")
        for sh in T.values():
            sh.t = sh.t + o["t_offset"]
    if o["n_to_align"] != -1 and not (o["align"] or o["correct_scale"]):
        raise pipeline.Refuse("exit 1", "n_to_align useless")
    synced = (fmt == "kitti" and R is not None) or o["sync"] or o["align"] or o["correct_scale"] or o["align_origin"]
    if synced:
        if R is None:
            raise pipeline.Refuse("exit 1", "no reference")
        for name in list(T):
            sh = T[name]
            if stamped:
                pairs = pipeline.associate_ids(R.t, sh.t, o["t_max_diff"], 0.0)
                rt = R.copy()
                rt.reduce([a for a, b in pairs])
                sh.reduce([b for a, b in pairs])
            else:
                rt = R
            if o["align"] or o["correct_scale"]:
                only = o["correct_scale"] and not o["align"]
                Rr, tt, s, gap = pipeline.align_similarity(sh, rt, o["correct_scale"], only, o["n_to_align"])
                cond = max(cond, 1 / gap)
                sh.similarity(Rr, tt, s, only_scale=only)
            if o["align_origin"]:
                M = rm.se3(rt.R[0], rt.p[0]) @ rm.se3_inv(rm.se3(sh.R[0], sh.p[0]))
                sh.transform_left(M)
    if o["tf"] is not None:
        M = np.linalg.inv(o["tf"]) if o["invert"] else o["tf"]
        for sh in T.values():
            if o["right"] and o["propagate"]:
                sh.transform_right_propagate(M)
            elif o["right"]:
                sh.transform_right(M)
            else:
                sh.transform_left(M)
    if o["plane"]:
        nd = {"xy": 2, "xz": 1, "yz": 0}[o["plane"]]
        for sh in list(T.values()) + ([R] if R is not None else []):
            sh.project_positions(nd)
    return T, R, cond


def stem(name):
    return os.path.splitext(os.path.basename(name))[0]


def compare_export(run, case, sh, text, kind, plane, cond, what, argv):
    """exported file (parsed independently) vs reference shadow"""
    try:
        if kind == "tum":
            t, p, R, _ = rm.parse_tum(text)
        else:
            p, R = rm.parse_kitti(text)
            t = None
    except rm.ParseError as e:
        run.check(sh.n == 0, "export is parseable", case, "%s export cannot be parsed: %s" % (what, e),
                  key="export:unparseable", argv=argv)
        return
    if not run.check(len(p) == sh.n, "export has the documented poses", case,
                     "%s: exported %d poses, the documented processing gives %d" % (what, len(p), sh.n),
                     key="export:wrong-pose-count", argv=argv):
        return
    if t is not None and sh.t is not None:
        run.check(core.bits_equal(t, sh.t), "exported timestamps are the documented ones", case,
                  "%s: exported timestamps differ from the documented processing (max diff %g)" %
                  (what, float(np.max(np.abs(t - sh.t)))), key="export:stamps", argv=argv)
    mag = 1.0 + float(np.max(np.abs(sh.p))) + float(np.max(np.abs(p)))
    tol = 1e-9 * mag * min(cond * 100, 1e5)
    dp = float(np.max(np.abs(p - sh.p)))
    run.note_max("max_export_position_deviation_over_tol", dp / tol)
    run.check(dp <= tol, "exported positions follow the documented order of operations", case,
              "%s: exported positions deviate from the documented processing by %g (tol %g)" % (what, dp, tol),
              key="export:positions", argv=argv)
    if plane:
        nd = {"xy": 2, "xz": 1, "yz": 0}[plane]
        nrm = np.zeros(3)
        nrm[nd] = 1
        worst = max(max(rm.rot_defect(Rk), float(np.max(np.abs(Rk @ nrm - nrm)))) for Rk in R)
        run.check(worst <= 1e-9, "exported projected orientations rotate about the normal", case,
                  "%s: projected orientation is not a rotation about the normal (%g)" % (what, worst),
                  key="export:projection", argv=argv)
    else:
        dR = float(np.max(np.abs(R - sh.R)))
        worst = max(rm.rot_defect(Rk) for Rk in R)
        run.check(dR <= 1e-9 * min(cond * 100, 1e5), "exported orientations follow the documented order", case,
                  "%s: exported orientations deviate by %g" % (what, dR), key="export:orientations", argv=argv)
        run.check(worst <= 1e-9, "exported orientations are rotations", case,
                  "%s: exported rotation block is %g away from SO(3)" % (what, worst),
                  key="export:not-rotation", argv=argv)


def traj_cli(run, case, rng, work):
    fmt = case.get("fmt") or ["tum", "tum", "kitti", "euroc"][rng.integers(4)]
    trajs, ref, meta = write_inputs(rng, fmt, work, odd_names=bool(case.get("odd_names")))
    argv_o, o = draw_options(rng, fmt, trajs, ref, meta, work, force=case.get("force"))
    if fmt == "kitti" and not (o["align"] or o["correct_scale"]) and (rng.random() < .4 or case.get("unequal")):
        # pose files of different lengths (a run that ended early, a reference covering only the
        # start): legal as long as nothing pairs the poses up
        victims = list(trajs.values()) + ([ref] if ref is not None else [])
        for (pth, sh) in victims:
            if rng.random() < .5 and sh.n > 3:
                m = int(rng.integers(2, sh.n))
                lines = open(pth).read().splitlines(True)
                open(pth, "w").write("".join(lines[:m]))
                sh.reduce(list(range(m)))
        run.hit("kitti files of different lengths")
    export = case.get("export") or (["tum", "kitti", "both"][rng.integers(3)] if fmt != "kitti" else
                                    ["kitti", "kitti", "tum"][rng.integers(3)])
    if meta["unsorted"]:
        # statistics that need speeds are refused by design for stamps that are not ascending
        # (TrajectoryException "bad timestamps"): those output-only options are left out here
        argv_o = [a for i, a in enumerate(argv_o) if a not in ("--full_check", "--save_table")
                  and not (i and argv_o[i - 1] == "--save_table")]
    argv = [fmt] + [p for (p, sh) in trajs.values()] + argv_o + ["--no_warnings"]
    if export in ("tum", "both"):
        argv.append("--save_as_tum")
    if export in ("kitti", "both"):
        argv.append("--save_as_kitti")
    out_dir = os.path.join(work, "out")
    os.makedirs(out_dir)
    relocated = []
    at_files = [pth for (pth, sh) in list(trajs.values()) + ([ref] if ref is not None else [])
                if os.path.basename(pth).startswith("@")]
    if at_files:
        # files whose names start with '@' named the way a user in that directory names them (the
        # bare file name is the whole argument)
        import shutil
        for pth in at_files:
            shutil.copy(pth, os.path.join(out_dir, os.path.basename(pth)))
            relocated.append(os.path.basename(pth))
        argv = [os.path.basename(a) if a in at_files else a for a in argv]
        run.hit("input files named by a bare name starting with '@'")
    if o["merge"] and o["use_ref"] and ref is not None and not case.get("exe") and not relocated and rng.random() < .5:
        # runs kept in one directory each, all files called like the reference, relative paths:
        #   evo_traj tum run_0/gt.txt run_1/gt.txt --ref gt.txt --merge
        import shutil
        base = os.path.basename(ref[0])
        shutil.copy(ref[0], os.path.join(out_dir, base))
        relocated.append(base)
        new_paths = {}
        for i, (pth, sh) in enumerate(trajs.values()):
            os.makedirs(os.path.join(out_dir, "run_%d" % i))
            shutil.copy(pth, os.path.join(out_dir, "run_%d" % i, base))
            new_paths[pth] = os.path.join("run_%d" % i, base)
            relocated.append("run_%d" % i)
        argv = [new_paths.get(a, a) for a in argv]
        argv = [base if a == ref[0] else a for a in argv]
    n_positional = 1 + len(trajs)
    if o["use_ref"] and ref is not None and not relocated and rng.random() < .35:
        # shell-glob usage (evo_traj tum ./*.txt --ref ./gt.txt): the reference is also among the
        # listed files, spelled the same way; it is the reference, not one more trajectory
        base = os.path.basename(ref[0])
        rel = os.path.relpath(ref[0], out_dir)
        spelled = [ref[0], rel, "./" + rel, rel.replace("/", "//", 1),
                   os.path.join(os.path.dirname(rel), ".", base)][rng.integers(5)]
        argv = [spelled if a == ref[0] else a for a in argv]
        argv.insert(int(rng.integers(1, n_positional + 1)), spelled)
        n_positional += 1
        run.hit("reference also listed among the input files")
    if rng.random() < .25:
        # the working directory still holds the exports of an earlier run (warnings are off:
        # they are replaced without asking)
        stems = ["merged_trajectory"] if o["merge"] else [stem(n) for n in trajs]
        if o["use_ref"] and ref is not None:
            stems.append(stem(ref[0]))
        for st in stems:
            for kind in (["tum"] if export == "tum" else ["kitti"] if export == "kitti" else ["tum", "kitti"]):
                open(os.path.join(out_dir, st + "." + kind), "w").write("1 2 3 4 5 6 7 8 9 10 11 12\n" * 40 if kind == "kitti"
                                                                          else "0.5 1 2 3 0 0 0 1\n" * 40)
    if not case.get("exe") and rng.random() < .15:
        argv = C01.move_to_config(rng, argv, out_dir, n_positional)
    if case.get("exe"):
        # the real executable in a fresh interpreter
        pr = cli.run_subprocess("traj", argv, out_dir, os.environ["HOME"], closed_stdout=bool(case.get("closed_stdout")),
                                early_reader=bool(case.get("early_reader")))
        if case.get("early_reader"):
            run.hit("real executable whose standard output is a pipe nobody reads")
            if pr.returncode == 120:
                pr.returncode = 0  # (the interpreter's own report that its last flush of the broken pipe failed)
        res = cli.CliResult()
        res.exit = pr.returncode
        got = None if pr.returncode == 0 else "exit %d" % pr.returncode
        run.hit("runs through the real executable")
    else:
        res = cli.run_cli("traj", argv, cwd=out_dir)
        got = C01.outcome_class(res)
    texts = [open(p).read() for p, _ in trajs.values()]
    def active(k, v):
        if k in ("t_max_diff", "tf_form", "tf_scale", "use_ref", "plot"):
            return False
        if isinstance(v, np.ndarray):
            return True
        if k == "n_to_align":
            return v != -1
        return v is not False and v is not None and v != 0.0

    nontriv = any(active(k, v) for k, v in o.items())
    run.seen(case, core.digest(texts, [a for a in argv if not a.startswith(work)]), nontrivial=nontriv,
             cls=["fmt:" + fmt, "export:" + export] + ["opt:" + k for k, v in o.items() if active(k, v)] +
             (["opt:ref"] if o["use_ref"] else []) + (["output-only: plot"] if o.get("plot") else []) +
             (["tf:%s %s" % (o["tf_form"], "Sim(3)" if o["tf_scale"] != 1.0 else "SE(3)")] if o["tf"] is not None else []),
             sample={"argv": [a.replace(work, "<work>") for a in argv], "outcome": got or "ok"})
    try:
        T, R, cond = reference_run(fmt, trajs, ref, o)
        if fmt == "kitti" and export in ("tum", "both"):
            raise pipeline.Refuse("FileInterfaceException", "TUM export needs timestamps")
    except pipeline.Ambiguous as a:
        run.hit("ambiguous (not judged): " + str(a))
        return
    except pipeline.Refuse as r:
        if case.get("exe"):
            got = r.kind if got == "exit 1" else got  # the entry point maps known exceptions to exit 1
        run.check(got == r.kind, "evo_traj refuses what the documentation refuses", case,
                  "expected %s (%s) but evo_traj gave %s" % (r.kind, r, got or "a result"),
                  key="cli:refusal-mismatch", argv=argv)
        run.hit("refusals agreed" if got == r.kind else "refusal mismatch")
        return
    if not run.check(got is None, "evo_traj succeeds on valid input", case,
                     "evo_traj failed with %s: %s" % (got, res.exc), key="cli:unexpected-failure", argv=argv):
        return
    names = {("merged_trajectory" if o["merge"] else stem(n)): sh for n, sh in
             (T.items() if o["merge"] else ((n, T[n]) for n in T))}
    for kind in (["tum"] if export == "tum" else ["kitti"] if export == "kitti" else ["tum", "kitti"]):
        for st, sh in names.items():
            path = os.path.join(out_dir, st + "." + kind)
            if not run.check(os.path.exists(path), "every trajectory is exported", case,
                             "expected export %s.%s is missing" % (st, kind), key="export:missing", argv=argv):
                continue
            compare_export(run, case, sh, open(path).read(), kind, o["plane"], cond, "trajectory " + st, argv)
        if R is not None:
            path = os.path.join(out_dir, stem(ref[0]) + "." + kind)
            if run.check(os.path.exists(path), "the reference is exported", case, "reference export missing",
                         key="export:missing", argv=argv):
                compare_export(run, case, R, open(path).read(), kind, o["plane"], 1.0,
                               "reference (only down-sampled, filtered, projected)", argv)
                run.hit("reference exports judged")
    extra = sorted(set(os.listdir(out_dir)) - {st + "." + k for st in list(names) + ([stem(ref[0])] if R is not None else [])
                                                for k in ("tum", "kitti")})
    # files of the output-only options (plots, tables, log files) are not exports
    extra = [f for f in extra if not (f.startswith(("plot", "table")) or f in ("log.txt", "options.json") or f in relocated)]
    run.check(not extra, "no unexpected exports", case, "unexpected files written: %s" % extra,
              key="export:unexpected-files", argv=argv)


k_cli = C01.with_workdir(traj_cli)
KINDS = {"cli": k_cli}

LATTICE_OPTS = ["downsample", "motion_filter", "merge", "t_offset", "align", "align_origin", "correct_scale",
                "sync", "transform", "plane"]


def main(run):
    for i in run.mine({"quick": 600, "thorough": 9000}[run.tier]):
        k_cli(run, run.case("cli", i))
    # no-option exports must equal the input
    for i in run.mine({"quick": 30, "thorough": 300}[run.tier]):
        k_cli(run, run.case("cli", 10**6 + i, force={k: False for k in LATTICE_OPTS}))
    for i in run.mine({"quick": 9, "thorough": 60}[run.tier]):
        k_cli(run, run.case("cli", 3 * 10**6 + i, exe=True, closed_stdout=(i % 3 == 1), early_reader=(i % 3 == 2)))
    if run.tier == "thorough":
        # bounded lattice: every subset of up to 3 options switched on, the others off
        import itertools
        subsets = [s for r in (1, 2, 3) for s in itertools.combinations(LATTICE_OPTS, r)]
        for i in run.mine(len(subsets) * 2):
            sub = subsets[i % len(subsets)]
            force = {k: (k in sub) for k in LATTICE_OPTS}
            force["use_ref"] = True
            k_cli(run, run.case("cli", 2 * 10**6 + i, force=force, fmt=["tum", "euroc"][i % 2 if i % 7 else 0]))
        run.extra["option_subsets_up_to_size_3_enumerated"] = len(subsets)
    run.need("exported positions follow the documented order of operations",
             "exported orientations follow the documented order",
             "exported timestamps are the documented ones", "reference exports judged",
             "refusals agreed", "export has the documented poses", "runs through the real executable")
