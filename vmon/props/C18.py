"""
C18 - Config edits keep keys, types, user values; generated configs equal their args.
History + shadow dict: random histories of set / reset(subset) / merge (soft, hard) / upgrade on
the real settings file of a private HOME, compared after every step with a shadow dict on the
stated invariants; SettingsContainer lock; -c priority via entry_points.merge_config; Namespace
equivalence of configs generated from option lists drawn from the real parsers' typed actions.
"""
import argparse
import json
import math
import os
import subprocess
import sys

import numpy as np

from vmon import core, contracts, cli, gen

ANCHORS = ['evo/main_config.py', 'evo/tools/settings.py', 'evo/tools/settings_template.py', 'evo/entry_points.py']
LEVEL = "exploration"
SHARDS = {"quick": 8, "thorough": 16}
RULE = ("histories (length 1..10) over {set tokens, toggle, reset subset, reset all, hard merge, soft "
        "merge, version upgrade in a fresh process} on the 50 settings keys with generated token "
        "lists; option lists built from the typed actions of the evo_ape/evo_rpe/evo_traj parsers "
        "(flags, ints, floats incl. negative and integral, strings, nargs=2); distinct = digest of "
        "the history / option list; non-trivial = at least one operation / option")
ASSUMPTIONS = ["'set -m other.json' is a union by name (may add the other file's keys)",
               "nan/inf tokens and numeric tokens for string options are outside the generator"]


def defaults():
    from evo.tools.settings_template import DEFAULT_SETTINGS_DICT
    return dict(DEFAULT_SETTINGS_DICT)


def settings_path():
    from evo.tools import settings
    return settings.DEFAULT_PATH


def load_file():
    return json.loads(open(settings_path()).read())


def respell(rng, tok):
    """another spelling of the same decimal number (float() gives the identical value)"""
    v = float(tok)
    u = rng.random()
    if u < .5:
        return tok
    if u < .65 and (tok.startswith("0.") or tok.startswith("-0.")) and "e" not in tok:
        return tok.replace("0.", ".", 1)  # .5 / -.5
    if u < .75 and v > 0 and not tok.startswith("+"):
        return "+" + tok
    if u < .85 and "e" in tok:
        return tok.replace("e", "E")
    if u < .95 and v.is_integer() and v >= 0 and "." not in tok and "e" not in tok:
        return tok + "."  # 5.   (argparse does not take "-5." for a negative number)
    return tok


def num_token(rng):
    tok, val = _num_token(rng)
    t2 = respell(rng, tok)
    assert float(t2) == float(tok)
    return t2, val


def _num_token(rng):
    u = rng.random()
    if u < .3:
        v = int(rng.integers(-50, 500))
        return str(v), v
    if u < .5:
        v = float(rng.integers(-50, 500))
        return repr(v), int(v)  # "12.0" -> int 12 (integral numeric token)
    if u < .8:
        v = round(float(rng.normal() * 10), int(rng.integers(1, 6)))
        if float(v).is_integer():
            return repr(v), int(v)
        return repr(v), v
    v = float(10.0**rng.integers(-6, 6)) * (1 if rng.random() < .7 else -1) * 1.5
    tok = ("%e" % v)
    val = float(tok)
    return tok, (int(val) if val.is_integer() else val)


STR_TOKENS = ["png", "pdf", "xz", "dotted", "viridis", "none-ish", "serif", "best", "cm", "my style", "szyx",
              "path/to/x", "-.", "tab10", "G\u00e9oportail.Plan", "Noto Sans CJK \u65e5\u672c\u8a9e", "stra\u00dfe \u2713"]


def gen_set_tokens(rng, cfg):
    """returns (token list, expectation dict key -> ('value', v) | ('bool-any',) | ('toggle',) | ('same',))"""
    keys = list(cfg.keys())
    k = int(rng.integers(1, 5))
    chosen = [keys[i] for i in rng.choice(len(keys), size=min(k, len(keys)), replace=False)]
    tokens, expect = [], {}
    for key in chosen:
        cur = cfg[key]
        tokens.append(key)
        if key == "plot_seaborn_palette":
            tok = ["deep", "muted", "colorblind"][rng.integers(3)]
            tokens.append(tok)
            expect[key] = ("value", tok)
            continue
        if isinstance(cur, bool):
            u = rng.random()
            if u < .35:
                expect[key] = ("toggle", )
            elif u < .8:
                tok = ["true", "false", "True", "FALSE", "False", "TRUE"][rng.integers(6)]
                tokens.append(tok)
                expect[key] = ("value", tok.lower() == "true")
            else:
                tokens.append(["yes", "1", "on", "0"][rng.integers(4)])
                expect[key] = ("bool-any", )
        elif isinstance(cur, list):
            u = rng.random()
            if u < .2:
                tokens.append(["[]", "none", "None"][rng.integers(3)])
                expect[key] = ("value", [])
            elif u < .3:
                expect[key] = ("same", )
            else:
                m = int(rng.integers(1, 4))
                vals = []
                for _ in range(m):
                    if rng.random() < .5:
                        tok, v = num_token(rng)
                        if tok.startswith("-") and False:
                            pass
                    else:
                        tok = STR_TOKENS[rng.integers(len(STR_TOKENS))]
                        v = tok
                    tokens.append(tok)
                    vals.append(v)
                expect[key] = ("value", vals)
        else:
            u = rng.random()
            if u < .15:
                expect[key] = ("same", )
                continue
            if isinstance(cur, (int, float)) or rng.random() < .3:
                tok, v = num_token(rng)
            else:
                tok = STR_TOKENS[rng.integers(len(STR_TOKENS))]
                v = tok
            tokens.append(tok)
            if rng.random() < .2:  # extra value tokens are ignored for scalar parameters
                tokens.append(STR_TOKENS[rng.integers(len(STR_TOKENS))])
            expect[key] = ("value", v)
    return tokens, expect


def same_json_value(a, b):
    """equality that distinguishes bool / int / float / str types where the statement cares"""
    if isinstance(a, bool) or isinstance(b, bool):
        return isinstance(a, bool) and isinstance(b, bool) and a == b
    if isinstance(a, (int, float)) and isinstance(b, (int, float)):
        return a == b
    if isinstance(a, list) and isinstance(b, list):
        return len(a) == len(b) and all(same_json_value(x, y) for x, y in zip(a, b))
    return type(a) is type(b) and a == b


def judge_set(run, case, before, after, expect, what):
    ok = run.check(list(sorted(after)) == list(sorted(before)), "set keeps the key set", case,
                   "%s changed the key set: +%s -%s" % (what, sorted(set(after) - set(before)),
                                                       sorted(set(before) - set(after))), key="set:key-set")
    if not ok:
        return
    for k in before:
        if k not in expect:
            run.counters["set changes only the named keys"] += 1
            if not same_json_value(after[k], before[k]):
                run.violation("set:unnamed-key-changed", "%s changed %s (%r -> %r) although it was not named" %
                              (what, k, before[k], after[k]), case)
                return
            continue
        e = expect[k]
        if isinstance(before[k], bool):
            run.counters["boolean parameter stays boolean"] += 1
            if not isinstance(after[k], bool):
                run.violation("set:bool-not-bool", "%s made boolean %s a %s (%r)" %
                              (what, k, type(after[k]).__name__, after[k]), case)
                return
        if isinstance(before[k], list):
            run.counters["list parameter stays a list"] += 1
            if not isinstance(after[k], list):
                run.violation("set:list-not-list", "%s made list %s a %s (%r)" %
                              (what, k, type(after[k]).__name__, after[k]), case)
                return
        if e[0] == "toggle":
            good = after[k] == (not before[k])
        elif e[0] == "same":
            good = same_json_value(after[k], before[k])
        elif e[0] == "bool-any":
            good = isinstance(after[k], bool)
        else:
            good = same_json_value(after[k], e[1])
            if isinstance(e[1], (int, float)) and not isinstance(e[1], bool):
                run.counters["numeric token stored as number"] += 1
        run.counters["named key takes the given value"] += 1
        if not good:
            run.violation("set:wrong-value", "%s: %s is %r (%s), expected %r per %s" %
                          (what, k, after[k], type(after[k]).__name__, e[1] if len(e) > 1 else e[0], e[0]), case)
            return


def fresh_start(home):
    """a real fresh evo process on this HOME: returns (rc, stderr tail, loaded settings dict)"""
    code = ("import json,sys; from evo.tools import settings; "
            "print(json.dumps(dict(settings.SETTINGS)))")
    env = dict(os.environ)
    env["HOME"] = home
    p = subprocess.run([sys.executable, "-c", code], env=env, capture_output=True, text=True, timeout=120)
    loaded = None
    if p.returncode == 0:
        try:
            loaded = json.loads(p.stdout.strip().splitlines()[-1])
        except Exception:
            loaded = None
    return p.returncode, p.stderr[-400:], loaded


def k_history(run, case):
    from evo import main_config
    from evo.tools import settings
    rng = run.rng(case)
    D = defaults()
    path = settings_path()
    settings.reset()  # start from defaults
    shadow_user = {}  # keys the user has set -> value (for the upgrade clause)
    L = int(rng.integers(1, 11))
    ops = []
    for step in range(L):
        before = load_file()
        op = ["set", "set", "set", "set_cli", "reset_subset", "reset_all", "merge_hard", "merge_soft",
              "upgrade"][rng.integers(9)]
        if op == "upgrade" and run.tier == "quick" and rng.random() < .6:
            op = "set"
        ops.append(op)
        what = "step %d (%s)" % (step + 1, op)
        if op in ("set", "set_cli"):
            tokens, expect = gen_set_tokens(rng, before)
            if op == "set":
                out = contracts.outcome_of(main_config.set_config, path, tokens)
                failed = out[0] == "exc"
            else:
                r = cli.run_cli("config", ["set"] + tokens)
                failed = not r.ok
                out = ("exc", r.exc) if failed else ("ok", None)
            after = load_file()
            if failed:
                run.check(after == before, "failed set leaves the file unchanged", case,
                          "%s raised %r and changed the file" % (what, out[1]), key="set:failed-dirty")
                run.violation("set:raised", "%s with tokens %s raised %r" % (what, tokens, out[1]), case)
                return
            judge_set(run, case, before, after, expect, what + " tokens %s" % tokens)
            for k, e in expect.items():
                if e[0] != "same":
                    shadow_user[k] = after[k]
        elif op == "reset_subset":
            keys = list(before.keys())
            sub = [keys[i] for i in rng.choice(len(keys), size=int(rng.integers(1, 6)), replace=False)]
            if rng.random() < .5:
                settings.reset(path, parameter_subset=sub)
            else:
                r = cli.run_cli("config", ["reset"] + sub)
                run.check(r.ok, "evo_config reset runs", case, "reset failed: %r" % r)
            after = load_file()
            ok = set(after) == set(before)
            for k in before:
                want = D[k] if (k in sub and k in D) else before[k]
                ok = ok and same_json_value(after.get(k), want)
            run.check(ok, "reset(subset) restores exactly those keys", case,
                      "%s on %s: a key outside the subset changed or one inside is not the default" % (what, sub),
                      key="reset:subset")
            for k in sub:
                shadow_user.pop(k, None)
        elif op == "reset_all":
            r = cli.run_cli("config", ["reset", "-y"])
            after = load_file()
            run.check(r.ok and after == D, "reset -y restores all defaults", case,
                      "%s: settings differ from the defaults" % what, key="reset:all")
            shadow_user.clear()
        elif op in ("merge_hard", "merge_soft"):
            other = {}
            keys = list(before.keys())
            for k in [keys[i] for i in rng.choice(len(keys), size=int(rng.integers(1, 6)), replace=False)]:
                cur = before[k]
                other[k] = (not cur) if isinstance(cur, bool) else (cur + 1 if isinstance(cur, (int, float)) else
                                                                   (cur + ["x"] if isinstance(cur, list) else cur + "_m"))
            if rng.random() < .5:
                other["brand_new_key_%d" % rng.integers(5)] = 1.25
            op_path = os.path.join(os.environ.get("VMON_WORK", "."), "other_%d.json" % case["rs"][-1])
            open(op_path, "w").write(json.dumps(other))
            argv = ["set", "-m", op_path] + (["--soft"] if op == "merge_soft" else [])
            also_set = {}
            numeric = [k for k in other if k in before and isinstance(before[k], (int, float)) and not isinstance(before[k], bool)]
            if numeric and rng.random() < .35:
                # parameters named on the same command line as the merge file, one of them also in
                # the file: the parameters are set, then the file is merged in (a hard merge has
                # priority, a soft merge keeps what is there)
                k = numeric[rng.integers(len(numeric))]
                also_set[k] = before[k] + 7
                argv += [k, repr(also_set[k])]
            r = cli.run_cli("config", argv)
            after = load_file()
            run.check(r.ok, "evo_config set -m runs", case, "merge failed: %r" % r, key="merge:failed")
            ok = True
            for k in set(before) | set(other):
                base_v = also_set.get(k, before.get(k))
                if op == "merge_hard":
                    want = other[k] if k in other else base_v
                else:
                    want = base_v if k in before else other[k]
                if k not in after or not same_json_value(after[k], want):
                    ok = False
                    bad = (k, after.get(k), want)
            run.check(ok and set(after) == set(before) | set(other),
                      "hard merge: other wins / soft merge: existing values kept", case,
                      "%s: wrong merge result (%s)" % (what, bad if not ok else "key set"), key="merge:" + op)
            if op == "merge_hard":
                for k in other:
                    shadow_user[k] = other[k]
            else:
                for k in other:
                    shadow_user.setdefault(k, also_set.get(k, before.get(k, other[k])))
            os.remove(op_path)
        elif op == "upgrade":
            cur = load_file()
            # simulate an older installation: old version marker, some default keys missing
            dropped = [k for k in D if k in cur and k not in shadow_user and rng.random() < .15]
            for k in dropped:
                cur.pop(k)
            if rng.random() < .5:
                # the older release also knew settings that no longer exist: as many or more than are missing now
                for k in range(len(dropped) + int(rng.integers(0, 3))):
                    cur["setting_removed_in_a_later_release_%d" % k] = k
            open(path, "w").write(json.dumps(cur, indent=4, sort_keys=True))
            open(settings.USER_ASSETS_VERSION_PATH, "w").write("v0.0.1-old")
            rc, err, loaded = fresh_start(os.environ["HOME"])
            after = load_file()
            run.check(rc == 0 and loaded is not None, "fresh start after version change succeeds", case,
                      "%s: start failed rc=%s %s" % (what, rc, err), key="upgrade:start-failed")
            ok = all(k in after for k in D)
            run.check(ok, "upgrade adds every missing default key", case,
                      "%s: default keys missing after the upgrade: %s" % (what, [k for k in D if k not in after]),
                      key="upgrade:missing-keys")
            changed = [k for k in cur if k not in after or not same_json_value(after[k], cur[k])]
            run.check(not changed, "upgrade changes no value the user has set", case,
                      "%s: values changed by the upgrade: %s" % (what, [(k, cur[k], after.get(k)) for k in changed][:4]),
                      key="upgrade:user-value-changed")
            run.check(all(same_json_value(after[k], D[k]) for k in dropped), "added keys carry the defaults", case,
                      "%s: re-added keys do not carry default values" % what, key="upgrade:added-not-default")
            import evo
            run.check(open(settings.USER_ASSETS_VERSION_PATH).read() == evo.__version__,
                      "version marker updated", case, "assets_version not updated", key="upgrade:version")
    run.seen(case, core.digest(ops, case["rs"]), cls=["history len %d" % L] + ["op:" + o for o in set(ops)],
             sample={"ops": ops})
    settings.reset()


def k_upgrade_then(run, case):
    """a command that is the FIRST evo process after a version change: the upgrade and the edit
    happen in the same (real, fresh) process"""
    from evo.tools import settings
    rng = run.rng(case)
    D = defaults()
    path = settings_path()
    cur = dict(D)
    user = {}
    safe = [k for k, v in D.items() if isinstance(v, (bool, int, float, list))]  # (string settings are
    # interpreted by third-party code while evo_config prints the file: keep their values valid)
    for k in [safe[i] for i in rng.choice(len(safe), size=6, replace=False)]:
        v = D[k]
        user[k] = (not v) if isinstance(v, bool) else (v + 2 if isinstance(v, (int, float)) else
                                                      (v + ["x"] if isinstance(v, list) else v + "_user"))
    cur.update(user)
    # stampless: a settings file restored from a backup / copied from another machine into a fresh
    # ~/.evo, without the version stamp next to it (the file is complete: nothing to add, the user's
    # values must survive)
    stampless = bool(case.get("stampless"))
    dropped = [k for k in D if k not in user and rng.random() < .12 and not stampless]
    for k in dropped:
        cur.pop(k)
    open(path, "w").write(json.dumps(cur, indent=4, sort_keys=True))
    open(settings.USER_ASSETS_VERSION_PATH, "w").write("v0.0.1-old")
    if stampless:
        os.remove(settings.USER_ASSETS_VERSION_PATH)
    cmd = case.get("cmd") or ["reset_subset", "reset_all", "set"][rng.integers(3)]
    keys = list(D)
    if cmd == "reset_subset":
        sub = list(user)[:3] + [keys[i] for i in rng.choice(len(keys), size=2, replace=False)]
        argv = ["reset"] + sub
    elif cmd == "reset_all":
        sub = keys
        argv = ["reset", "-y"]
    else:
        sub = []
        argv = ["set", "plot_linewidth", "4.25", "plot_split"]
    pr = cli.run_subprocess("config", argv, os.environ.get("VMON_WORK", "."), os.environ["HOME"])
    after = load_file()
    run.seen(case, core.digest(cmd, sorted(user), dropped, stampless), cls=["first command after a version change: " + cmd] +
             (["settings file without version stamp"] if stampless else []),
             sample={"argv": argv, "user_keys": sorted(user), "dropped": dropped, "rc": pr.returncode})
    if not run.check(pr.returncode == 0, "first command after a version change succeeds", case,
                     "evo_config %s failed right after a version change: %s" % (argv, pr.stderr[-300:]),
                     key="upgrade-then:failed"):
        settings.reset()
        return
    ok = set(after) == set(D)
    bad = None
    for k in D:
        if cmd == "set" and k == "plot_linewidth":
            want = 4.25
        elif cmd == "set" and k == "plot_split":
            want = not cur.get(k, D[k])
        elif k in sub:
            want = D[k]
        else:
            want = cur.get(k, D[k])
        if k not in after or not same_json_value(after[k], want):
            ok = False
            bad = (k, after.get(k), want)
    run.check(ok, "reset / set in the upgrading process restore defaults and keep user values", case,
              "evo_config %s as the first command after a version change: wrong settings %s" % (argv, bad),
              key="upgrade-then:" + cmd)
    settings.reset()


def k_container(run, case):
    from evo.tools import settings
    rng = run.rng(case)
    D = defaults()
    c = settings.SettingsContainer(dict(D))
    before = dict(c)
    name = ["my_new_param", "plot_typo", "x", "Plot_backend"][rng.integers(4)]
    out = contracts.outcome_of(setattr, c, name, rng.integers(10))
    run.seen(case, core.digest(name, case["rs"]), cls=["container lock"], sample={"unknown": name})
    run.check(out[0] == "exc" and isinstance(out[1], settings.SettingsException) and dict(c) == before,
              "unknown parameter cannot be added to loaded settings", case,
              "assigning unknown parameter %r did not raise SettingsException / changed the container" % name,
              key="container:unknown-added")
    known = list(D)[rng.integers(len(D))]
    setattr(c, known, "changed")
    run.check(c[known] == "changed" and set(c) == set(before), "known parameter can be changed", case,
              "assigning a known parameter failed")
    other = {known: 5, "totally_unknown": 7, "another_unknown": [1]}
    c.update_existing_keys(other)
    run.check(set(c) == set(before) and c[known] == 5, "update_existing_keys never adds keys", case,
              "update_existing_keys added %s" % sorted(set(c) - set(before)), key="container:update-added")
    out = contracts.outcome_of(getattr, c, "does_not_exist")
    run.check(out[0] == "exc" and isinstance(out[1], settings.SettingsException), "unknown parameter read refused",
              case, "reading an unknown parameter gave %r" % (out[1], ))


# ------------------------------------------------------------------ typed option lists from the real parsers
def typed_options(tool):
    import importlib
    pm = importlib.import_module("evo.main_%s_parser" % tool)
    parser = pm.parser()
    sub = [a for a in parser._actions if isinstance(a, argparse._SubParsersAction)][0]
    p = sub.choices["tum"]
    opts = []
    for a in p._actions:
        longs = [s for s in a.option_strings if s.startswith("--")]
        if not longs or a.dest in ("help", "config"):
            continue
        kind = None
        if isinstance(a, argparse._StoreTrueAction):
            kind = "flag"
        elif a.nargs == 2:
            kind = "float2"
        elif a.type is int:
            kind = "int"
        elif a.type is float:
            kind = "float"
        elif a.choices:
            kind = "choice"
        elif a.nargs in (None, 1) and a.type in (None, str):
            kind = "str"
        if kind:
            opts.append({"opt": longs[0], "dest": a.dest, "kind": kind, "choices": list(a.choices) if a.choices else None})
    return parser, opts


EXCLUSIVE = [{"align", "align_origin"}]
BASE_ARGV = {"ape": ["tum", "ref.txt", "est.txt"], "rpe": ["tum", "ref.txt", "est.txt"], "traj": ["tum", "a.txt"]}


def k_generate(run, case):
    from evo import main_config, entry_points
    rng = run.rng(case)
    tool = case.get("tool") or ["ape", "rpe", "traj"][rng.integers(3)]
    parser, opts = typed_options(tool)
    k = int(rng.integers(1, 7))
    chosen = [opts[i] for i in rng.choice(len(opts), size=min(k, len(opts)), replace=False)]
    dests = {c["dest"] for c in chosen}
    for ex in EXCLUSIVE:
        if ex <= dests:
            chosen = [c for c in chosen if c["dest"] != "align_origin"]
    tokens = []
    for c in chosen:
        tokens.append(c["opt"])
        if c["kind"] == "int":
            v = int(rng.integers(-5, 2000))
            tokens.append(str(v))
        elif c["kind"] == "float":
            u = rng.random()
            v = float(rng.integers(-20, 20)) if u < .4 else round(float(rng.normal() * 5), 3)
            if u >= .4 and rng.random() < .3:
                v = round(float(rng.uniform(-1, 1)), 3)  # |v| < 1: spellings like .5 / -.5 exist
            tok = repr(v) if u >= .2 else str(int(v))
            if not tok.startswith("-0.") or True:
                tok = respell(rng, tok)
            if rng.random() < .08:
                tok = ["inf", "infinity", "1e400", "+inf", "Inf"][rng.integers(5)]  # "no limit": a legal float for argparse
            tokens.append(tok)
        elif c["kind"] == "float2":
            tokens += [repr(round(float(abs(rng.normal())), 3)), str(int(rng.integers(0, 90)))]
            if rng.random() < .4:
                # values that are equal to True / False as numbers: 1, 1.0, 0, 0.0
                tokens[-2] = ["1", "1.0", "0", "0.0"][rng.integers(4)]
            if rng.random() < .2:
                tokens[-1] = ["1", "0", "1.0"][rng.integers(3)]
        elif c["kind"] == "choice":
            tokens.append(str(c["choices"][rng.integers(len(c["choices"]))]))
        elif c["kind"] == "str":
            # (file / topic names; among them names that spell a literal of another type)
            tokens.append(["out_file.zip", "some/path.pdf", "name with space", "results", "false", "true", "True", "FALSE",
                           "None", "null", "2024", "007", "1e3", "3.50"][rng.integers(14)])
    if rng.random() < .2:
        # the same valued option named twice (defaults from an alias first, the override last):
        # the last one counts, as with argparse
        cands = [c for c in chosen if c["kind"] in ("int", "float", "choice")]
        if cands:
            c = cands[rng.integers(len(cands))]
            early = str(int(rng.integers(0, 50))) if c["kind"] != "choice" else str(c["choices"][rng.integers(len(c["choices"]))])
            tokens = [c["opt"], early] + tokens
    if "forced" in case:
        tokens = list(case["forced"])
        chosen = [o for o in opts if o["opt"] in tokens]
    base = BASE_ARGV[tool]
    direct = contracts.outcome_of(parser.parse_args, base + tokens)
    run.seen(case, core.digest(tool, tokens), nontrivial=bool(tokens), cls=["generate:" + tool] +
             ["kind:" + c["kind"] for c in chosen], sample={"tool": tool, "tokens": tokens})
    if direct[0] != "ok":
        run.hit("generate: option list rejected by the parser itself (skipped)")
        return
    if rng.random() < .12:
        # negative values in exponent notation (argparse takes "-2.5e-3" for an option on the direct
        # command line - users put such values into a generated config instead): generate stores
        # every numeric token that follows an option as that number, whatever its spelling
        fl = [o for o in opts if o["kind"] == "float"]
        o1 = fl[rng.integers(len(fl))]
        tok = ["-2.5e-3", "-1e-2", "-4.25E-1", "-1e3"][rng.integers(4)]
        out = contracts.outcome_of(main_config.generate, [o1["opt"], tok, "--" + ("align" if tool != "traj" else "sync")])
        key_ = o1["opt"].lstrip("-")
        run.check(out[0] == "ok" and isinstance(out[1].get(key_), (int, float)) and not isinstance(out[1].get(key_), bool) and
                  float(out[1][key_]) == float(tok) and len(out[1]) == 2, "generate stores negative exponent-notation values as numbers", case,
                  "generate([%s, %s, ...]) gives %r" % (o1["opt"], tok, out[1]), key="generate:negative-exponent")
    via = "function" if rng.random() < .5 else "cli"
    work = os.environ.get("VMON_WORK", ".")
    cfg_path = os.path.join(work, "gen_%d.json" % case["rs"][-1])
    if via == "function":
        out = contracts.outcome_of(main_config.generate, tokens)
        if not run.check(out[0] == "ok", "generate succeeds", case, "generate(%s) raised %r" % (tokens, out[1]),
                         key="generate:raised"):
            return
        data = out[1]
        open(cfg_path, "w").write(json.dumps(data, indent=4, sort_keys=True))
    else:
        if os.path.exists(cfg_path):
            os.remove(cfg_path)
        r = cli.run_cli("config", ["generate"] + tokens + ["-o", cfg_path])
        if not run.check(r.ok and os.path.exists(cfg_path), "evo_config generate writes the config", case,
                         "evo_config generate %s failed: %r" % (tokens, r), key="generate:raised"):
            return
        data = json.loads(open(cfg_path).read())
    with_cfg = parser.parse_args(base + ["-c", cfg_path])
    merged = entry_points.merge_config(with_cfg)
    os.remove(cfg_path)
    d_ns = vars(direct[1])
    m_ns = vars(merged)
    run.check(set(m_ns) - {"config"} <= set(d_ns) | set(), "generated config adds no foreign options", case,
              "config generated from %s introduces unknown options %s (config %s)" %
              (tokens, sorted(set(m_ns) - set(d_ns)), data), key="generate:foreign-keys")
    for c in chosen:
        dv, mv = d_ns[c["dest"]], m_ns.get(c["dest"], "<missing>")
        if c["kind"] == "float2":
            good = isinstance(mv, (list, tuple)) and len(mv) == 2 and all(float(a) == float(b) for a, b in zip(dv, mv))
        elif c["kind"] == "int":
            good = isinstance(mv, int) and not isinstance(mv, bool) and mv == dv
        elif c["kind"] == "float":
            good = isinstance(mv, (int, float)) and not isinstance(mv, bool) and float(mv) == float(dv)
        else:
            good = mv == dv and type(mv) is type(dv)
        run.counters["generated config has the same effect as the arguments (%s)" % c["kind"]] += 1
        if not good:
            mech = "integer-became-float" if (c["kind"] == "int" and isinstance(mv, float)) else \
                "negative-number-as-flag" if (c["kind"] in ("int", "float") and isinstance(dv, (int, float)) and dv < 0
                                              and mv is True) else \
                "numeric-name-became-number" if (c["kind"] == "str" and isinstance(dv, str) and
                                                 isinstance(mv, (int, float)) and not isinstance(mv, bool)) else "other"
            run.violation("generate:%s" % mech, "option %s: passing the arguments directly gives %r (%s) but "
                          "the generated config gives %r (%s); tokens %s -> config %s" %
                          (c["opt"], dv, type(dv).__name__, mv, type(mv).__name__, tokens, data), case)
            return


def k_merge_config(run, case):
    from evo import entry_points
    from evo.tools import settings
    rng = run.rng(case)
    tool = ["ape", "rpe", "traj"][rng.integers(3)]
    parser, opts = typed_options(tool)
    D = defaults()
    cfg = {}
    cmd = []
    flag = next(o for o in opts if o["dest"] == "align")
    intopt = next(o for o in opts if o["dest"] == "downsample")
    cfg["downsample"] = int(rng.integers(2, 100))
    cmd += ["--downsample", str(cfg["downsample"] + 7)]  # command line says something else
    cfg["plot_mode"] = "zy"
    cmd += ["--plot_mode", "xy"]
    cfg["align"] = True
    # falsy config values must win as well
    falsy = bool(rng.random() < .5)
    if falsy:
        cfg["align"] = False
        cmd += ["--align"]
        cfg["t_max_diff"] = 0
        cmd += ["--t_max_diff", "0.5"]
        cfg["correct_scale"] = False
        cmd += ["--correct_scale"]
    skeys = [k for k in D if isinstance(D[k], (bool, str)) and k not in ("plot_backend", )]
    sk = skeys[rng.integers(len(skeys))]
    cfg[sk] = (not D[sk]) if isinstance(D[sk], bool) else "overridden"
    cfg["not_a_setting_nor_option"] = 3
    work = os.environ.get("VMON_WORK", ".")
    cfg_path = os.path.join(work, "mc_%d.json" % case["rs"][-1])
    open(cfg_path, "w").write(json.dumps(cfg))
    file_before = open(settings_path(), "rb").read()
    mem_before = dict(settings.SETTINGS)
    args = parser.parse_args(BASE_ARGV[tool] + cmd + ["-c", cfg_path])
    try:
        merged = entry_points.merge_config(args)
        run.seen(case, core.digest(cfg, tool), cls=["merge_config:" + tool], sample={"config": cfg, "cmd": cmd})
        run.check(merged.downsample == cfg["downsample"] and merged.plot_mode == "zy" and merged.align is cfg["align"] and
                  (not falsy or (merged.t_max_diff == 0 and merged.correct_scale is False)),
                  "config file has priority over command-line values", case,
                  "command-line values beat the config %r: downsample=%r plot_mode=%r align=%r t_max_diff=%r" %
                  (cfg, merged.downsample, merged.plot_mode, merged.align, getattr(merged, "t_max_diff", None)),
                  key="merge_config:priority")
        run.check(same_json_value(settings.SETTINGS[sk], cfg[sk]), "matching package setting overridden in memory", case,
                  "setting %s not overridden for this run" % sk, key="merge_config:settings-not-overridden")
        run.check("not_a_setting_nor_option" not in settings.SETTINGS and set(settings.SETTINGS) == set(mem_before),
                  "config cannot add settings keys", case, "the config added keys to the loaded settings",
                  key="merge_config:settings-key-added")
        run.check(open(settings_path(), "rb").read() == file_before, "settings file untouched by -c", case,
                  "the settings file on disk changed", key="merge_config:file-changed")
    finally:
        for k, v in mem_before.items():
            dict.__setitem__(settings.SETTINGS, k, v)
        os.remove(cfg_path)


def k_null_values(run, case):
    """
    Values the user has set include JSON null (an option switched off in a hand-edited file, a
    hard merge of a file holding null): a soft merge and a version upgrade keep them - a key that is
    present is not a missing key, whatever its value.
    """
    from evo.tools import settings
    rng = run.rng(case)
    D = defaults()
    path = settings_path()
    cur = dict(D)
    strs = [k for k, v in D.items() if isinstance(v, str) and not k.startswith(("plot_backend", "console", "logfile"))]
    nulls = [strs[i] for i in rng.choice(len(strs), size=min(3, len(strs)), replace=False)]
    for k in nulls:
        cur[k] = None
    via = case.get("via") or ["soft_merge", "upgrade"][rng.integers(2)]
    try:
        if via == "upgrade":
            dropped = [k for k in D if k not in nulls and rng.random() < .1]
            for k in dropped:
                cur.pop(k)
            open(path, "w").write(json.dumps(cur, indent=4, sort_keys=True))
            open(settings.USER_ASSETS_VERSION_PATH, "w").write("v0.0.1-old")
            rc, err, loaded = fresh_start(os.environ["HOME"])
            ok_run = rc == 0
        else:
            open(path, "w").write(json.dumps(cur, indent=4, sort_keys=True))
            other = {k: "value_from_the_other_file" for k in nulls[:2]}
            other["plot_linewidth"] = 9.5
            op_path = os.path.join(os.environ.get("VMON_WORK", "."), "null_other_%d.json" % case["rs"][-1])
            open(op_path, "w").write(json.dumps(other))
            r = cli.run_cli("config", ["set", "-m", op_path, "--soft"])
            os.remove(op_path)
            ok_run = r.ok
        after = load_file()
        run.seen(case, core.digest(via, nulls), cls=["null values kept: " + via], sample={"via": via, "null_keys": nulls})
        if run.check(ok_run, "command on settings holding null values succeeds", case, "%s failed" % via, key="null:command-failed"):
            changed = [(k, after.get(k, "<missing>")) for k in nulls if k not in after or after[k] is not None]
            run.check(not changed, "a soft merge / upgrade keeps values that are null", case,
                      "%s replaced the null values of %s" % (via, changed), key="null:value-replaced")
    finally:
        settings.reset()


FRESH_DRIVER = """
import sys, json
sys.argv = ['evo_%(tool)s'] + %(argv)r
from evo import entry_points
rc = 0
try:
    entry_points.%(tool)s()
except SystemExit as e:
    rc = e.code if isinstance(e.code, int) else (0 if e.code is None else 1)
import matplotlib as mpl
from evo.tools import settings
fam = mpl.rcParams['font.family']
print('VMON ' + json.dumps({'rc': rc, 'lines.linewidth': mpl.rcParams['lines.linewidth'],
                            'legend.loc': mpl.rcParams['legend.loc'], 'font.family': list(fam) if not isinstance(fam, str) else [fam],
                            'plot_loaded': 'evo.tools.plot' in sys.modules,
                            'plot_linewidth': settings.SETTINGS.plot_linewidth}))
"""


def k_fresh_run(run, case):
    """
    '-c overrides matching package settings for that run only' through the real entry point in a
    fresh interpreter and a fresh home: a run that plots must draw with the settings of the
    config file (observed: the matplotlib parameters the plotting module derives from the package
    settings - line width, legend location, font family - after the command has finished), the
    settings file on disk stays as it was, and the next run without -c uses the stored settings.
    """
    import subprocess
    import sys
    import shutil
    rng = run.rng(case)
    tool = case.get("tool") or ["ape", "rpe", "traj"][rng.integers(3)]
    work = os.path.join(os.environ.get("VMON_WORK", "."), "fresh_%d" % case["rs"][-1])
    home = os.path.join(work, "home")
    os.makedirs(home, exist_ok=True)
    try:
        n = 12
        arr = gen.traj_arrays(rng, n, stamp_cls="small")
        from vmon import refmodel as rm
        q = np.array([rm.quat_wxyz_from_rot(R) for R in arr["R"]])
        text = rm.write_tum_text(arr["t"], arr["p"], q)
        for name in ("ref.txt", "est.txt", "a.txt"):
            open(os.path.join(work, name), "w").write(text)
        cfg = {"plot_linewidth": float(np.round(rng.uniform(2.5, 9.0), 2)),
               "plot_legend_loc": ["lower left", "center", "upper left"][rng.integers(3)],
               "plot_fontfamily": ["serif", "monospace"][rng.integers(2)]}
        keys = [k for k in cfg if rng.random() < .7] or ["plot_linewidth"]
        cfg = {k: cfg[k] for k in keys}
        if tool in ("ape", "rpe") and rng.random() < .6:
            cfg["save_traj_in_zip"] = True  # (a setting that is read when the result is stored; default false)
        open(os.path.join(work, "cfg.json"), "w").write(json.dumps(cfg))
        env = dict(os.environ)
        env["HOME"] = home
        env["MPLBACKEND"] = "Agg"
        env["PYTHONPATH"] = str(core.REPO) + os.pathsep + env.get("PYTHONPATH", "")

        # how the configuration reaches -c: a regular file, a symbolic link to it, the standard
        # input of the process (a pipe), or a named pipe fed by another writer
        how = case.get("how") or ["file", "file", "symlink", "stdin", "fifo"][rng.integers(5)]

        def go(extra):
            argv = BASE_ARGV[tool] + ["--save_plot", "plot.png", "--no_warnings"] + extra
            if tool in ("ape", "rpe"):
                argv += ["--save_results", "res.zip"]
            feed, writer = None, None
            if extra and how == "stdin":
                argv[argv.index("cfg.json")] = "/dev/stdin"
                feed = json.dumps(cfg)
            elif extra and how == "symlink":
                if not os.path.lexists(os.path.join(work, "cfg.link")):
                    os.symlink("cfg.json", os.path.join(work, "cfg.link"))
                argv[argv.index("cfg.json")] = "cfg.link"
            elif extra and how == "fifo":
                import threading
                fifo = os.path.join(work, "cfg.fifo")
                os.mkfifo(fifo)
                argv[argv.index("cfg.json")] = "cfg.fifo"

                def write_fifo():
                    with open(fifo, "w") as f:  # blocks until a reader opens the pipe
                        f.write(json.dumps(cfg))
                writer = threading.Thread(target=write_fifo, daemon=True)
                writer.start()
            p = subprocess.run([sys.executable, "-c", FRESH_DRIVER % {"tool": tool, "argv": argv}], cwd=work, env=env,
                               capture_output=True, text=True, timeout=300, input=feed)
            if writer is not None:
                if writer.is_alive():  # nobody opened the pipe: release the writer
                    try:
                        fd = os.open(os.path.join(work, "cfg.fifo"), os.O_RDONLY | os.O_NONBLOCK)
                        writer.join(5)
                        os.close(fd)
                    except OSError:
                        pass
                os.remove(os.path.join(work, "cfg.fifo"))
            line = [l for l in p.stdout.splitlines() if l.startswith("VMON ")]
            obs = json.loads(line[-1][5:]) if line else None
            zp = os.path.join(work, "res.zip")
            if obs is not None and os.path.exists(zp):
                import zipfile
                with zipfile.ZipFile(zp) as z:
                    obs["trajectories_in_archive"] = any(n.endswith((".tum", ".kitti")) for n in z.namelist())
            return obs, p

        first, p0 = go([])  # first run: initialises the home, plots with the defaults
        if first is None or first["rc"] != 0 or not first["plot_loaded"]:
            raise core.Inconclusive("fresh run without -c did not plot: %s" % p0.stderr[-300:])
        stored = open(os.path.join(home, ".evo", "settings.json"), "rb").read()
        D = defaults()
        got, p1 = go(["-c", "cfg.json"])
        run.seen(case, core.digest(tool, cfg), cls=["fresh process with -c: evo_" + tool, "-c names a " + how] + ["-c key:" + k for k in cfg],
                 sample={"tool": tool, "config": cfg, "observed": got})
        if not run.check(got is not None and got["rc"] == 0, "run with -c succeeds", case,
                         "evo_%s -c cfg.json failed: %s" % (tool, p1.stderr[-300:]), key="fresh:-c-run-failed"):
            return
        want = {"lines.linewidth": cfg.get("plot_linewidth", D["plot_linewidth"]),
                "legend.loc": cfg.get("plot_legend_loc", D["plot_legend_loc"]),
                "font.family": [cfg.get("plot_fontfamily", D["plot_fontfamily"])]}
        bad = {k: (got[k], v) for k, v in want.items() if got[k] != v}
        run.check(not bad, "the run plots with the settings of the -c file", case,
                  "evo_%s -c %r plotted with (observed, expected) %r" % (tool, cfg, bad),
                  key="fresh:-c-setting-not-used-by-the-run")
        if "trajectories_in_archive" in got:
            run.check(got["trajectories_in_archive"] == bool(cfg.get("save_traj_in_zip", D["save_traj_in_zip"])),
                      "the run stores its result with the settings of the -c file", case,
                      "evo_%s -c %r: trajectories in the result archive: %r" % (tool, cfg, got["trajectories_in_archive"]),
                      key="fresh:-c-setting-not-used-by-the-run")
        run.check(open(os.path.join(home, ".evo", "settings.json"), "rb").read() == stored,
                  "settings file untouched by -c (fresh process)", case, "the settings file changed", key="merge_config:file-changed")
        third, _ = go([])
        run.check(third is not None and all(third[k] == first[k] for k in want) and
                  third.get("trajectories_in_archive") == first.get("trajectories_in_archive"),
                  "the next run uses the stored settings again", case,
                  "after a run with -c the next run plotted with %r (before: %r)" % (third, first), key="fresh:-c-leaked")
    finally:
        shutil.rmtree(work, ignore_errors=True)


KINDS = {"null_values": k_null_values, "fresh_run": k_fresh_run, "history": k_history, "container": k_container, "generate": k_generate, "merge_config": k_merge_config,
         "upgrade_then": k_upgrade_then}

GEN_CORPUS = [
    ("ape", ["--downsample", "500", "--t_offset", "-0.5", "--n_to_align", "-1"]),
    ("ape", ["--align", "--n_to_align", "50", "--t_max_diff", "1"]),
    ("rpe", ["--delta", "10", "--delta_tol", "0.25", "--all_pairs"]),
    ("traj", ["--t_offset", "-3", "--downsample", "100", "--sync"]),
    ("ape", ["--motion_filter", "0.5", "5", "--plot_mode", "xz"]),
]


def main(run):
    for i in run.mine(len(GEN_CORPUS)):
        k_generate(run, run.case("generate", 10**6 + i, tool=GEN_CORPUS[i][0], forced=GEN_CORPUS[i][1]))
    for i in run.mine({"quick": 1500, "thorough": 40000}[run.tier]):
        k_generate(run, run.case("generate", i))
    for i in run.mine({"quick": 240, "thorough": 5000}[run.tier]):
        k_history(run, run.case("history", i))
    for i in run.mine({"quick": 100, "thorough": 2000}[run.tier]):
        k_container(run, run.case("container", i))
    for i in run.mine({"quick": 24, "thorough": 400}[run.tier]):
        k_upgrade_then(run, run.case("upgrade_then", i, cmd=["reset_subset", "reset_all", "set"][i % 3], stampless=(i % 4 == 3)))
    for i in run.mine({"quick": 100, "thorough": 2000}[run.tier]):
        k_merge_config(run, run.case("merge_config", i))
    for i in run.mine({"quick": 16, "thorough": 200}[run.tier]):
        k_null_values(run, run.case("null_values", i, via=["soft_merge", "upgrade"][i % 2]))
    for i in run.mine({"quick": 12, "thorough": 96}[run.tier]):
        k_fresh_run(run, run.case("fresh_run", i, tool=["ape", "rpe", "traj"][i % 3],
                                  how=["file", "stdin", "fifo", "symlink"][(i // 3) % 4]))
    run.need("the run plots with the settings of the -c file", "set keeps the key set", "set changes only the named keys", "boolean parameter stays boolean",
             "list parameter stays a list", "numeric token stored as number",
             "reset(subset) restores exactly those keys", "reset -y restores all defaults",
             "hard merge: other wins / soft merge: existing values kept",
             "upgrade changes no value the user has set", "upgrade adds every missing default key",
             "reset / set in the upgrading process restore defaults and keep user values",
             "unknown parameter cannot be added to loaded settings", "update_existing_keys never adds keys",
             "config file has priority over command-line values", "settings file untouched by -c",
             "generated config has the same effect as the arguments (int)",
             "generated config has the same effect as the arguments (float)",
             "generated config has the same effect as the arguments (flag)",
             "generated config has the same effect as the arguments (float2)")
