"""
C11 - Sub-sampling, cropping, splitting and merging select exactly the specified poses.
Contracts on downsample, motion_filter / filter_by_motion, reduce_to_time_range, split_time_gaps,
split_distance_gaps, split_speed_outliers and trajectory.merge.  Kept poses are mapped back to
input indices (through unique timestamps / unique position tags) and must be bit-identical in
every representation; the selection rule is checked clause by clause against evo's own output
with a rounding band at inexact thresholds and tol = 0 on exact grids.
"""
import math
import os

import numpy as np

from vmon import core, gen, contracts
from vmon import refmodel as rm

ANCHORS = ['evo/core/trajectory.py', 'evo/core/filters.py']
LEVEL = "exploration"
SHARDS = {"quick": 8, "thorough": 16}
RULE = ("trajectories from class generators (exact integer grids with identity / pi/8 "
        "rotations, random walks, stationary stretches, jumps, irregular sampling) x operation "
        "x parameters incl. 0, exact hits and out-of-range; distinct = digest of (trajectory, "
        "operation, parameters); non-trivial = the operation drops at least one pose or cuts")
ASSUMPTIONS = ["kept poses are identified by their unique timestamp / unique x-coordinate tag"]
PI = math.pi


def make_traj(rng, n, exact):
    """returns arrays with unique x tags; exact=True -> integer steps, dyadic stamps, grid rotations"""
    if exact:
        steps = rng.integers(0, 4, size=n).astype(float)
        axis = rng.integers(0, 3, size=n)
        d = np.zeros((n, 3))
        d[np.arange(n), axis] = steps
        d[0] = 0
        p = np.cumsum(d, axis=0)
        # unique tag in y by a tiny dyadic amount would break exact path lengths; use stamps
        if rng.random() < .5:
            R = np.array([np.eye(3)] * n)
        else:
            k = np.cumsum(rng.integers(0, 3, size=n))
            R = np.array([rm.rodrigues([0, 0, 1], kk * PI / 8) for kk in k])
        # dyadic stamps: eighths of a second, or the sample grid of a 1024 Hz / 4096 Hz sensor
        t = float(rng.integers(0, 100)) + np.cumsum(rng.integers(1, 9, size=n)) / [8.0, 8.0, 1024.0, 4096.0][rng.integers(4)]
        return {"p": p, "R": R, "t": t, "exact": True}
    cls = ["walk", "utm", "stationary_mix", "circle", "tiny"][rng.integers(5)]
    p = gen.positions_of_class(rng, n, cls)
    if rng.random() < .3 and n > 4:  # jumps
        j = rng.integers(1, n)
        p[j:] += rng.normal(size=3) * (np.std(p) + 1) * 20
    R = gen.rotations_of_class(rng, n, ["smooth", "uniform", "identity", "mixed"][rng.integers(4)])
    t = gen.stamps_of_class(rng, n, ["epoch", "small", "irregular", "dyadic"][rng.integers(4)])
    if rng.random() < .1:
        t = t - (t[n // 2] + 0.25)  # time relative to an event in the middle of the recording
    if rng.random() < .15:
        # high-rate sensors: 200 Hz .. 4096 Hz sample grids (steps that are no whole nanoseconds)
        t = float(rng.integers(0, 1000)) + np.arange(n) / [200.0, 1000.0, 1024.0, 3000.0, 4096.0][rng.integers(5)]
    for k in range(1, n):
        if t[k] <= t[k - 1]:
            t[k] = np.nextafter(t[k - 1], np.inf)
    return {"p": p, "R": R, "t": t, "exact": False}


def has_duplicate_poses(arr):
    seen = set()
    for p, R in zip(arr["p"], arr["R"]):
        k = (p.tobytes(), np.ascontiguousarray(R).tobytes())
        if k in seen:
            return True
        seen.add(k)
    return False


def build(arr, rng, stamped=True):
    """
    Build the object under test - with a *history*: before the operation that is judged, the
    object may have had derived quantities read (which primes whatever caches exist), been
    split (non-mutating) or been reduced to a known index subset (then `arr` is reduced in
    place as well, so it always describes the object's current content).
    """
    mode = "se3" if rng.random() < .5 else "xyzq"
    assert stamped or not has_duplicate_poses(arr)
    fl = gen.rand_flavour(rng)
    tr = gen.make_evo(arr, mode, stamped, flavour=fl)
    if rng.random() < .3:
        tr.poses_se3, tr.positions_xyz, tr.orientations_quat_wxyz
    elif rng.random() < .45:
        # only some representations were looked at before (a printed summary reads the positions,
        # a plot of the angles the quaternions)
        for attr in ("positions_xyz", "orientations_quat_wxyz", "poses_se3", "path_length"):
            if rng.random() < .4:
                getattr(tr, attr)
        if rng.random() < .3:
            str(tr)
    n = len(arr["p"])

    def touch():
        tr.distances, tr.path_length, tr.get_infos(), tr.check()
        if stamped and tr.num_poses >= 2 and bool(np.all(np.diff(tr.timestamps) > 0)):
            tr.speeds, tr.get_statistics()  # (evo refuses speeds for non-increasing stamps)
        if rng.random() < .5 and tr.num_poses >= 2:
            tr.split_distance_gaps(float(rng.random() * 3))
            if stamped:
                tr.split_time_gaps(float(rng.random() * 3))

    if rng.random() < .4:
        touch()
        if stamped and rng.random() < .3:
            # the caller rescales / shifts the public timestamp array in place afterwards (another
            # clock unit, a time offset - what evo_traj does with --t_offset)
            f = float([0.1, 0.5, 2.0, 1e-3][rng.integers(4)])
            off = float(rng.integers(-5, 6))
            tr.timestamps *= f
            tr.timestamps += off
            arr["t"] = arr["t"] * f
            arr["t"] = arr["t"] + off
            arr["exact"] = False
    if rng.random() < .3 and n >= 3:
        ids = sorted(rng.choice(n, size=int(rng.integers(2, n + 1)), replace=False).tolist())
        tr.reduce_to_ids(ids if rng.random() < .5 else np.array(ids))
        for k in ("p", "R", "t"):
            arr[k] = arr[k][ids]
        arr["exact"] = False  # steps between non-adjacent grid points are no longer integers
        if rng.random() < .5:
            touch()
    exp = gen.read_views(gen.make_evo(arr, mode, stamped, flavour=fl))
    return tr, exp, mode


def kept_indices(run, case, v, exp, stamped, what):
    """map output poses back to input indices; returns list or None"""
    n_in = len(exp["p"])
    idx = []
    if stamped:
        look = {float(t): i for i, t in enumerate(exp["t"])}
        for t in v["t"]:
            if float(t) not in look:
                run.violation(what + ":stamp-not-from-input", "%s produced a timestamp %r that is "
                              "not an input timestamp" % (what, float(t)), case)
                return None
            idx.append(look[float(t)])
    else:
        # identify by complete pose bytes; ambiguous duplicates resolved greedily in order
        cur = 0
        for k in range(len(v["p"])):
            while cur < n_in and not core.bits_equal(exp["T"][cur], v["T"][k]):
                cur += 1
            if cur >= n_in:
                run.violation(what + ":pose-not-from-input", "%s produced pose %d that is not an "
                              "input pose (in order)" % (what, k), case)
                return None
            idx.append(cur)
            cur += 1
    return idx


def check_copies(run, case, v, exp, idx, stamped, what):
    ok = True
    for k, i in enumerate(idx):
        same = core.bits_equal(v["p"][k], exp["p"][i]) and core.bits_equal(v["T"][k], exp["T"][i]) \
            and core.bits_equal(v["q"][k], exp["q"][i])
        if stamped:
            same = same and v["t"][k] == exp["t"][i]
        run.counters["kept pose is an unmodified copy with its own stamp"] += 1
        if not same:
            ok = False
            run.violation(what + ":pose-not-copy", "%s: kept pose %d (input %d) is not a "
                          "bit-identical copy (position/orientation/timestamp no longer "
                          "together)" % (what, k, i), case)
            break
    inc = all(b > a for a, b in zip(idx, idx[1:]))
    run.check(inc, "relative order preserved", case, "%s: kept poses are not in input order: %s" %
              (what, idx[:20]), key=what + ":order")
    return ok and inc


def k_downsample(run, case):
    from evo.core.trajectory import TrajectoryException
    rng = run.rng(case)
    nmax = {"quick": 150, "thorough": 5000}[run.tier]
    n = int(case.get("n") or (rng.integers(1, 12) if rng.random() < .4 else rng.integers(1, nmax + 1)))
    N = int(case["N"]) if "N" in case else int(rng.integers(-1, n + 3))
    arr = make_traj(rng, n, exact=False)
    stamped = bool(rng.random() < .7) or has_duplicate_poses(arr)
    tr, exp, mode = build(arr, rng, stamped)
    n = len(arr["p"])
    out = contracts.outcome_of(tr.downsample, gen.spell_int(rng, N))
    run.seen(case, core.digest(arr["p"], arr["t"], "ds", N, stamped), nontrivial=N < n,
             cls=["downsample", "N<1" if N < 1 else "N>=count" if N >= n else "1<=N<count"],
             sample={"n": n, "N": N, "outcome": out[0]})
    if N < 1 and n > N:
        run.check(out[0] == "exc" and isinstance(out[1], TrajectoryException),
                  "downsample: N<1 refused", case, "downsample(%d) on %d poses was not refused: %r" %
                  (N, n, out[1]), key="downsample:N<1-accepted")
        return
    if not run.check(out[0] == "ok", "downsample returns", case, "downsample raised %r" % (out[1], )):
        return
    v = contracts.views_consistent(run, case, tr, pfx="views after downsample")
    idx = kept_indices(run, case, v, exp, stamped, "downsample")
    if idx is None:
        return
    m = len(idx)
    run.check(m == min(N, n), "downsample: count == min(N, count)", case,
              "downsample(%d) of %d poses kept %d" % (N, n, m), key="downsample:count")
    check_copies(run, case, v, exp, idx, stamped, "downsample")
    if m:
        run.check(idx[0] == 0, "downsample: first pose kept", case, "first pose dropped (%s)" % idx[:5],
                  key="downsample:first")
    if N >= 2 and m:
        run.check(idx[-1] == n - 1, "downsample: last pose kept", case,
                  "last pose dropped (kept up to %d of %d)" % (idx[-1], n - 1), key="downsample:last")
    if m >= 2 and m == N and N < n:
        dev = max(abs(idx[k] - k * (n - 1) / (N - 1)) for k in range(m))
        run.check(dev <= 1.0 + 1e-9, "downsample: evenly spaced by index", case,
                  "kept indices deviate from even spacing by %g" % dev, key="downsample:spacing")


def own_angle(Ra, Rb):
    return rm.rot_angle(Ra.T @ Rb)


def k_motion(run, case):
    from evo.core.filters import FilterException
    from evo.core import filters
    rng = run.rng(case)
    exact = bool(case.get("exact", rng.random() < .5))
    nmax = {"quick": 120, "thorough": 2000}[run.tier]
    n = int(rng.integers(1, 10) if rng.random() < .3 else rng.integers(2, nmax + 1))
    arr = make_traj(rng, n, exact)
    if exact:
        d_thr = float(rng.integers(0, 7))
        a_steps = int(rng.integers(0, 9))
        degrees = bool(rng.random() < .5)
        # thresholds on the pi/8 grid are inexact in floating point -> banded; 0 is exact
        a_thr = a_steps * (22.5 if degrees else PI / 8)
        if rng.random() < .3:
            a_thr = 400.0 if degrees else 7.0  # unreachable: distance only
    else:
        ext = float(np.sum(np.linalg.norm(np.diff(arr["p"], axis=0), axis=1))) + 1e-9
        d_thr = 0.0 if rng.random() < .1 else ext / n * 10.0**rng.uniform(-1, 1.5)
        degrees = bool(rng.random() < .5)
        a_thr = 0.0 if rng.random() < .1 else (rng.uniform(0, 200) if degrees else rng.uniform(0, 3.5))
    if rng.random() < .2:
        # whole-number thresholds the way they are typed in a script: Python ints (1 m, 45 degrees)
        d_thr = int(round(d_thr)) if rng.random() < .8 else d_thr
        a_thr = int(round(a_thr))
        if isinstance(d_thr, int) and d_thr == 0 and a_thr == 0:
            a_thr = 1
    stamped = bool(rng.random() < .7) or has_duplicate_poses(arr)
    tr, exp, mode = build(arr, rng, stamped)
    n = len(arr["p"])
    exact = exact and arr.get("exact", False)
    via = "method" if rng.random() < .7 else "function"
    if via == "method":
        out = contracts.outcome_of(tr.motion_filter, d_thr, a_thr, degrees)
    else:
        poses_in = [np.array(T) for T in exp["T"]]
        out = contracts.outcome_of(filters.filter_by_motion, poses_in, d_thr, a_thr, degrees)
    run.seen(case, core.digest(arr["p"], arr["R"], "mf", d_thr, a_thr, degrees), cls=[
        "motion_filter:" + ("exact grid" if exact else "random"), "via " + via],
        sample={"n": n, "distance_threshold": d_thr, "angle_threshold": a_thr, "degrees": degrees,
                "outcome": out[0]})
    if n < 2:
        run.check(out[0] == "exc" and isinstance(out[1], FilterException) or
                  (out[0] == "ok" and (via == "function" and list(out[1]) == [0] or via == "method")),
                  "motion filter: single pose", case, "unexpected outcome on one pose: %r" % (out[1], ))
        return
    if not run.check(out[0] == "ok", "motion filter returns", case, "motion filter raised %r" % (out[1], )):
        return
    if via == "method":
        v = contracts.views_consistent(run, case, tr, pfx="views after motion_filter")
        idx = kept_indices(run, case, v, exp, stamped, "motion_filter")
        if idx is None or not check_copies(run, case, v, exp, idx, stamped, "motion_filter"):
            return
    else:
        idx = [int(i) for i in out[1]]
        if not run.check(all(0 <= i < n for i in idx) and all(b > a for a, b in zip(idx, idx[1:])),
                         "relative order preserved", case, "indices not increasing / out of range",
                         key="motion_filter:order"):
            return
    run.check(len(idx) > 0 and idx[0] == 0, "motion filter: first pose kept", case,
              "first pose was not kept: %s" % idx[:5], key="motion_filter:first")
    a_rad = a_thr * PI / 180.0 if degrees else a_thr
    seg = np.linalg.norm(np.diff(arr["p"], axis=0), axis=1)
    scale = float(np.sum(seg)) + float(np.max(np.abs(arr["p"]))) + 1e-300
    tol_d = 0.0 if exact else 1e-9 * scale
    tol_a = 0.0 if (exact and (a_thr == 0.0 or a_rad > PI)) else 1e-9
    kept = set(idx)
    last = 0
    path = 0.0
    for i in range(1, n):
        path += float(seg[i - 1])
        ang = own_angle(arr["R"][last], arr["R"][i])
        reached = (path >= d_thr - tol_d) or (ang >= a_rad - tol_a)
        not_reached = (path < d_thr + tol_d) and (ang < a_rad + tol_a)
        if i in kept:
            run.counters["motion filter: kept => threshold reached"] += 1
            if not reached:
                run.violation("motion_filter:kept-below-threshold",
                              "pose %d kept although since the last kept pose %d the path is %r < %r "
                              "and the angle %r < %r" % (i, last, path, d_thr, ang, a_rad), case)
                return
            last = i
            path = 0.0
        else:
            run.counters["motion filter: dropped => no threshold reached"] += 1
            if not not_reached:
                run.violation("motion_filter:dropped-above-threshold",
                              "pose %d dropped although since the last kept pose %d the path is %r "
                              "(threshold %r) / angle %r (threshold %r)" %
                              (i, last, path, d_thr, ang, a_rad), case)
                return
            if path == d_thr or ang == a_rad:
                run.hit("motion filter: exact threshold hits observed (dropped side)")
    run.hit("motion filter: exact-grid cases" if exact else "motion filter: random cases")


def k_crop(run, case):
    from evo.core.trajectory import TrajectoryException
    rng = run.rng(case)
    n = int(rng.integers(1, {"quick": 150, "thorough": 5000}[run.tier]))
    arr = make_traj(rng, n, exact=bool(rng.random() < .3))
    unsorted = bool(rng.random() < .15) and n >= 3
    if unsorted:
        # appended recordings / late messages: the statement's crop clause does not depend on the order
        perm = rng.permutation(n)
        arr["t"] = arr["t"][perm]
        arr["exact"] = False
    tr, exp, mode = build(arr, rng, True)
    n = len(arr["p"])
    t = arr["t"]

    def pick():
        u = rng.random()
        if u < .2:
            return None
        if u < .55:
            return float(t[rng.integers(n)])  # exactly on a stamp
        if u < .7:
            return float(np.nextafter(t[rng.integers(n)], np.inf if rng.random() < .5 else -np.inf))
        lo, hi = float(np.min(t)), float(np.max(t))
        return float(rng.uniform(lo - 0.3 * (hi - lo) - 1, hi + 0.3 * (hi - lo) + 1))

    start, end = pick(), pick()
    if start is not None and end is not None and start > end and rng.random() < .7:
        start, end = end, start
    out = contracts.outcome_of(tr.reduce_to_time_range, start, end)
    s_eff = float(t[0]) if start is None else start
    e_eff = float(t[-1]) if end is None else end
    want = [i for i in range(n) if s_eff <= float(t[i]) <= e_eff]
    if unsorted:
        run.hit("crop: trajectories with non-chronological stamps")
    run.seen(case, core.digest(t, "crop", start, end), nontrivial=len(want) < n,
             cls=["crop", "one-sided" if (start is None) != (end is None) else
                  "open" if start is None else "two-sided",
                  "empty" if not want else "partial" if len(want) < n else "all"],
             sample={"n": n, "start": start, "end": end, "expected_kept": len(want), "outcome": out[0]})
    if s_eff > e_eff:
        run.check(out[0] == "exc" and isinstance(out[1], TrajectoryException),
                  "crop: start > end refused", case, "start > end was not refused: %r" % (out[1], ),
                  key="crop:inverted-accepted")
        return
    if not run.check(out[0] == "ok", "crop returns", case, "reduce_to_time_range raised %r" % (out[1], )):
        return
    if not want:
        run.check(tr.num_poses == 0 and len(tr.timestamps) == 0, "crop: empty interval keeps nothing",
                  case, "empty interval kept %d poses" % tr.num_poses, key="crop:wrong-selection")
        return
    v = contracts.views_consistent(run, case, tr, pfx="views after crop")
    idx = kept_indices(run, case, v, exp, True, "crop")
    if idx is None:
        return
    run.check(idx == want, "crop: exactly start <= t <= end", case,
              "kept %d poses %s.., expected %d poses %s.. for [%r, %r]" %
              (len(idx), idx[:4], len(want), want[:4], start, end), key="crop:wrong-selection")
    check_copies(run, case, v, exp, idx, True, "crop")


def k_crop_dup(run, case):
    """
    Time cropping of a trajectory in which several poses share a stamp (the merge of synchronised
    sensors, a stereo pair): every pose with start <= t <= end is kept, all the twins included.
    Poses are identified by their (unique) positions.
    """
    rng = run.rng(case)
    n = int(rng.integers(2, {"quick": 80, "thorough": 1500}[run.tier]))
    arr = make_traj(rng, n, exact=False)
    base = float(rng.integers(0, 1000)) if rng.random() < .6 else 1.5e9
    arr["t"] = base + np.sort(rng.integers(0, max(2, n // 2), size=n)).astype(float) * [0.5, 0.1, 1.0][rng.integers(3)]
    arr["exact"] = False
    tr, exp, mode = build(arr, rng, True)
    t = arr["t"]
    n = len(t)

    def pick():
        u = rng.random()
        if u < .3:
            return None
        if u < .8:
            return float(t[rng.integers(n)])  # exactly on a (possibly shared) stamp
        return float(rng.uniform(float(t[0]) - 1, float(t[-1]) + 1))

    start, end = pick(), pick()
    if start is not None and end is not None and start > end:
        start, end = end, start
    out = contracts.outcome_of(tr.reduce_to_time_range, start, end)
    s_eff = float(t[0]) if start is None else start
    e_eff = float(t[-1]) if end is None else end
    want = [i for i in range(n) if s_eff <= float(t[i]) <= e_eff]
    run.seen(case, core.digest(t, "crop-dup", start, end), nontrivial=len(want) < n,
             cls=["crop: poses sharing stamps", "end on a shared stamp" if sum(1 for x in t if x == e_eff) > 1 else "end elsewhere"],
             sample={"n": n, "start": start, "end": end, "expected_kept": len(want), "outcome": out[0]})
    if not want:
        run.hit("crop (shared stamps): empty selection (not judged here)")
        return
    if not run.check(out[0] == "ok", "crop (shared stamps) returns", case, "reduce_to_time_range raised %r" % (out[1], ),
                     key="crop:raised"):
        return
    v = contracts.views_consistent(run, case, tr, pfx="views after crop")
    good = len(v["p"]) == len(want) and core.bits_equal(v["p"], exp["p"][want]) and core.bits_equal(v["t"], exp["t"][want]) \
        and core.bits_equal(v["T"], exp["T"][want])
    run.check(good, "crop (shared stamps): exactly start <= t <= end", case,
              "kept %d poses, expected the %d poses with %r <= t <= %r (poses sharing a stamp all belong to the range)" %
              (len(v["p"]), len(want), s_eff, e_eff), key="crop:wrong-selection")


def k_split(run, case):
    rng = run.rng(case)
    which = case.get("which") or ["time", "distance", "speed", "distance_path"][rng.integers(4)]
    exact = bool(rng.random() < .4)
    n = int(rng.integers(1, 8) if rng.random() < .3 else rng.integers(1, {"quick": 120, "thorough": 3000}[run.tier]))
    arr = make_traj(rng, n, exact)
    if which == "distance_path" and has_duplicate_poses(arr):
        which = "distance"
    stamped = which != "distance_path"
    tr, exp, mode = build(arr, rng, stamped)
    column = False
    if which == "time" and rng.random() < .2:
        # timestamps handed over as an n x 1 column (a column slice of a data matrix / DataFrame)
        tr.timestamps = np.array(tr.timestamps).reshape(-1, 1)
        column = True
    n = len(arr["p"])
    exact = exact and arr.get("exact", False)
    seg = np.linalg.norm(np.diff(arr["p"], axis=0), axis=1) if n > 1 else np.zeros(0)
    dts = np.diff(arr["t"]) if n > 1 else np.zeros(0)
    if which == "time":
        steps = dts
        band = 0.0 if exact else 4 * float(np.spacing(np.max(np.abs(arr["t"]))))
    elif which in ("distance", "distance_path"):
        steps = seg
        band = 0.0 if exact else 1e-9 * (float(np.sum(seg)) + 1e-300)
    else:
        steps = seg / dts if n > 1 else np.zeros(0)
        band = 0.0 if exact else 1e-9 * (float(np.max(steps)) + 1e-300) if n > 1 else 0.0
    if n > 1 and rng.random() < .5:
        thr = float(steps[rng.integers(n - 1)])  # exact hit
    elif n > 1:
        thr = float(rng.uniform(0, float(np.max(steps)) * 1.3 + 1e-9))
    else:
        thr = 1.0
    if rng.random() < .05:
        thr = 0.0
    fn = {"time": "split_time_gaps", "distance": "split_distance_gaps",
          "distance_path": "split_distance_gaps", "speed": "split_speed_outliers"}[which]
    out = contracts.outcome_of(getattr(tr, fn), thr)
    run.seen(case, core.digest(arr["p"], arr["t"], which, thr, column), cls=["split:" + which,
                                                                            "exact grid" if exact else "random"] +
             (["split: stamps as n x 1 column"] if column else []),
             sample={"n": n, "which": which, "threshold": thr, "outcome": out[0]})
    if not run.check(out[0] == "ok", "split returns", case, "%s raised %r" % (fn, out[1])):
        return
    parts = list(out[1])
    vs = [gen.read_views(p) for p in parts]
    cat_p = np.concatenate([v["p"] for v in vs]) if vs else np.zeros((0, 3))
    cat_T = np.concatenate([v["T"] for v in vs]) if vs else np.zeros((0, 4, 4))
    same = cat_p.shape == exp["p"].shape and core.bits_equal(cat_p, exp["p"]) and \
        core.bits_equal(cat_T, exp["T"])
    if stamped:
        cat_t = np.concatenate([v["t"].reshape(-1) for v in vs])
        same = same and core.bits_equal(cat_t, exp["t"])
    run.check(same and all(len(v["p"]) > 0 for v in vs), "split: parts concatenate to the input", case,
              "%s: concatenating the %d parts does not reproduce the trajectory bit for bit" %
              (fn, len(parts)), key="split:not-partition")
    if not same:
        return
    cuts = set(np.cumsum([len(v["p"]) for v in vs])[:-1].tolist())  # cut before index c
    for k in range(n - 1):
        s = float(steps[k])
        is_cut = (k + 1) in cuts
        if is_cut:
            run.counters["split: cut => step exceeds threshold"] += 1
            if not (s > thr - band if band else s > thr):
                run.violation("split:cut-at-small-step", "%s(%r): cut between %d and %d where the "
                              "step is only %r" % (fn, thr, k, k + 1, s), case)
                return
        else:
            run.counters["split: no cut => step within threshold"] += 1
            if not (s <= thr + band):
                run.violation("split:gap-inside-part", "%s(%r): step %r between %d and %d exceeds "
                              "the threshold but lies inside a part" % (fn, thr, s, k, k + 1), case)
                return
            if s == thr:
                run.hit("split: step == threshold exactly observed (not cut)")
    if cuts:
        run.hit("split: cases with at least one cut")


def k_merge(run, case):
    from evo.core import trajectory
    rng = run.rng(case)
    m = int(rng.integers(1, 7))
    arrs, trs = [], []
    tbase = 1.5e9 if rng.random() < .3 else 100.0
    # timestamp containers: float64 (default) or whole-number stamps (frame counters, integer
    # seconds / nanoseconds) in signed / unsigned integer arrays, the same or mixed per input
    int_stamps = bool(rng.random() < .25)
    dts = [np.int64, np.uint64, np.int32, np.uint32, np.float64]
    same_dt = dts[rng.integers(4)]
    for _ in range(m):
        n = int(rng.integers(1, {"quick": 60, "thorough": 800}[run.tier]))
        a = make_traj(rng, n, exact=False)
        a["t"] = tbase + np.sort(rng.uniform(0, 100, size=n))
        for k in range(1, n):
            if a["t"][k] <= a["t"][k - 1]:
                a["t"][k] = np.nextafter(a["t"][k - 1], np.inf)
        if rng.random() < .2 and arrs:  # provoke equal stamps across trajectories
            a["t"][0] = arrs[0]["t"][0]
            a["t"].sort()
        if int_stamps:
            a["t"] = np.unique(np.floor(a["t"] - tbase + 1)) + tbase
            a = {k: (v[:len(a["t"])] if isinstance(v, np.ndarray) else v) for k, v in a.items()}
        arrs.append(a)
        trs.append(gen.make_evo(a, "se3" if rng.random() < .5 else "xyzq"))
        if int_stamps:
            trs[-1].timestamps = np.array(a["t"]).astype(same_dt if rng.random() < .7 else dts[rng.integers(5)])
    snaps = [contracts.field_snapshot(t) for t in trs]
    out = contracts.outcome_of(trajectory.merge, trs)
    run.seen(case, core.digest([a["t"] for a in arrs], [a["p"] for a in arrs]),
             cls=["merge:%d" % m] + (["merge: whole-number stamps in %s arrays" % "/".join(sorted({str(t.timestamps.dtype) for t in trs}))] if int_stamps else []),
             sample={"trajectories": m, "lengths": [len(a["t"]) for a in arrs], "outcome": out[0]})
    if not run.check(out[0] == "ok", "merge returns", case, "merge raised %r" % (out[1], )):
        return
    for t, s in zip(trs, snaps):
        bad = contracts.snapshot_diff(s, contracts.field_snapshot(t))
        run.check(not bad, "merge leaves inputs unchanged", case, "merge modified an input: %s" % bad,
                  key="merge:input-modified")
    v = contracts.views_consistent(run, case, out[1], pfx="views after merge")
    total = sum(len(a["t"]) for a in arrs)
    if not run.check(len(v["t"]) == total, "merge: union size", case,
                     "merged %d poses, inputs have %d" % (len(v["t"]), total), key="merge:size"):
        return
    run.check(bool(np.all(np.diff(v["t"]) >= 0)), "merge: time-sorted", case,
              "merged timestamps are not sorted", key="merge:not-sorted")
    # every (t, p, R) of the union appears exactly as often in the output
    pool = {}
    for a in arrs:
        for k in range(len(a["t"])):
            pool.setdefault((float(a["t"][k]), a["p"][k].tobytes()), []).append(a["R"][k])
    ok = True
    for k in range(total):
        key = (float(v["t"][k]), np.ascontiguousarray(v["p"][k]).tobytes())
        cands = pool.get(key)
        run.counters["merge: pose keeps its own timestamp"] += 1
        if not cands:
            ok = False
            run.violation("merge:pose-stamp-mismatch", "merged pose %d (t=%r) is not an input pose "
                          "with that timestamp and position" % (k, v["t"][k]), case)
            break
        hit = None
        for c_i, Rc in enumerate(cands):
            if float(np.max(np.abs(Rc - v["T"][k][:3, :3]))) <= 1e-9:
                hit = c_i
                break
        if hit is None:
            ok = False
            run.violation("merge:orientation-mismatch", "merged pose %d carries another pose's "
                          "orientation" % k, case)
            break
        cands.pop(hit)
    if ok:
        run.check(all(len(c) == 0 for c in pool.values()), "merge: union multiset", case,
                  "some input poses are missing from the merge", key="merge:missing")


def k_cli(run, case):
    """
    Selection options end to end: evo_ape with --t_start/--t_end (together with time offsets,
    filters, down-sampling as drawn) - the poses that reach the metric must be exactly the
    documented selection (C01's workload executor and reference pipeline; the pose-selection
    clauses are the ones judged for this property).
    """
    if case.get("tool") == "traj":
        # evo_traj with --motion_filter / --downsample on trajectories and reference (C15's executor)
        from vmon.props import C15
        C15.k_cli(run, case)
        run.hit("evo_traj runs with filtering of trajectories and reference judged")
        return
    from vmon.props import C01
    rec = C01.k_cli(run, case)
    run.hit("evo_ape runs with time cropping judged" if rec else "evo_ape run refused / ambiguous (not judged)")


def k_front(run, case):
    """
    A selection option spelled in front of the sub-command (evo_traj --downsample N tum FILE): the
    command line is either refused (usage error, nothing exported) or the option takes effect -
    it is never accepted and ignored.
    """
    import shutil
    from vmon import cli, pipeline
    from vmon.shadow import ShadowTrajectory
    rng = run.rng(case)
    work = os.path.join(os.environ.get("VMON_WORK", "."), "front_%d" % case["rs"][-1])
    os.makedirs(work, exist_ok=True)
    try:
        n = int(rng.integers(5, 60))
        arr = gen.traj_arrays(rng, n, pos_cls="walk", rot_cls="smooth", stamp_cls="small")
        for k in range(1, n):
            if arr["t"][k] <= arr["t"][k - 1]:
                arr["t"][k] = arr["t"][k - 1] + 1e-3
        open(os.path.join(work, "traj.txt"), "w").write(rm.write_tum_text(arr["t"], arr["p"], gen.quats_of(arr["R"])))
        t, p, R, _ = rm.parse_tum(open(os.path.join(work, "traj.txt")).read())
        which = ["downsample", "motion_filter"][rng.integers(2)]
        if which == "downsample":
            N = int(rng.integers(2, n))
            opt = ["--downsample", str(N)]
            want = pipeline.downsample_ids(n, N)
        else:
            d = float(np.sum(np.linalg.norm(np.diff(p, axis=0), axis=1))) / n * float(rng.uniform(1.5, 4))
            opt = ["--motion_filter", repr(d), "170"]
            try:
                want = pipeline.motion_filter_ids(ShadowTrajectory(R, p, t), d, 170.0)
            except (pipeline.Ambiguous, pipeline.Refuse):
                return
        argv = {0: opt + ["tum", "traj.txt"], 1: ["tum"] + opt + ["traj.txt"], 2: ["tum", "traj.txt"] + opt}[int(rng.integers(3))] + \
            ["--save_as_tum", "--no_warnings"]
        res = cli.run_cli("traj", argv, cwd=work)
        out = os.path.join(work, "traj.tum")
        run.seen(case, core.digest(p, argv), cls=["option position: %s %s" % (which, "before" if argv[0].startswith("--") else "after") + " the sub-command"],
                 sample={"argv": argv, "exit": res.exit, "exported": os.path.exists(out)})
        if res.exit == 2 and not os.path.exists(out):
            run.hit("command line refused (usage error), nothing exported")
            return
        if not run.check(res.ok and os.path.exists(out), "accepted command line exports", case,
                         "evo_traj %s: %r" % (argv, res), key="front:failure"):
            return
        te = rm.parse_tum(open(out).read())[0]
        run.check(len(te) == len(want) and core.bits_equal(te, t[want]), "an accepted selection option takes effect", case,
                  "evo_traj %s exported %d of %d poses, the option selects %d" % (argv, len(te), n, len(want)),
                  key="front:option-ignored")
    finally:
        shutil.rmtree(work, ignore_errors=True)


KINDS = {"downsample": k_downsample, "motion": k_motion, "crop": k_crop, "crop_dup": k_crop_dup, "split": k_split,
         "merge": k_merge, "cli": k_cli, "front": k_front}


def main(run):
    n = {"quick": 900, "thorough": 20000}[run.tier]
    corpus = [{"n": nn, "N": N} for nn in (1, 2, 3, 7, 10, 100) for N in (-1, 0, 1, 2, 3, nn - 1, nn, nn + 1, nn + 2)]
    for i in run.mine(len(corpus)):
        k_downsample(run, run.case("downsample", 10**6 + i, **corpus[i]))
    for kind in ("downsample", "motion", "crop", "split", "merge"):
        for i in run.mine(n if kind != "merge" else n // 3):
            KINDS[kind](run, run.case(kind, i))
    for i in run.mine(n // 4):
        k_crop_dup(run, run.case("crop_dup", i))
    for i in run.mine({"quick": 120, "thorough": 3000}[run.tier]):
        k_cli(run, run.case("cli", i, fmt=["tum", "euroc"][i % 2], force_options=["crop"]))
    for i in run.mine({"quick": 60, "thorough": 1500}[run.tier]):
        k_cli(run, run.case("cli", 10**6 + i, tool="traj", force={"use_ref": True, "motion_filter": i % 3 != 2, "downsample": i % 3 == 2,
                                                                  "merge": False}))
    for i in run.mine({"quick": 40, "thorough": 1000}[run.tier]):
        # merging the given trajectories (the reference is not one of them), files laid out per run
        k_cli(run, run.case("cli", 2 * 10**6 + i, tool="traj", fmt=["tum", "euroc"][i % 2],
                            force={"use_ref": True, "merge": True, "sync": False, "align": False, "align_origin": False,
                                   "correct_scale": False}))
    for i in run.mine({"quick": 45, "thorough": 600}[run.tier]):
        k_front(run, run.case("front", i))
    run.need("an accepted selection option takes effect", "evo_traj runs with filtering of trajectories and reference judged", "evo_ape runs with time cropping judged", "downsample: count == min(N, count)", "downsample: evenly spaced by index",
             "downsample: last pose kept", "downsample: N<1 refused",
             "motion filter: kept => threshold reached",
             "motion filter: dropped => no threshold reached", "motion filter: exact-grid cases",
             "crop: exactly start <= t <= end", "crop (shared stamps): exactly start <= t <= end", "crop: start > end refused",
             "split: parts concatenate to the input", "split: cut => step exceeds threshold",
             "split: no cut => step within threshold",
             "split: step == threshold exactly observed (not cut)",
             "merge: pose keeps its own timestamp", "merge: union multiset",
             "kept pose is an unmodified copy with its own stamp")
