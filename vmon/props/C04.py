"""
C04 - Trajectory alignment applies exactly the returned transform, never worsens the fit.
Contract on PosePath3D.align / align_origin with the generating arrays as exact pre-state,
own similarity application, Horn + perturbation cloud for optimality (shared with C03),
metamorphic checks (poses >= n do not matter, re-alignment is the identity) and the
recorded-matrix check on main_ape.ape() / main_rpe.rpe() results.
"""
import copy
import math

import numpy as np

from vmon import core, gen, contracts
from vmon import refmodel as rm

ANCHORS = ['evo/core/trajectory.py', 'evo/core/geometry.py', 'evo/main_ape.py', 'evo/main_rpe.py']
LEVEL = "exploration"
SHARDS = {"quick": 8, "thorough": 16}
RULE = ("synchronized trajectory pairs (ref from class generators; est = similarity(ref) + noise "
        "0..100% of extent, scale ratio 1e-2..1e2) x {rigid, similarity, scale-only, origin} x "
        "n in {-1, 3..N} x storage mode {matrices, positions+quaternions}; distinct = digest of "
        "(ref, est, mode, n, storage); non-trivial = estimate differs from reference")
ASSUMPTIONS = ["Horn's quaternion solution via numpy.linalg.eigh is a correct optimum",
               "generating arrays are the exact pre-state (objects are built from copies)"]
MODES = ["rigid", "similarity", "scale_only", "origin"]


def make_pair(rng, n, noise_rel=None, stamped=False):
    ref = gen.traj_arrays(rng, n, stamp_cls="small")
    ext = float(np.max(np.abs(ref["p"] - ref["p"].mean(axis=0)))) + 1e-3
    noise = (0.0 if rng.random() < .15 else 10.0**rng.uniform(-6, 0)) if noise_rel is None \
        else noise_rel
    A = gen.rand_se3(rng, tscale=ext * 10.0**rng.uniform(-1, 1.5))
    s = 10.0**rng.uniform(-2, 2)
    # est = A^-1-ish image of ref so that aligning est->ref needs a real similarity
    p = (ref["p"] + rng.normal(size=(n, 3)) * noise * ext)
    p = (A[:3, :3] @ p.T).T / s + A[:3, 3]
    R = np.array([A[:3, :3] @ Rk @ rm.rodrigues(gen.rand_axis(rng), rng.uniform(0, 0.3))
                  for Rk in ref["R"]])
    est = {"p": p, "R": R, "t": ref["t"].copy(), "cls": ref["cls"]}
    return ref, est, ext, noise


def make_toy_pair(rng, n):
    """whole-number data: the estimate is an integer similarity image (quarter turns, integer
    factor, integer shift) of an integer reference - aligning it back needs the scale 1/k"""
    ref = gen.traj_arrays(rng, n, pos_cls="intwalk", rot_cls="quarter_grid", stamp_cls="index")
    Q = gen.rotations_of_class(rng, 3, "quarter_grid")[-1]
    k = float(rng.integers(2, 5))
    shift = rng.integers(-20, 21, size=3).astype(float)
    est = {"p": np.rint((Q @ ref["p"].T).T * k + shift), "R": np.array([np.rint(Q @ R) for R in ref["R"]]),
           "t": ref["t"].copy(), "cls": ref["cls"]}
    ext = float(np.max(np.abs(ref["p"] - ref["p"].mean(axis=0)))) + 1e-3
    return ref, est, ext, 0.0


def rmse(a, b):
    d = a - b
    return math.sqrt(float(np.sum(d * d)) / len(a))


def k_align(run, case):
    rng = run.rng(case)
    nmax = {"quick": 200, "thorough": 2000}[run.tier]
    N = int(case.get("N") or (rng.integers(3, 15) if rng.random() < .4 else rng.integers(3, nmax + 1)))
    mode = case.get("mode") or MODES[rng.integers(3)]
    storage = case.get("storage") or ("se3" if rng.random() < .5 else "xyzq")
    n = case.get("n")
    if n is None:
        n = -1 if rng.random() < .4 else int(rng.integers(3, N + 1))
    toy = bool(case.get("toy"))
    ref, est, ext, noise = make_toy_pair(rng, N) if toy else make_pair(rng, N)
    fileq = None
    if not toy and storage == "xyzq" and rng.random() < .2:
        # quaternions as read from a text file: unit only to 4..8 decimals
        fileq = int(rng.integers(4, 9))
        est, ref = gen.file_precision(est, fileq), gen.file_precision(ref, fileq)
    stamped = bool(rng.random() < .5)
    ref_storage = storage if rng.random() < .7 else "se3"
    fl_ref, fl_est = gen.rand_flavour(rng), case.get("flavour") or gen.rand_flavour(rng)
    if toy:
        # integer-dtype containers: pose matrices (se3 storage) or position arrays / lists
        fl_ref, fl_est = ("intmat" if ref_storage == "se3" else "int"), ("intmat" if storage == "se3" else "int")
    t_ref = gen.make_evo(ref, ref_storage, stamped, flavour=fl_ref)
    t_est = gen.make_evo(est, storage, stamped, flavour=fl_est)
    if toy:
        # (the quaternion view of integer-dtype matrices is not read before the operation: the
        # vendored quaternion_from_matrix refuses non-float64 input under numpy 2)
        if rng.random() < .5:
            t_est.positions_xyz, t_est.distances
    elif case.get("preread") or (rng.random() < .3):
        t_est.positions_xyz, t_est.poses_se3, t_est.orientations_quat_wxyz  # materialise all
    elif rng.random() < .4:
        # partial pre-reads: only some representations cached before the alignment
        for attr in ("positions_xyz", "orientations_quat_wxyz", "poses_se3", "distances", "path_length"):
            if rng.random() < .35:
                getattr(t_est, attr)
    if not toy and rng.random() < .08:
        # history: a mirror matrix was offered to transform() before.  If evo refuses it the
        # estimate is still the trajectory it was and is aligned below; if evo accepts it the
        # object is outside the statement and a fresh one takes its place.
        from evo import EvoException
        try:
            t_est.transform(np.diag([1.0, -1.0, 1.0, 1.0]))
            refused = False
        except EvoException:
            refused = True
            run.hit("alignment after a refused transformation")
        except Exception:
            refused = False
        if not refused:
            t_est = gen.make_evo(est, storage, stamped, flavour=fl_est)
    ref_before = contracts.field_snapshot(t_ref)
    cs = mode == "similarity"
    only = mode == "scale_only"
    if only and rng.random() < .5:
        cs = True  # correct_only_scale has priority
    out = contracts.outcome_of(t_est.align, t_ref, cs, only, gen.spell_int(rng, n))
    used = N if n == -1 else n
    x, y = est["p"][:used].T, ref["p"][:used].T
    dig = core.digest(ref["p"], est["p"], est["R"], mode, n, storage)
    run.seen(case, dig, cls=["align:" + mode, "storage:" + storage] + (["whole-number data in integer containers"] if toy else []) + (["quaternions of file precision"] if fileq else []) + [
                             "n=-1" if n == -1 else "n<N" if n < N else "n=N",
                             "noise=0" if noise == 0 else "noise>0"],
             sample={"N": N, "mode": mode, "n": n, "storage": storage, "outcome": out[0],
                     "noise_rel": noise})
    bad = contracts.snapshot_diff(ref_before, contracts.field_snapshot(t_ref))
    run.check(not bad, "reference unchanged", case, "align modified the reference: %s" % bad,
              key="align:reference-modified")
    info = contracts.umeyama_oracle(run, case, x, y, cs or only, out, pfx="align-result",
                                    cloud_rng=run.rng(case, 7))
    if out[0] != "ok" or info is None:
        run.hit("align refused / result rejected")
        return
    r, t, s = info["r"], info["t"], info["c"]
    v = contracts.views_consistent(run, case, t_est, pfx="views after align",
                                   qnorm_tol=1e-9 if not fileq else 4 * 10.0**-fileq)
    scale = 1.0 + float(np.max(np.abs(ref["p"]))) + float(np.max(np.abs(est["p"]))) * max(s, 1.0)
    if only:
        p_exp = s * est["p"]
        R_exp = est["R"]
    else:
        p_exp = (s * (r @ est["p"].T)).T + t
        R_exp = np.array([r @ Rk for Rk in est["R"]])
    ep = float(np.max(np.abs(v["p"] - p_exp)))
    run.note_max("max_position_deviation_over_scale", ep / scale)
    run.check(ep <= 1e-9 * scale, "positions moved by exactly the returned similarity", case,
              "positions differ from s*R*p+t by %g (mode %s)" % (ep, mode),
              key="align:positions-not-returned-transform", r=r, t=t, s=s)
    eR = float(np.max(np.abs(v["T"][:, :3, :3] - R_exp)))
    run.check(eR <= 1e-9, "orientations rotated by exactly the returned rotation", case,
              "orientations differ from R*R_p by %g (mode %s)" % (eR, mode),
              key="align:orientations-not-returned-transform", r=r, t=t, s=s)
    if stamped:
        run.check(core.bits_equal(t_est.timestamps, est["t"]), "align keeps timestamps", case,
                  "timestamps changed by align")
    # fit never worse (rigid / similarity), over the poses used
    if not only:
        before = rmse(est["p"][:used], ref["p"][:used])
        after = rmse(v["p"][:used], ref["p"][:used])
        run.check(after <= before * (1 + 1e-9) + 1e-9 * scale, "RMSE not larger than before", case,
                  "RMSE over the used poses grew from %r to %r" % (before, after))
    # determined from the first n pairs only: perturb poses >= n -> bit-identical result
    if 3 <= used < N:
        est2 = {k: (np.array(a, copy=True) if isinstance(a, np.ndarray) else a)
                for k, a in est.items()}
        ref2 = {k: (np.array(a, copy=True) if isinstance(a, np.ndarray) else a)
                for k, a in ref.items()}
        d_est, d_ref = rng.normal(size=(N - used, 3)) * ext * 3, rng.normal(size=(N - used, 3)) * ext * 3
        if toy:
            # keep whole numbers, so that the twin is built with the same container dtypes
            # (bit-identity is only demanded between runs of the same numeric code path)
            d_est, d_ref = np.rint(d_est) + 1.0, np.rint(d_ref) + 1.0
        est2["p"][used:] += d_est
        ref2["p"][used:] += d_ref
        o2 = contracts.outcome_of(gen.make_evo(est2, storage, stamped, flavour=fl_est).align,
                                  gen.make_evo(ref2, ref_storage, stamped, flavour=fl_ref), cs, only, n)
        same = o2[0] == "ok" and core.bits_equal(o2[1][0], r) and core.bits_equal(o2[1][1], t) \
            and float(o2[1][2]) == float(s)
        run.check(same, "result depends on the first n pairs only", case,
                  "changing poses beyond n=%d changed the alignment result" % used,
                  key="align:n-ignored")
    # aligning again is the identity
    gap = info["gap"]
    d = info["d"]
    if gap > 1e-3 and d[1] > 1e-3 * d[0]:
        o3 = contracts.outcome_of(t_est.align, t_ref, cs, only, n)
        if o3[0] == "ok":
            r3, t3, s3 = o3[1]
            offrel = 1.0 + float(np.max(np.abs(ref["p"]))) / ext
            tol = 1e-7 * offrel / gap
            if only:
                good = abs(s3 - 1) <= tol
            else:
                good = float(np.max(np.abs(r3 - np.eye(3)))) <= tol and abs(s3 - 1) <= tol and \
                    float(np.max(np.abs(t3))) <= tol * (ext + float(np.max(np.abs(ref["p"]))))
            run.check(good, "re-alignment is the identity", case,
                      "aligning an aligned trajectory again gave r-I=%g t=%g s-1=%g" %
                      (float(np.max(np.abs(r3 - np.eye(3)))), float(np.max(np.abs(t3))), s3 - 1),
                      key="align:realign-not-identity")
        else:
            run.check(False, "re-alignment possible", case, "second align raised %r" % (o3[1], ))


def k_origin(run, case):
    rng = run.rng(case)
    N = int(rng.integers(1, {"quick": 120, "thorough": 1000}[run.tier]))
    storage = "se3" if rng.random() < .5 else "xyzq"
    ref, est, ext, noise = make_pair(rng, N)
    if rng.random() < .3:
        ref = {**ref, "p": ref["p"][:max(1, N // 2)], "R": ref["R"][:max(1, N // 2)],
               "t": ref["t"][:max(1, N // 2)]}
    stamped = bool(rng.random() < .5)
    u = rng.random()
    if u < .25:
        # both recordings start at the same point (the origin, or a common start position) but in
        # different frames (camera vs. body): first positions identical, first attitudes not; or the
        # same first attitude at different positions; or the same first pose altogether
        start = np.zeros(3) if rng.random() < .5 else ref["p"][0].copy()
        est = {**est, "p": est["p"] - est["p"][0] + start}
        ref = {**ref, "p": ref["p"] - ref["p"][0] + start}
        est["p"][0], ref["p"][0] = start, start.copy()
        if u < .06:
            est = {**est, "R": np.array([ref["R"][0] @ est["R"][0].T @ Rk for Rk in est["R"]])}
            est["R"][0] = ref["R"][0].copy()
    elif u < .33:
        est = {**est, "R": np.array([ref["R"][0] @ est["R"][0].T @ Rk for Rk in est["R"]])}
        est["R"][0] = ref["R"][0].copy()
    t_ref, t_est = gen.make_evo(ref, storage, stamped), gen.make_evo(est, storage, stamped)
    if rng.random() < .3:
        t_est.positions_xyz, t_est.poses_se3, t_est.orientations_quat_wxyz
    ref_before = contracts.field_snapshot(t_ref)
    out = contracts.outcome_of(t_est.align_origin, t_ref)
    run.seen(case, core.digest(ref["p"], est["p"], storage), cls=["align:origin", "storage:" + storage],
             sample={"N": N, "storage": storage, "outcome": out[0]})
    if not run.check(out[0] == "ok", "align_origin succeeds", case, "align_origin raised %r" % (out[1], )):
        return
    T = np.asarray(out[1], dtype=float)
    bad = contracts.snapshot_diff(ref_before, contracts.field_snapshot(t_ref))
    run.check(not bad, "reference unchanged", case, "align_origin modified the reference: %s" % bad,
              key="align:reference-modified")
    v = contracts.views_consistent(run, case, t_est, pfx="views after align")
    scale = 1.0 + float(np.max(np.abs(ref["p"]))) + float(np.max(np.abs(est["p"])))
    run.check(rm.se3_defect(T) <= 1e-9, "origin transform is rigid", case,
              "returned origin transformation is %g away from SE(3)" % rm.se3_defect(T))
    e0 = max(float(np.max(np.abs(v["p"][0] - ref["p"][0]))) / scale,
             float(np.max(np.abs(v["T"][0][:3, :3] - ref["R"][0]))))
    run.check(e0 <= 1e-9, "first pose mapped onto reference's first pose", case,
              "first pose differs from the reference's first pose by %g" % e0,
              key="origin:first-pose")
    # returned matrix is what was applied, and relative poses are preserved
    worst, worst_rel = 0.0, 0.0
    for k in range(N):
        P = rm.se3(est["R"][k], est["p"][k])
        Q = T @ P
        worst = max(worst, float(np.max(np.abs(Q[:3, 3] - v["p"][k]))) / scale,
                    float(np.max(np.abs(Q[:3, :3] - v["T"][k][:3, :3]))))
    for _ in range(min(N, 40)):
        i, j = rng.integers(N), rng.integers(N)
        rel0 = rm.se3_inv(rm.se3(est["R"][i], est["p"][i])) @ rm.se3(est["R"][j], est["p"][j])
        rel1 = rm.se3_inv(v["T"][i]) @ v["T"][j]
        worst_rel = max(worst_rel, float(np.max(np.abs(rel0[:3, 3] - rel1[:3, 3]))) / scale,
                        float(np.max(np.abs(rel0[:3, :3] - rel1[:3, :3]))))
    run.check(worst <= 1e-9, "poses moved by exactly the returned origin transform", case,
              "poses differ from T*P by %g" % worst, key="origin:not-returned-transform")
    run.check(worst_rel <= 1e-9, "origin alignment preserves relative poses", case,
              "relative poses changed by %g" % worst_rel, key="origin:relative-changed")


def k_recorded(run, case):
    """the alignment matrix recorded in an ape()/rpe() result maps the unaligned estimate
    onto the estimate stored in that result"""
    from evo import main_ape, main_rpe
    from evo.core import metrics
    rng = run.rng(case)
    N = int(rng.integers(4, 60))
    storage = "se3" if rng.random() < .5 else "xyzq"
    ref, est, ext, noise = make_pair(rng, N)
    combos = [(True, False, False), (True, True, False), (False, True, False),
              (False, False, True), (False, True, True)]
    align, cs, origin = case.get("combo") or combos[rng.integers(len(combos))]
    n_to_align = -1 if rng.random() < .6 or not (align or cs) else int(rng.integers(3, N + 1))
    tool = case.get("tool") or ("ape" if rng.random() < .5 else "rpe")
    stamped = bool(rng.random() < .7)
    t_ref = gen.make_evo(ref, storage, stamped, flavour=gen.rand_flavour(rng))
    t_est = gen.make_evo(est, storage, stamped, flavour=gen.rand_flavour(rng))
    rel = list(metrics.PoseRelation)[rng.integers(6)]
    with core.quiet():
        if tool == "ape":
            out = contracts.outcome_of(main_ape.ape, t_ref, t_est, rel, align=align,
                                       correct_scale=cs, n_to_align=n_to_align,
                                       align_origin=origin, ref_name="r", est_name="e")
        else:
            out = contracts.outcome_of(main_rpe.rpe, t_ref, t_est, rel, 1.0, metrics.Unit.frames,
                                       align=align, correct_scale=cs, n_to_align=n_to_align,
                                       align_origin=origin, ref_name="r", est_name="e",
                                       support_loop=True)
    label = "%s align=%d scale=%d origin=%d" % (tool, align, cs, origin)
    run.seen(case, core.digest(ref["p"], est["p"], label, n_to_align), cls=["recorded:" + label],
             sample={"tool": tool, "align": align, "correct_scale": cs, "align_origin": origin,
                     "n_to_align": n_to_align, "outcome": out[0]})
    if out[0] != "ok":
        run.hit("recorded: ape/rpe refused (%s)" % type(out[1]).__name__)
        return
    res = out[1]
    if not run.check("alignment_transformation_sim3" in res.np_arrays,
                     "alignment matrix recorded", case, "no alignment matrix in the result (%s)" % label):
        return
    M = np.asarray(res.np_arrays["alignment_transformation_sim3"], dtype=float)
    stored = res.trajectories["e"]
    sp = np.asarray(stored.positions_xyz, dtype=float)
    sT = np.array(stored.poses_se3)
    if tool == "rpe":
        idx = [0] + list(range(1, N))  # delta 1 frame consecutive -> all poses kept
        if len(sp) != N:
            run.hit("recorded: rpe stored subset")
            return
    scale = 1.0 + float(np.max(np.abs(sp))) + float(np.max(np.abs(est["p"])))
    sM = float(np.cbrt(np.linalg.det(M[:3, :3])))
    mapped = (M[:3, :3] @ est["p"].T).T + M[:3, 3]
    ep = float(np.max(np.abs(mapped - sp))) / scale
    key = "recorded-matrix:%s" % ("scale-only" if (cs and not align and not origin) else
                                  "scale+origin" if (cs and origin) else "other")
    run.check(ep <= 1e-9 and np.array_equal(M[3], [0, 0, 0, 1]),
              "recorded matrix maps unaligned positions onto stored ones", case,
              "recorded alignment matrix maps the unaligned estimate %g (relative) away from the "
              "stored estimate (%s, n_to_align=%d)" % (ep, label, n_to_align), key=key, M=M)
    eR = max(float(np.max(np.abs((M[:3, :3] / sM) @ est["R"][k] - sT[k][:3, :3])))
             for k in range(N)) if sM > 0 else float("inf")
    run.check(eR <= 1e-9, "recorded matrix maps unaligned orientations onto stored ones", case,
              "rotation part of the recorded matrix maps orientations %g away (%s)" % (eR, label),
              key=key, M=M)


def k_cli(run, case):
    """
    The alignment options end to end: evo_ape / evo_rpe with -a / -s / --align_origin and
    --n_to_align in every admitted combination (C01's / C02's executor: the processed pair must
    be the documented alignment - determined from the first n pairs when n is given - and the
    recorded matrix clause is judged by this check's own kind 'recorded').
    """
    if case.get("tool") == "traj":
        # evo_traj --ref with -a / -s / --align_origin (C15's executor and export oracle)
        from vmon.props import C15
        C15.k_cli(run, case)
        run.hit("evo_traj runs with alignment options judged")
        return
    from vmon.props import C01, C02
    (C01.k_cli if case.get("tool", "ape") == "ape" else C02.k_cli)(run, case)
    run.hit("evo_ape / evo_rpe runs with alignment options judged")


KINDS = {"align": k_align, "origin": k_origin, "recorded": k_recorded, "cli": k_cli}


def main(run):
    n = {"quick": 1200, "thorough": 40000}[run.tier]
    corpus = [{"mode": m, "storage": st, "N": N, "n": nn, "preread": pr}
              for m in MODES[:3] for st in ("se3", "xyzq") for (N, nn) in ((3, -1), (8, 3), (30, 10), (30, 30))
              for pr in (False, True)]
    corpus += [{"mode": m, "storage": "se3", "N": 12, "n": -1, "preread": pr, "flavour": fl}
               for m in MODES[:3] for pr in (False, True) for fl in ("stacked", "lists")]
    for i in run.mine(len(corpus)):
        k_align(run, run.case("align", 10**6 + i, **corpus[i]))
    rc = [{"combo": c, "tool": t} for c in [(True, False, False), (True, True, False),
                                             (False, True, False), (False, False, True),
                                             (False, True, True)] for t in ("ape", "rpe")
          for _ in range(3)]
    for i in run.mine(len(rc)):
        k_recorded(run, run.case("recorded", 10**6 + i, **rc[i]))
    for i in run.mine(n):
        k_align(run, run.case("align", i))
    for i in run.mine(n // 20):
        k_align(run, run.case("align", 2 * 10**6 + i, toy=True))
    for i in run.mine(n // 4):
        k_origin(run, run.case("origin", i))
    for i in run.mine({"quick": 80, "thorough": 2000}[run.tier]):
        k_cli(run, run.case("cli", i, tool=["ape", "rpe"][i % 2],
                            force_options=[["n_to_align", "scale_only"], ["n_to_align"], ["scale_only"]][(i // 2) % 3]))
    for i in run.mine(n // 4):
        k_recorded(run, run.case("recorded", i))
    combos = [dict(align=a, correct_scale=cs, align_origin=o) for a, cs, o in
              ((True, False, False), (True, True, False), (False, True, False), (False, False, True), (False, True, True))]
    for i in run.mine({"quick": 60, "thorough": 1500}[run.tier]):
        k_cli(run, run.case("cli", 10**6 + i, tool="traj", fmt=["tum", "euroc", "kitti"][i % 3],
                            force=dict(combos[i % 5], use_ref=True, merge=False, sync=False)))
    run.need("evo_traj runs with alignment options judged", "evo_ape / evo_rpe runs with alignment options judged", "positions moved by exactly the returned similarity",
             "orientations rotated by exactly the returned rotation", "reference unchanged",
             "align-result: optimal vs Horn", "result depends on the first n pairs only",
             "re-alignment is the identity", "RMSE not larger than before",
             "first pose mapped onto reference's first pose",
             "origin alignment preserves relative poses",
             "recorded matrix maps unaligned positions onto stored ones")
