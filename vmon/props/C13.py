"""
C13 - Merging and tabulating results averages or concatenates exactly as documented.
Contract on result.merge_results with deep pre-snapshots against an own merge model, and the
CSV table of real evo_res runs (parsed with an own reader) against the statistics stored in the
input archives (read with an own zip reader).
"""
import csv
import io
import json
import math
import os

import numpy as np

from vmon import core, gen, contracts, cli
from vmon.props import C01

ANCHORS = ['evo/core/result.py', 'evo/tools/pandas_bridge.py', 'evo/main_res.py']
LEVEL = "exploration"
SHARDS = {"quick": 8, "thorough": 16}
RULE = ("lists of 1..8 results with arbitrary statistic values and array lengths (equal, unequal, "
        "empty), key sets equal or differing in one key, key insertion order varied per result; "
        "evo_res on 1..5 archives (generated and from real evo_ape runs) with labels by est_name / "
        "file name, with/without --merge; distinct = digest of the result contents / (archives, "
        "argv); non-trivial = at least two results")
ASSUMPTIONS = ["'when all inputs have equal array lengths' is read per merge, as evo implements and logs it "
               "('Appending raw value arrays due to different lengths'): as soon as one array differs in "
               "length between the inputs, every array is concatenated"]
STAT_KEYS = ["rmse", "mean", "median", "std", "min", "max", "sse"]


def make_result(rng, keys_stats, keys_arrays, lengths, order_seed, name, in_memory=False):
    from evo.core.result import Result
    r = Result()
    r.info = {"title": "APE w.r.t. translation part (m)", "label": "APE (m)", "ref_name": "ref.txt",
              "est_name": name, "note": "π unicode ✓"}
    if in_memory and rng.random() < .4:
        # annotations of an API user (results that never went through a file): tuples, dictionaries
        # keyed by numbers, numpy scalars, None
        extra = {"plot_limits": (0.0, 2.5), "segment_names": {0: "warm-up", 1: "loop", 2.5: "half"},
                 "n_runs": np.int64(5), "threshold": np.float32(0.25), "comment": None,
                 "nested": {"window": (3, 7), "flags": [True, None]}}
        for k in extra:
            if rng.random() < .5:
                r.info[k] = extra[k]
    ks = list(keys_stats)
    ka = list(keys_arrays)
    o = np.random.default_rng(order_seed)
    o.shuffle(ks)
    o.shuffle(ka)
    for k in ks:
        r.stats[k] = float(rng.normal() * 10.0**rng.uniform(-6, 6))
    for k in ka:
        L = lengths[k]
        if isinstance(L, tuple):
            r.np_arrays[k] = rng.normal(size=L)
        else:
            r.np_arrays[k] = rng.normal(size=L) * 10.0**rng.uniform(-3, 3)
    return r


def snapshot_result(r):
    return {"info": dict(r.info), "stats": dict(r.stats), "stats_order": list(r.stats),
            "arrays": {k: (v.shape, v.tobytes()) for k, v in r.np_arrays.items()},
            "traj": list(r.trajectories)}


def k_merge(run, case):
    from evo.core import result as result_mod
    rng = run.rng(case)
    n = int(case.get("n") or rng.integers(1, 9))
    keys_stats = ["rmse", "mean", "max"] + (["extra"] if rng.random() < .3 else [])
    keys_arrays = ["error_array", "timestamps"][:int(rng.integers(1, 3))] + (["M"] if rng.random() < .3 else [])
    mode = case.get("mode") or ["equal", "unequal", "mixed", "empty", "stat_key_differs",
                                "array_key_differs"][rng.integers(6)]
    base_len = int(rng.integers(1, 30))
    results = []
    for i in range(n):
        lengths = {}
        for k in keys_arrays:
            if k == "M":
                lengths[k] = (4, 4)
            elif mode == "equal":
                lengths[k] = base_len
            elif mode == "empty":
                lengths[k] = 0
            elif mode == "mixed":
                lengths[k] = base_len if k != "error_array" else int(rng.integers(1, 30))
            else:
                lengths[k] = int(rng.integers(0, 30))
        order_seed = int(rng.integers(2**31)) if case.get("shuffle", True) else 0
        results.append(make_result(rng, keys_stats, keys_arrays, lengths, order_seed, "est%d.txt" % i, in_memory=True))
    if mode == "stat_key_differs" and n > 1:
        r = results[int(rng.integers(n))]
        if rng.random() < .5:
            r.stats["only_here"] = 1.0
        else:
            r.stats.pop("max")
    if mode == "array_key_differs" and n > 1:
        r = results[int(rng.integers(n))]
        if rng.random() < .5:
            r.np_arrays["only_here"] = np.zeros(3)
        else:
            r.np_arrays.pop("error_array")
    if rng.random() < .2 and len(keys_arrays) >= 2:
        # one array object stored under two keys of a result (timestamps and seconds-from-start of
        # a run that starts at t = 0, a placeholder shared by two entries): equal values, one buffer
        r = results[int(rng.integers(n)) if rng.random() < .5 else 0]
        ka = [k for k in keys_arrays if k != "M"]
        if len(ka) >= 2 and ka[0] in r.np_arrays and ka[1] in r.np_arrays and \
                r.np_arrays[ka[0]].shape == r.np_arrays[ka[1]].shape:
            r.np_arrays[ka[1]] = r.np_arrays[ka[0]]
            run.hit("results holding one array object under two keys")
    snaps = [snapshot_result(r) for r in results]
    with core.quiet():
        out = contracts.outcome_of(result_mod.merge_results, results)
    run.seen(case, core.digest([s["stats"] for s in snaps], [sorted(s["arrays"].items()) for s in snaps]),
             nontrivial=n > 1, cls=["merge:" + mode, "n=%d" % n],
             sample={"n": n, "mode": mode, "array_lengths": [[v.size for v in r.np_arrays.values()] for r in results][:4],
                     "outcome": out[0]})
    for r, s in zip(results, snaps):
        run.counters["merge leaves every input result unchanged"] += 1
        if snapshot_result(r) != s:
            run.violation("merge:input-modified", "merge_results modified an input result", case)
            return
    differs = n > 1 and (len({frozenset(s["stats"]) for s in snaps}) > 1 or
                         len({frozenset(s["arrays"]) for s in snaps}) > 1)
    if differs:
        run.check(out[0] == "exc" and isinstance(out[1], result_mod.ResultException),
                  "results with different keys refused", case,
                  "results with differing stat/array keys were not refused: %r" % (out[1], ),
                  key="merge:different-keys-accepted")
        return
    if not run.check(out[0] == "ok", "merge succeeds on equal key sets", case,
                     "merge_results raised %r" % (out[1], ), key="merge:unexpected-exception"):
        return
    m = out[1]
    if n == 1:
        run.check(snapshot_result(m) == snaps[0], "single result returned unchanged", case,
                  "merging a single result changed it", key="merge:single-changed")
        return
    run.check(m.info == snaps[0]["info"], "info of the first result kept", case,
              "merged info is not the first result's info", key="merge:info")
    run.check(set(m.stats) == set(snaps[0]["stats"]) and set(m.np_arrays) == set(snaps[0]["arrays"]),
              "merged result has the same keys", case, "merged key sets differ", key="merge:keys")
    for k in snaps[0]["stats"]:
        vals = [s["stats"][k] for s in snaps]
        want = math.fsum(vals) / n
        tol = 4 * n * float(np.spacing(max(abs(v) for v in vals) + abs(want))) + 1e-300
        run.counters["merged statistic == arithmetic mean"] += 1
        if not abs(m.stats[k] - want) <= tol:
            run.violation("merge:stat-not-mean", "merged %s=%r but the mean of the inputs is %r" %
                          (k, m.stats[k], want), case)
            return
    per_key_equal = {k: len({s["arrays"][k][0] for s in snaps}) == 1 for k in snaps[0]["arrays"]}
    all_equal = all(per_key_equal.values())
    for k in snaps[0]["arrays"]:
        arrs = [np.frombuffer(s["arrays"][k][1], dtype=float).reshape(s["arrays"][k][0]) for s in snaps]
        got = np.asarray(m.np_arrays[k], dtype=float)
        cat = np.concatenate([a.ravel() for a in arrs])
        if per_key_equal[k]:
            mean = np.sum(arrs, axis=0) / n
            tol = 4 * n * np.spacing(np.max(np.abs(arrs), axis=0) + np.abs(mean)) if mean.size else 0
            is_mean = got.shape == mean.shape and (mean.size == 0 or bool(np.all(np.abs(got - mean) <= tol)))
            is_cat = got.ravel().shape == cat.shape and core.bits_equal(got.ravel(), cat)
            if all_equal:
                run.check(is_mean, "equal lengths: element-wise mean", case,
                          "all inputs have equal array lengths but %s is not their element-wise mean "
                          "(shape %s)" % (k, got.shape), key="merge:not-averaged")
            else:
                # some other array of these results differs in length: the inputs do not "all
                # have equal array lengths", so every array is concatenated (one strategy per merge)
                run.check(is_cat, "mixed lengths: every array concatenated", case,
                          "the inputs differ in the length of another array, but %s is not the "
                          "concatenation of the inputs in input order%s" %
                          (k, " (it is their element-wise mean)" if is_mean else ""),
                          key="merge:mixed-lengths-not-concatenated")
        else:
            run.check(got.ravel().shape == cat.shape and core.bits_equal(got.ravel(), cat),
                      "unequal lengths: concatenation in input order", case,
                      "%s (lengths %s) is not the concatenation of the inputs in input order" %
                      (k, [a.size for a in arrs]), key="merge:not-concatenated")


def is_number(cell):
    try:
        float(cell)
        return True
    except (TypeError, ValueError):
        return False


def parse_csv(path, transposed=True):
    rows = list(csv.reader(io.StringIO(open(path, encoding="utf-8").read())))
    if not transposed:
        # package setting table_export_transpose = false: one row per statistic, one column per label
        labels = rows[0][1:]
        header = [r[0] for r in rows[1:]]
        table = {}
        for c, lab in enumerate(labels):
            table.setdefault(lab, []).append({r[0]: r[1 + c] for r in rows[1:]})
        return header, table, list(labels)
    header = rows[0][1:]
    table = {}
    order = []
    for r in rows[1:]:
        table.setdefault(r[0], []).append(dict(zip(header, r[1:])))
        order.append(r[0])
    return header, table, order


def res_cli(run, case, rng, work):
    from evo.tools import file_interface
    n = int(rng.integers(1, 6))
    use_filenames = bool(rng.random() < .4)
    merge = bool(rng.random() < .3) and n > 1
    files, stored, labels = [], [], []
    base_len = int(rng.integers(1, 20))
    equal_len = bool(rng.random() < .5)
    dup = bool(rng.random() < .1) and n > 1 and not use_filenames and not merge
    # a statistic that is exactly 0.0 in every result of the call (e.g. min after origin alignment)
    zero_keys = [STAT_KEYS[rng.integers(len(STAT_KEYS))]] if rng.random() < .2 else []
    name_class = ["plain", "plain", "plain", "plain", "brackets", "odd"][rng.integers(6)]
    holes_in = int(rng.integers(n)) if rng.random() < .15 else -1
    collide = bool(rng.random() < .12)
    all_real = bool(rng.random() < .15) and not zero_keys and not collide  # every input comes from a real run (all carry timestamps)
    if all_real:
        n = min(n, 3)
    for i in range(n):
        if (all_real or rng.random() < .25) and not zero_keys and not collide:
            # a real evo_ape archive
            sub = os.path.join(work, "run%d" % i)
            os.makedirs(sub)
            if rng.random() < .5:
                rec = C01.ape_cli(C01.NullRun(run.tier), dict(case, fmt="tum"), rng, sub)
            else:
                # ... or a real evo_rpe archive, all-pairs mode with a metre / angle delta included
                # (several values may belong to pairs ending at the same pose)
                from vmon.props import C02
                rec = C02.rpe_cli(C01.NullRun(run.tier), dict(case, fmt="tum", force_all_pairs=bool(rng.random() < .7),
                                                              force_unit="mdrf"[rng.integers(4)], force_tol=[0.1, 0.3][rng.integers(2)]), rng, sub)
            path = os.path.join(sub, "out.zip")
            if not os.path.exists(path):
                continue  # (refused run: no archive; an archive is used whatever its producer's own check says)
            newp = os.path.join(work, "real%d.zip" % i)
            os.replace(path, newp)
            run.hit("evo_res inputs produced by real evo_ape / evo_rpe runs")
            # make est names unique across real runs: they are all 'est.txt'
            z = C01.read_result_zip(newp)
            files.append(newp)
            stored.append(z)
        else:
            lengths = {"error_array": base_len if equal_len else int(rng.integers(1, 20))}
            name = "sub dir/est_%d.txt" % (0 if dup else i)
            r = make_result(rng, STAT_KEYS, ["error_array"], lengths, int(rng.integers(2**31)), name)
            for zk in zero_keys:
                r.stats[zk] = 0.0
            if collide:
                # a statistic named like one of the stored arrays (the two live in different sections)
                r.stats["distances"] = float(rng.normal() * 10)
                r.np_arrays["distances"] = np.cumsum(np.abs(rng.normal(size=lengths["error_array"])))
            if i == holes_in and not merge:
                r.stats.pop(STAT_KEYS[rng.integers(len(STAT_KEYS))])  # an older file without that statistic
            p = os.path.join(work, "gen%d.zip" % i)
            if name_class == "brackets":
                # a legal file name that is also a glob pattern matching a sibling (not listed) file
                file_interface.save_res_file(p, make_result(rng, STAT_KEYS, ["error_array"], lengths, 1, "decoy_%d.txt" % i))
                p = os.path.join(work, "gen[%d].zip" % i)
            elif name_class == "odd":
                p = os.path.join(work, ["gen %d ü.zip", "gen*%d.zip", "gen?%d.zip"][i % 3] % i)
            file_interface.save_res_file(p, r)
            files.append(p)
            stored.append(C01.read_result_zip(p))
    if not files:
        return
    if rng.random() < .12:
        # the identical path listed more than once (e.g. from a shell glob plus an explicit name)
        k = int(rng.integers(len(files)))
        files.append(files[k])
        stored.append(stored[k])
    n = len(files)
    merge = merge and n > 1
    for f, z in zip(files, stored):
        labels.append(os.path.basename(f) if use_filenames else os.path.basename(z["info"]["est_name"]))
    argv = [os.path.basename(f) for f in files] + ["--save_table", "table.csv", "--no_warnings"]
    if use_filenames:
        argv.append("--use_filenames")
    if merge:
        argv.append("--merge")
    if rng.random() < .3:
        argv.append("--ignore_title")
    if use_filenames:
        labels = [os.path.basename(f) for f in files]
    # options that must not influence the table
    for extra in (["-v"], ["--silent"], ["--debug"], ["--use_rel_time"], ["--plot_markers"], ["--logfile", "log.txt"]):
        if rng.random() < .08:
            argv += extra
    # package settings that shape the table (here given for the session through -c)
    transposed = bool(rng.random() >= .25)
    # package setting table_export_transpose: evo binds it as a default argument of
    # save_df_as_table when the module is imported - a process started with the setting switched
    # off in ~/.evo/settings.json is emulated by that function's defaults
    from evo.tools import pandas_bridge
    saved_defaults = pandas_bridge.save_df_as_table.__defaults__
    try:
        if not transposed:
            pandas_bridge.save_df_as_table.__defaults__ = (saved_defaults[0], False) + tuple(saved_defaults[2:])
        res = cli.run_cli("res", argv, cwd=work)
    finally:
        pandas_bridge.save_df_as_table.__defaults__ = saved_defaults
    got = C01.outcome_class(res)
    run.seen(case, core.digest([z["stats"] for z in stored], argv), nontrivial=n > 1,
             cls=["evo_res n=%d" % n, "labels:" + ("filenames" if use_filenames else "est_name"),
                  "merge" if merge else "no merge"], sample={"argv": argv, "outcome": got or "ok"})
    key_sets = {frozenset(z["stats"]) for z in stored}
    akey_sets = {frozenset(z["arrays"]) for z in stored}
    if merge and (len(key_sets) > 1 or len(akey_sets) > 1):
        run.check(got == "ResultException", "evo_res --merge refuses differing keys", case,
                  "expected ResultException, got %s" % got, key="res:merge-keys")
        return
    if not merge and len(set(labels)) < len(labels):
        run.check(got == "exit 1", "duplicate labels are refused", case,
                  "duplicate labels %s were not refused (got %s)" % (labels, got), key="res:duplicates")
        run.hit("evo_res: duplicate labels refused")
        return
    if not merge and len(key_sets) > 1:
        run.hit("evo_res: differing stat keys without merge (NaN cells, not judged)")
    if not run.check(got is None, "evo_res succeeds", case, "evo_res failed with %s: %r (argv %s)" %
                     (got, res.exc, argv), key="res:unexpected-failure"):
        return
    header, table, order = parse_csv(os.path.join(work, "table.csv"), transposed)
    if merge:
        label = os.path.basename(stored[0]["info"]["est_name"])
        rows = table.get(label)
        if not run.check(rows is not None and len(rows) == 1 and len(order) == 1,
                         "merged table has one row under the first result's label", case,
                         "table rows %s, expected the single label %r" % (order, label), key="res:merge-row"):
            return
        for k in stored[0]["stats"]:
            vals = [z["stats"][k] for z in stored]
            want = math.fsum(vals) / n
            cell = rows[0].get(k)
            run.counters["--merge cell == mean of the stored statistics"] += 1
            if cell in (None, "") or not is_number(cell) or not abs(float(cell) - want) <= 4 * n * float(np.spacing(max(map(abs, vals)) + abs(want))):
                run.violation("res:merge-cell", "--merge: %s cell %r but the mean of the stored values is %r" %
                              (k, cell, want), case, argv=argv)
                return
        return
    run.check(order == labels, "one row per input file under its label, in input order", case,
              "table rows %s, expected %s" % (order, labels), key="res:rows")
    for z, label in zip(stored, labels):
        rows = table.get(label)
        if not rows or len(rows) != 1:
            run.violation("res:rows", "no unique row for label %r" % label, case, argv=argv)
            return
        for k, v in z["stats"].items():
            cell = rows[0].get(k)
            run.counters["table cell == statistic stored in that file"] += 1
            if cell in (None, "") or not is_number(cell) or float(cell) != float(v):
                run.violation("res:cell", "row %r column %s holds %r but the file stores %r" %
                              (label, k, cell, v), case, argv=argv)
                return
        extra = [k for k in header if k not in z["stats"] and rows[0].get(k) not in ("", None)]
        run.check(not extra, "no statistics from other files in a row", case,
                  "row %r has values in columns %s that its file does not store" % (label, extra),
                  key="res:foreign-cells")


k_res = C01.with_workdir(res_cli)
def k_same_process(run, case):
    """
    Several evo commands in one Python process (a script, a notebook): evo_ape runs with --silent
    (or -v), then evo_res without it - the statistics table is printed, with a column / row for
    every result, whatever the earlier commands of the process did to the logging set-up.
    """
    import contextlib
    import shutil
    from evo import main_ape, main_ape_parser, main_res, main_res_parser
    rng = run.rng(case)
    work = os.path.join(os.environ.get("VMON_WORK", "."), "c13s_%d" % case["rs"][-1])
    os.makedirs(work, exist_ok=True)
    cwd = os.getcwd()
    try:
        os.chdir(work)
        zips = []
        first_flags = [["--silent"], ["-v"], []][case.get("first", int(rng.integers(3)))]
        for i in range(int(rng.integers(2, 4))):
            sub = os.path.join(work, "r%d" % i)
            os.makedirs(sub)
            fp = C01.make_file_pair(rng, "tum", sub, n=int(rng.integers(10, 30)))
            z = os.path.join(work, "res_%d.zip" % i)
            argv = ["tum", fp["ref_path"], fp["est_path"], "--t_max_diff", repr(float(fp["dt"]) * 0.45), "--t_offset", "%.9f" % fp["offset"],
                    "--save_results", z, "--no_warnings"] + (first_flags if i == 0 else [["--silent"], []][int(rng.integers(2))])
            with contextlib.redirect_stdout(io.StringIO()), contextlib.redirect_stderr(io.StringIO()):
                out = contracts.outcome_of(main_ape.run, main_ape_parser.parser().parse_args(argv))
            if out[0] == "ok" and os.path.exists(z):
                zips.append(z)
        if len(zips) < 2:
            run.hit("same process: fewer than two archives produced (not judged)")
            return
        buf = io.StringIO()
        with contextlib.redirect_stdout(buf), contextlib.redirect_stderr(io.StringIO()):
            out = contracts.outcome_of(main_res.run, main_res_parser.parser().parse_args(zips + ["--use_filenames", "--no_warnings"]))
        text = buf.getvalue()
        run.seen(case, core.digest("same-process", first_flags, len(zips)), cls=["evo_res after %s evo_ape runs in the same process" % (first_flags or ["plain"])[0]],
                 sample={"first_flags": first_flags, "archives": len(zips), "printed_chars": len(text)})
        if not run.check(out[0] == "ok", "evo_res succeeds after other commands of the same process", case,
                         "evo_res raised %r" % (out[1], ), key="same-process:raised"):
            return
        missing = [os.path.basename(z) for z in zips if os.path.basename(z) not in text]
        run.check(not missing and "rmse" in text, "the statistics table is printed with an entry for every result", case,
                  "evo_res printed no table entry for %s (printed %d characters) after evo_ape %s ran in the same process" %
                  (missing or "rmse", len(text), first_flags), key="same-process:table-not-printed")
    finally:
        os.chdir(cwd)
        shutil.rmtree(work, ignore_errors=True)
        cli._reset_logging()
        core.silence_evo_logging()


def k_exe_layout(run, case):
    """
    The real evo_res executable (fresh interpreter) with the options written before, after or
    between the result files: the table either has a row for every file named on the command line,
    or the command is refused (non-zero exit status) and writes no table - never a table for a
    part of the files.
    """
    import shutil
    from evo.tools import file_interface
    from vmon import cli
    rng = run.rng(case)
    work = os.path.join(os.environ.get("VMON_WORK", "."), "c13x_%d" % case["rs"][-1])
    os.makedirs(work, exist_ok=True)
    try:
        k = int(rng.integers(2, 5))
        names = []
        for i in range(k):
            r = make_result(rng, STAT_KEYS, ["error_array"], {"error_array": 12}, int(rng.integers(2**31)), "est_%d.txt" % i)
            name = "res_%d.zip" % i
            if case.get("odd_names") and i == 1:
                # names that look like something else to a launcher: ROS remappings, options, assignments
                name = ["run:=2.zip", "__name:=res.zip", "a=b.zip", "res@host:1.zip"][int(rng.integers(4))]
            file_interface.save_res_file(os.path.join(work, name), r)
            names.append(name)
        opts = [["--use_filenames"], ["--use_filenames", "--ignore_title"], ["--use_filenames", "-v"],
                ["--use_filenames", "--use_rel_time"]][rng.integers(4)]
        layout = case.get("layout") or ["before", "after", "between", "between"][rng.integers(4)]
        out_opts = ["--save_table", "table.csv", "--no_warnings"]
        if case.get("target") == "stdout":
            # the table piped on (evo_res ... --save_table /dev/stdout | column -s, -t): a device is
            # no file that could be overwritten - written without a question, warnings enabled
            out_opts = ["--save_table", "/dev/stdout", "--silent"]
        table_name = "table.csv"
        if case.get("target") == "eq":
            # --option=value spelling, the value holding dashes (dates, version tags)
            table_name = "ape-stats_2024-05-01-v1.csv"
            out_opts = ["--save_table=" + table_name, "--no_warnings"]
        if layout == "before":
            argv = opts + names + out_opts
        elif layout == "after":
            argv = names + opts + out_opts
        else:
            cut = int(rng.integers(1, k))
            argv = names[:cut] + opts + names[cut:] + out_opts
        pr = cli.run_subprocess("res", argv, work, os.environ["HOME"])
        table = os.path.join(work, table_name)
        if case.get("target") == "stdout" and layout != "between":
            run.seen(case, core.digest(layout, opts, k, "stdout"), cls=["evo_res executable, table written to /dev/stdout"],
                     sample={"argv": argv, "exit": pr.returncode})
            missing = [nm for nm in names if nm not in pr.stdout]
            run.check(pr.returncode == 0 and not missing, "evo_res executable: table written to a device", case,
                      "evo_res %s: exit %d, rows missing for %s; stderr %s" % (argv, pr.returncode, missing, pr.stderr[-200:]),
                      key="exe:table-to-device")
            return
        run.seen(case, core.digest(layout, opts, k), cls=["evo_res executable, options %s the files" % layout],
                 sample={"argv": argv, "exit": pr.returncode, "table_written": os.path.exists(table)})
        if pr.returncode != 0:
            run.check(not os.path.exists(table), "a refused evo_res command writes no table", case,
                      "evo_res %s exited with %d but wrote a table" % (argv, pr.returncode), key="exe:table-after-refusal")
            run.hit("evo_res executable: layout refused")
            run.check(layout == "between", "options before / after the files are accepted", case,
                      "evo_res %s failed: %s" % (argv, pr.stderr[-300:]), key="exe:layout-refused")
            return
        text = open(table).read() if os.path.exists(table) else ""
        missing = [nm for nm in names if nm not in text]
        run.check(os.path.exists(table) and not missing, "evo_res executable: a row for every file on the command line", case,
                  "evo_res %s succeeded but its table has no row for %s" % (argv, missing), key="exe:rows-missing")
    finally:
        shutil.rmtree(work, ignore_errors=True)


KINDS = {"same_process": k_same_process, "exe_layout": k_exe_layout, "merge": k_merge, "res": k_res}


def main(run):
    corpus = [{"mode": m, "n": n} for m in ("equal", "unequal", "mixed", "empty", "stat_key_differs",
                                            "array_key_differs") for n in (1, 2, 3, 8)]
    for i in run.mine(len(corpus)):
        k_merge(run, run.case("merge", 10**6 + i, **corpus[i]))
    for i in run.mine({"quick": 2500, "thorough": 60000}[run.tier]):
        k_merge(run, run.case("merge", i))
    for i in run.mine({"quick": 160, "thorough": 2500}[run.tier]):
        k_res(run, run.case("res", i))
    for i in run.mine({"quick": 12, "thorough": 150}[run.tier]):
        k_same_process(run, run.case("same_process", i, first=i % 3))
    for i in run.mine({"quick": 12, "thorough": 120}[run.tier]):
        k_exe_layout(run, run.case("exe_layout", i, layout=["between", "before", "between", "after"][i % 4],
                                   target="stdout" if i % 4 in (1, 3) and i % 8 >= 4 else "eq" if i % 4 in (1, 3) else None,
                                   odd_names=(i % 2 == 1)))
    run.need("evo_res executable: a row for every file on the command line", "merged statistic == arithmetic mean", "equal lengths: element-wise mean",
             "unequal lengths: concatenation in input order", "results with different keys refused",
             "single result returned unchanged", "info of the first result kept",
             "merge leaves every input result unchanged",
             "table cell == statistic stored in that file",
             "--merge cell == mean of the stored statistics",
             "one row per input file under its label, in input order")
