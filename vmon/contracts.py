"""
vmon.contracts - oracles ("contracts") evaluated on real calls of evo functions, and helpers
to install them as wrappers on the real module attributes / class methods from outside.

Every oracle takes the Run collector, the case (for the replay file), the pre-state / arguments
and the observed outcome, records its clause evaluations and never raises into evo.
"""
import contextlib
import math

import numpy as np

from vmon import core
from vmon import refmodel as rm

PI = math.pi


# ------------------------------------------------------------------ generic wrapper helper
@contextlib.contextmanager
def wrapped(owner, name, make_wrapper):
    """temporarily replace owner.name by make_wrapper(original)"""
    orig = getattr(owner, name)
    setattr(owner, name, make_wrapper(orig))
    try:
        yield
    finally:
        setattr(owner, name, orig)


def outcome_of(fn, *a, **kw):
    """call fn, return ('ok', value) or ('exc', exception)"""
    try:
        return ("ok", fn(*a, **kw))
    except (Exception, SystemExit) as e:  # noqa - the monitor classifies the exception
        return ("exc", e)


class numeric_env:
    """
    The floating-point error state / warning policy of the calling program: numpy's default,
    np.errstate(divide / invalid / over = 'raise') (numerical code bases that want to hear about
    NaNs), or RuntimeWarnings turned into errors (python -W error::RuntimeWarning, pytest -W error).
    evo's answer must not depend on it.
    """
    KINDS = ["default", "default", "default", "default", "errstate-raise", "warnings-as-errors"]

    def __init__(self, rng, kind=None):
        self.kind = kind or self.KINDS[int(rng.integers(len(self.KINDS)))]

    def __enter__(self):
        import warnings
        self._stack = []
        if self.kind == "errstate-raise":
            cm = np.errstate(divide="raise", invalid="raise", over="raise")
            cm.__enter__()
            self._stack.append(cm)
        elif self.kind == "warnings-as-errors":
            cm = warnings.catch_warnings()
            cm.__enter__()
            warnings.simplefilter("error", RuntimeWarning)
            self._stack.append(cm)
        return self

    def __exit__(self, *exc):
        for cm in reversed(self._stack):
            cm.__exit__(*exc)
        return False


# ------------------------------------------------------------------ C03 Umeyama oracle
def centred_singular_values(x, y):
    n = x.shape[1]
    xc = x - x.mean(axis=1)[:, None]
    yc = y - y.mean(axis=1)[:, None]
    cov = (yc @ xc.T) / n
    d = np.linalg.svd(cov, compute_uv=False)
    return d, float(np.linalg.det(cov)), xc, yc


def exactly_degenerate_set(p):
    """the statement's exactly degenerate classes, decided structurally: one point, all points
    coincident, or all points on one coordinate axis (two coordinate rows identically zero)"""
    p = np.asarray(p, dtype=float)
    if p.shape[1] <= 1:
        return True
    if bool(np.all(p == p[:, :1])):
        return True
    zero_rows = int(sum(bool(np.all(p[k] == 0.0)) for k in range(p.shape[0])))
    return zero_rows >= p.shape[0] - 1


def umeyama_oracle(run, case, x, y, with_scale, outcome, pfx="umeyama", cloud_rng=None):
    """
    Judge one observed call geometry.umeyama_alignment(x, y, with_scale) -> outcome.
    Returns a dict with classification info (or None if refused/violated).
    """
    from evo.core.geometry import GeometryException
    kind, val = outcome
    x = np.asarray(x, dtype=float)
    y = np.asarray(y, dtype=float)
    if x.shape != y.shape:
        run.check(kind == "exc" and isinstance(val, GeometryException),
                  pfx + ": unequal shapes refused", case,
                  "unequal shapes %s/%s not refused with GeometryException: %r" %
                  (x.shape, y.shape, val), key=pfx + ":shape-not-refused")
        return None
    n = x.shape[1]
    d, detcov, xc, yc = centred_singular_values(x, y)
    d1 = float(d[0])
    well = d1 > 0 and d[1] > 1e-10 * d1 and d[1] > 1e-12
    exactly_degenerate = exactly_degenerate_set(x) or exactly_degenerate_set(y)
    if kind == "exc":
        if not isinstance(val, GeometryException):
            run.check(False, pfx + ": only GeometryException", case,
                      "raised %s: %s" % (type(val).__name__, val), key=pfx + ":wrong-exception")
            return None
        run.check(not well, pfx + ": determined input not refused", case,
                  "GeometryException although the point sets determine a rotation "
                  "(singular values %s)" % (d, ), key=pfx + ":refused-determined", x=x, y=y)
        run.hit(pfx + ": refusals (degenerate or grey zone)")
        return None
    r, t, c = val
    r = np.asarray(r, dtype=float)
    t = np.asarray(t, dtype=float)
    if exactly_degenerate:
        run.check(False, pfx + ": exactly degenerate refused", case,
                  "exactly degenerate input (singular values %s, n=%d) was not refused" % (d, n),
                  key=pfx + ":degenerate-accepted", x=x, y=y)
        return None
    ok = True
    defect = rm.rot_defect(r) if r.shape == (3, 3) else float("inf")
    run.note_max("max_rot_defect_umeyama", defect if math.isfinite(defect) else 1e300)
    ok &= run.check(defect <= 1e-9, pfx + ": proper rotation", case,
                    "returned matrix is %g away from SO(3) (det %r)" %
                    (defect, float(np.linalg.det(r)) if r.shape == (3, 3) else None),
                    key=pfx + ":improper", x=x, y=y, r=r)
    if with_scale:
        ok &= run.check(isinstance(c, (float, np.floating)) and c > 0 and math.isfinite(c),
                        pfx + ": scale positive", case, "scale %r is not positive" % (c, ),
                        key=pfx + ":scale-not-positive", x=x, y=y)
    else:
        ok &= run.check(c == 1.0, pfx + ": scale exactly 1 without scale estimation", case,
                        "scale %r returned although scale estimation is off" % (c, ),
                        key=pfx + ":scale-not-one", x=x, y=y)
    if not ok:
        return None
    # ---- optimality against Horn and a perturbation cloud
    energy = float(np.sum(yc * yc))
    ex = float(np.sum(xc * xc))
    off = max(float(np.max(np.abs(x.mean(axis=1)))) * abs(c), float(np.max(np.abs(y.mean(axis=1)))))
    # rounding head-room: cancellation against the common offset
    s_evo = rm.sse(r, t, c, x, y)
    off = off + float(np.max(np.abs(t)))
    u_off = 32 * 2.3e-16 * (off + 1e-300)  # rounding of one residual coordinate
    tol = 1e-9 * energy + 1e-9 * (c * c) * ex + 8 * math.sqrt(n * max(s_evo, 0.0)) * u_off \
        + n * u_off**2 + 1e-300
    Rh, th, ch, gap = rm.horn_alignment(x, y, with_scale)
    s_horn = rm.sse(Rh, th, ch, x, y)
    run.note_max("max_sse_excess_over_horn_rel", (s_evo - s_horn) / (energy + 1e-300))
    run.check(s_evo <= s_horn + tol, pfx + ": optimal vs Horn", case,
              "SSE %r exceeds that of Horn's closed-form solution %r (tol %g)" %
              (s_evo, s_horn, tol), key=pfx + ":not-optimal", x=x, y=y, r=r, t=t, c=c)
    rng = cloud_rng if cloud_rng is not None else np.random.default_rng(12345)
    mx, my = x.mean(axis=1), y.mean(axis=1)
    worst = 0.0
    for eps in (1e-6, 1e-4, 1e-2, 1e-1, 1.0):
        ax = rng.normal(size=3)
        r2 = r @ rm.rodrigues(ax, eps)
        cands = [(r2, my - c * (r2 @ mx), c)]
        cands.append((r, t + rng.normal(size=3) * eps * math.sqrt(energy / n + 1e-300), c))
        if with_scale:
            c2 = c * (1 + eps * (1 if rng.random() < .5 else -1) * 0.5)
            cands.append((r, my - c2 * (r @ mx), c2))
        for (rr, tt, cc) in cands:
            s2 = rm.sse(rr, tt, cc, x, y)
            worst = max(worst, s_evo - s2)
            run.check(s_evo <= s2 + tol, pfx + ": optimal vs perturbation", case,
                      "SSE %r is beaten by a perturbed transformation (%r)" % (s_evo, s2),
                      key=pfx + ":not-optimal", x=x, y=y, r=r, t=t, c=c)
    if detcov < 0:
        run.hit(pfx + ": reflection branch (det cov < 0) observed")
    return {"d": d, "gap": gap, "well": well, "r": r, "t": t, "c": c, "horn": (Rh, th, ch)}


# ------------------------------------------------------------------ object snapshots
def field_snapshot(obj, _seen=None):
    """
    Bit-level snapshot of the fields that currently exist on a trajectory / result object,
    WITHOUT forcing any lazy view (so the monitor neither masks nor creates stale caches).
    (Objects reachable through dictionaries are followed once: metadata may refer back.)
    """
    snap = {}
    _seen = set() if _seen is None else _seen
    if id(obj) in _seen:
        return {"<cycle>": ("val", "back-reference")}
    _seen.add(id(obj))
    d = getattr(obj, "__dict__", {})
    for k, v in d.items():
        if isinstance(v, np.ndarray):
            snap[k] = ("nd", v.shape, str(v.dtype), np.ascontiguousarray(v).tobytes())
        elif isinstance(v, (list, tuple)) and len(v) and isinstance(v[0], np.ndarray):
            snap[k] = ("ndlist", len(v), b"".join(np.ascontiguousarray(a).tobytes() for a in v))
        elif isinstance(v, dict):
            snap[k] = ("dict", _dict_snapshot(v, _seen))
        else:
            snap[k] = ("val", repr(v))
    return snap


def _dict_snapshot(dct, _seen=None):
    out = {}
    for k in dct:
        v = dct[k]
        if isinstance(v, np.ndarray):
            out[repr(k)] = ("nd", v.shape, str(v.dtype), np.ascontiguousarray(v).tobytes())
        elif hasattr(v, "__dict__") and not isinstance(v, type):
            out[repr(k)] = ("obj", field_snapshot(v, _seen))
        else:
            out[repr(k)] = ("val", repr(v))
    return out


def snapshot_diff(before, after, prefix=""):
    """names of fields that existed before and differ now (new lazily created fields are fine)"""
    bad = []
    for k, v in before.items():
        if k not in after:
            bad.append(prefix + k + " (removed)")
        elif isinstance(v, tuple) and v[0] == "dict" and isinstance(after[k], tuple) and after[k][0] == "dict":
            b, a = v[1], after[k][1]
            if list(b) != list(a):
                bad.append(prefix + k + " (keys/order changed)")
                continue
            for kk in b:
                if b[kk][0] == "obj" and a[kk][0] == "obj":
                    bad.extend(snapshot_diff(b[kk][1], a[kk][1], prefix + k + "[" + kk + "]."))
                elif b[kk] != a[kk]:
                    bad.append(prefix + k + "[" + kk + "]")
        elif after[k] != v:
            bad.append(prefix + k)
    return bad


# ------------------------------------------------------------------ C08 view consistency
def views_consistent(run, case, traj, scale=None, pfx="views", key=None, qnorm_tol=1e-9):
    """
    All representations of a trajectory object describe the same poses: equal counts,
    positions == matrix translations, R(quaternion) == matrix rotation, every matrix is a
    valid rigid-body pose, timestamps count.  Reads every view (used at the end of a case).
    Returns the views dict.
    """
    from vmon import gen
    v = gen.read_views(traj)
    n = len(v["T"])
    key = key or pfx + ":inconsistent"
    ok = run.check(v["p"].shape == (n, 3) and v["q"].shape == (n, 4) and traj.num_poses == n,
                   pfx + ": equal counts", case,
                   "counts differ: positions %s, quaternions %s, matrices %d, num_poses %d" %
                   (v["p"].shape, v["q"].shape, n, traj.num_poses), key=key)
    if "t" in v:
        ok &= run.check(v["t"].shape == (n, ), pfx + ": stamps count", case,
                        "timestamps %s for %d poses" % (v["t"].shape, n), key=key)
    if not ok:
        return v
    sc = scale if scale is not None else 1.0 + float(np.max(np.abs(v["p"]))) if n else 1.0
    dp = float(np.max(np.abs(v["p"] - v["T"][:, :3, 3]))) if n else 0.0
    run.check(dp <= 1e-9 * sc, pfx + ": positions == matrix translations", case,
              "positions differ from the matrix translations by %g" % dp, key=key)
    worst_q, worst_se3, worst_qn = 0.0, 0.0, 0.0
    for k in range(n):
        Rq = rm.rot_from_quat_wxyz(v["q"][k])
        worst_q = max(worst_q, float(np.max(np.abs(Rq - v["T"][k][:3, :3]))))
        worst_se3 = max(worst_se3, rm.se3_defect(v["T"][k]))
        worst_qn = max(worst_qn, abs(float(np.linalg.norm(v["q"][k])) - 1.0))
    run.check(worst_q <= 1e-9, pfx + ": R(quaternion) == matrix rotation", case,
              "quaternions and pose matrices describe rotations %g apart" % worst_q, key=key)
    # (qnorm_tol: quaternions handed over with file precision are kept as given by evo)
    run.check(worst_qn <= qnorm_tol, pfx + ": unit quaternions", case,
              "quaternion norm off by %g" % worst_qn, key=key)
    run.check(worst_se3 <= 1e-9, pfx + ": matrices are rigid-body poses", case,
              "a pose matrix is %g away from SE(3)" % worst_se3, key=pfx + ":not-se3")
    return v


# ------------------------------------------------------------------ C05 association oracle
def _frac(x):
    from fractions import Fraction
    return Fraction(float(x))


def association_oracle(run, case, t1, t2, max_diff, offset, pairs, raised, exact=False,
                       pfx="assoc"):
    """
    Judge one association of stamp vectors t1, t2 (strictly increasing float arrays).
    pairs: list of (i1, i2) index pairs evo produced (in output order) or None if it raised
    raised: None | 'SyncException' | other exception name
    exact: True on dyadic workloads (float arithmetic is exact -> no boundary band)
    Distances are evaluated in exact rational arithmetic: d(i,j) = |t1[i] - (t2[j] + offset)|.
    """
    n1, n2 = len(t1), len(t2)
    F1 = [_frac(v) for v in t1]
    F2 = [_frac(v) + _frac(offset) for v in t2]
    MD = _frac(max_diff)
    mag = max(abs(float(t1[0])), abs(float(t1[-1])), abs(float(t2[0])), abs(float(t2[-1])),
              abs(float(offset)), abs(float(max_diff)), 1e-300)
    band = _frac(0.0) if exact else _frac(4 * float(np.spacing(mag)))
    f2_float = [float(v) for v in F2]

    def nearest_in_2(i):
        import bisect
        k = bisect.bisect_left(f2_float, float(F1[i]))
        c = [j for j in range(max(0, k - 2), min(n2, k + 2))]
        best = min(abs(F1[i] - F2[j]) for j in c)
        return best, [j for j in c if abs(F1[i] - F2[j]) <= best + band]

    f1_float = [float(v) for v in F1]

    def nearest_in_1(j):
        import bisect
        k = bisect.bisect_left(f1_float, float(F2[j]))
        c = [i for i in range(max(0, k - 2), min(n1, k + 2))]
        best = min(abs(F1[i] - F2[j]) for i in c)
        return best, [i for i in c if abs(F1[i] - F2[j]) <= best + band]

    def must_pairs(first_drives):
        """pairs required when trajectory 1 (True) or 2 (False) is the driving (shorter) one"""
        req = []
        n_drv = n1 if first_drives else n2
        near = [nearest_in_2(i) if first_drives else nearest_in_1(i) for i in range(n_drv)]
        owner = {}
        for a, (best, cands) in enumerate(near):
            for b in cands:
                owner.setdefault(b, []).append(a)
        for a, (best, cands) in enumerate(near):
            if len(cands) != 1:
                continue
            b = cands[0]
            if best > MD - band:
                continue
            if len(owner[b]) != 1:
                continue  # contested counterpart: excused by the statement
            req.append((a, b) if first_drives else (b, a))
        return req

    any_possible = False
    # is there any pair clearly within max_diff? (then a SyncException is wrong)
    clear_match = False
    for i in range(n1):
        best, _ = nearest_in_2(i)
        if best <= MD + band:
            any_possible = True
        if best <= MD - band:
            clear_match = True

    if raised is not None:
        ok = run.check(raised == "SyncException", pfx + ": only SyncException", case,
                       "association raised %s" % raised, key=pfx + ":wrong-exception")
        if ok:
            run.check(not clear_match, pfx + ": no SyncException when a match exists", case,
                      "SyncException although a pose pair lies within max_diff",
                      key=pfx + ":false-no-match")
            run.hit(pfx + ": refusals observed")
        return
    run.check(len(pairs) > 0, pfx + ": empty result raises", case,
              "no pair produced but no SyncException raised", key=pfx + ":empty-no-exception")
    run.check(any_possible or len(pairs) == 0, pfx + ": pairs only when possible", case,
              "pairs produced although nothing lies within max_diff", key=pfx + ":impossible-pairs")
    i1 = [p[0] for p in pairs]
    i2 = [p[1] for p in pairs]
    inc1 = all(b > a for a, b in zip(i1, i1[1:]))
    inc2 = all(b > a for a, b in zip(i2, i2[1:]))
    run.check(inc1 and inc2, pfx + ": increasing order, no pose used twice", case,
              "output indices are not strictly increasing (a pose is used more than once or "
              "order is broken): first=%s second=%s" % (i1[:12], i2[:12]),
              key=pfx + ":pose-used-twice" if (len(set(i1)) < len(i1) or len(set(i2)) < len(i2))
              else pfx + ":order-broken")
    short_is_1 = n1 < n2
    equal = n1 == n2
    worst = None
    for (a, b) in pairs:
        d = abs(F1[a] - F2[b])
        run.counters[pfx + ": pair within max_diff"] += 1
        if d > MD + band:
            worst = (a, b, float(d))
        if d == MD:
            run.hit(pfx + ": boundary pairs with difference == max_diff (exactly)")
        # nearest-counterpart clause, from the driving trajectory's point of view
        ok1 = b in nearest_in_2(a)[1]
        ok2 = a in nearest_in_1(b)[1]
        good = ok1 if short_is_1 else ok2 if not equal else (ok1 or ok2)
        run.check(good, pfx + ": paired with a nearest counterpart", case,
                  "pair (%d,%d) does not join a pose with its temporally nearest counterpart" %
                  (a, b), key=pfx + ":not-nearest")
    run.check(worst is None, pfx + ": every pair within max_diff", case,
              "pair %s exceeds max_diff=%r" % (worst, max_diff), key=pfx + ":beyond-max-diff")
    have = set(pairs)
    if equal:
        miss1 = [p for p in must_pairs(True) if p not in have]
        miss2 = [p for p in must_pairs(False) if p not in have]
        missing = miss1 if len(miss1) <= len(miss2) else miss2
        missing = [] if (not miss1 or not miss2) else missing
    else:
        missing = [p for p in must_pairs(short_is_1) if p not in have]
    run.check(not missing, pfx + ": every uncontested in-range pose is paired", case,
              "poses with an uncontested nearest counterpart within max_diff were left "
              "unpaired: %s" % (missing[:6], ), key=pfx + ":unpaired")
