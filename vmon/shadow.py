"""
vmon.shadow - ShadowTrajectory: an independent executable model of a trajectory holding
(R_i, p_i, t_i) that implements each operation's *documented* effect with plain numpy.
It is stepped in lock-step with the real evo object (C08) and composed into the documented
evo_traj pipeline (C15).
"""
import math

import numpy as np

from vmon import refmodel as rm


class ShadowTrajectory:
    def __init__(self, R, p, t=None):
        self.R = np.array(R, dtype=float).copy()
        self.p = np.array(p, dtype=float).copy()
        self.t = None if t is None else np.array(t, dtype=float).copy()
        self.mag = 1.0 + (float(np.max(np.abs(self.p))) if len(self.p) else 0.0)

    def copy(self):
        s = ShadowTrajectory(self.R, self.p, self.t)
        s.mag = self.mag
        return s

    @property
    def n(self):
        return len(self.p)

    def _touch(self):
        if len(self.p):
            self.mag = max(self.mag, 1.0 + float(np.max(np.abs(self.p))))

    # ---- documented geometric effects
    def transform_left(self, T):
        """P -> T*P for SE(3) T; for Sim(3): p -> s*R*p + t, R_p -> R*R_p"""
        A = np.asarray(T, dtype=float)[:3, :3]
        s = float(np.cbrt(np.linalg.det(A)))
        Rt = A / s
        tt = np.asarray(T, dtype=float)[:3, 3]
        self.p = (s * (Rt @ self.p.T)).T + tt
        self.R = np.array([Rt @ Rk for Rk in self.R])
        self._touch()

    @staticmethod
    def _rigid_part(T):
        """[sR t; 0 1] -> [R t; 0 1]: what a similarity contributes when multiplied from the right
        (P*T shifts the position by R_p*t and turns the orientation by R; s has nothing to act on)"""
        T = np.array(T, dtype=float)
        s = float(np.cbrt(np.linalg.det(T[:3, :3])))
        T[:3, :3] = T[:3, :3] / s
        return T

    def transform_right(self, T):
        """P -> P*T (rigid T; of a similarity its rigid part)"""
        T = self._rigid_part(T)
        Rt, tt = np.asarray(T)[:3, :3], np.asarray(T)[:3, 3]
        self.p = np.array([pk + Rk @ tt for Rk, pk in zip(self.R, self.p)])
        self.R = np.array([Rk @ Rt for Rk in self.R])
        self._touch()

    def transform_right_propagate(self, T):
        """first pose kept, every relative motion D_i replaced by D_i*T"""
        if self.n == 0:
            return
        T = self._rigid_part(T)
        P = [rm.se3(Rk, pk) for Rk, pk in zip(self.R, self.p)]
        out = [P[0]]
        for i in range(self.n - 1):
            D = rm.se3_inv(P[i]) @ P[i + 1]
            out.append(out[-1] @ D @ T)
        self.R = np.array([Q[:3, :3] for Q in out])
        self.p = np.array([Q[:3, 3] for Q in out])
        self._touch()

    def scale(self, s):
        self.p = s * self.p
        self._touch()

    def similarity(self, r, t, s, only_scale=False):
        if only_scale:
            self.p = s * self.p
        else:
            self.p = (s * (np.asarray(r) @ self.p.T)).T + np.asarray(t)
            self.R = np.array([np.asarray(r) @ Rk for Rk in self.R])
        self._touch()

    def reduce(self, ids):
        ids = [int(i) for i in ids]
        self.R = self.R[ids] if len(ids) else np.zeros((0, 3, 3))
        self.p = self.p[ids] if len(ids) else np.zeros((0, 3))
        if self.t is not None:
            self.t = self.t[ids] if len(ids) else np.zeros(0)

    def crop(self, start, end):
        s = self.t[0] if start is None else start
        e = self.t[-1] if end is None else end
        self.reduce([i for i in range(self.n) if s <= self.t[i] <= e])

    def project_positions(self, null_dim):
        self.p[:, null_dim] = 0.0

    # ---- derived quantities
    def seg(self):
        return np.array([math.sqrt(float((b - a) @ (b - a))) for a, b in zip(self.p[:-1], self.p[1:])])

    def path_length(self):
        return math.fsum(self.seg())

    def distances(self):
        return rm.cumdist(self.p) if self.n else np.zeros(0)

    def speeds(self):
        return self.seg() / np.diff(self.t)

    def poses(self):
        return [rm.se3(Rk, pk) for Rk, pk in zip(self.R, self.p)]
